#!/bin/bash
# Applies seeded/<id>/patch.diff to a fresh worktree of /repo's HEAD (i.e. on top of all repairs) and runs one check on it.
#   tools/seedrunx.sh <seed-id> <Cnn> [quick|thorough]
sid="$1"; chk="$2"; tier="${3:-quick}"
wt=/tmp/seed/x_$sid
git -C /repo worktree remove --force $wt 2>/dev/null
git -C /repo worktree add -q --detach $wt HEAD || exit 2
if ! git -C $wt apply /verif/seeded/$sid/patch.diff 2>/root/scratch/apply.$sid.err; then
  # regenerated files may conflict with later repairs: apply what applies (the source change), report the rest
  git -C $wt apply --reject /verif/seeded/$sid/patch.diff > /root/scratch/apply.$sid.err 2>&1
  echo "NOTE: patch applied with rejects: $(grep -c 'Rejected' /root/scratch/apply.$sid.err) hunks rejected"
  find $wt -name '*.rej' -delete
fi
out=/root/scratch/seedout/x_$sid; mkdir -p $out
cd /verif
VERIF_REPO=$wt VERIF_OUT=$out ./run.sh $chk $tier > $out/$chk.$tier.log 2>&1
rc=$?
echo "seed=$sid (on repaired HEAD) check=$chk tier=$tier exit=$rc"
grep -E "^(VIOLATION|ERROR)|evaluations=" $out/$chk.$tier.log | cut -c1-260
git -C /repo worktree remove --force $wt
