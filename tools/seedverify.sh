#!/bin/bash
# Confirms a seeded change delivered in a scratch worktree: it builds, the pinned suite passes with it,
# its demonstration fails with it and passes without it.  Then copies the deliverables to /verif/seeded/<id>/.
#   tools/seedverify.sh <worktree> <id>
wt="$1"; id="$2"
export GOFLAGS=-mod=mod GOPROXY=off GOSUMDB=off GOTOOLCHAIN=local
set -u
cd "$wt" || exit 2
git diff HEAD > /root/scratch/$id.actual.diff
if ! diff -q <(git diff HEAD) SEED/patch.diff >/dev/null; then echo "NOTE: patch.diff differs from worktree diff; using the worktree diff"; fi
# keep the untracked SEED directory out of ./... (it may hold test files meant to be copied elsewhere)
[ -f SEED/go.mod ] || printf 'module seedfiles\n\ngo 1.23\n' > SEED/go.mod
echo "== build"; go build ./... || { echo BUILD-FAILS; exit 1; }
echo "== pinned suite with the change"; /verif/tools/pinned.sh "$wt" || { echo PINNED-FAILS; exit 1; }
democmd=$(python3 -c "import json;print(json.load(open('SEED/meta.json')).get('demo_cmd',''))")
echo "== demo with change: $democmd"
( eval "$democmd" ) > /root/scratch/$id.demo.with.log 2>&1; with=$?
git stash -q
( eval "$democmd" ) > /root/scratch/$id.demo.without.log 2>&1; without=$?
git stash pop -q
echo "demo exit with change=$with without=$without"
tail -5 /root/scratch/$id.demo.with.log
[ $with -ne 0 ] && [ $without -eq 0 ] || { echo DEMO-NOT-DISCRIMINATING; exit 1; }
mkdir -p /verif/seeded/$id
rsync -a --delete --exclude /go.mod SEED/ /verif/seeded/$id/
cp /root/scratch/$id.actual.diff /verif/seeded/$id/patch.diff
echo CONFIRMED $id
