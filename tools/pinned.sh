#!/bin/bash
# Runs the pinned suite on a throw-away copy of a tree (default /repo) and compares with BASELINE.json stable_pass.
src="${1:-/repo}"
w=/root/scratch/pinned.$$
mkdir -p $w && rsync -a --exclude .git "$src"/ $w/repo/
export GOFLAGS=-mod=mod GOPROXY=off GOSUMDB=off GOTOOLCHAIN=local
(cd $w/repo && go test -mod=mod -json -vet=off -count=1 -timeout 25m ./... > $w/test.json 2> $w/test.err)
python3 - $w/test.json <<'PY'
import json,sys
res={}
for l in open(sys.argv[1]):
    try: e=json.loads(l)
    except: continue
    if e.get('Action') in('pass','fail','skip') and e.get('Test'):
        res[e['Package']+'::'+e['Test']]=e['Action']
base=json.load(open('/root/.vp/BASELINE.json'))['stable_pass']
bad=[t for t in base if res.get(t)!='pass']
print("pinned: stable_pass=%d now_pass=%d NOT-PASSING=%d"%(len(base),sum(1 for v in res.values() if v=='pass'),len(bad)))
for t in bad[:40]: print("  ",t,res.get(t))
sys.exit(1 if bad else 0)
PY
rc=$?
tail -3 $w/test.err
rm -rf $w
exit $rc
