#!/bin/bash
# Runs one check against a seeded tree without touching /repo or the committed evidence.
#   tools/seedrun.sh <seed-id> <Cnn> [quick|thorough]     (tree = /tmp/seed/<seed-id>)
sid="$1"; chk="$2"; tier="${3:-quick}"
out=/root/scratch/seedout/$sid; mkdir -p $out
cd /verif
VERIF_REPO=/tmp/seed/$sid VERIF_OUT=$out ./run.sh $chk $tier > $out/$chk.$tier.log 2>&1
rc=$?
echo "seed=$sid check=$chk tier=$tier exit=$rc"
grep -E "^(VIOLATION|KNOWN-FINDING|ERROR)|evaluations=" $out/$chk.$tier.log | cut -c1-300
exit 0
