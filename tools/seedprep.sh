#!/bin/bash
# Prepares a seeding round: for each property number given, a fresh worktree of /repo HEAD under /tmp/seed/<letter><nn>,
# the property text (only the property: nothing else from /verif reaches the sub-agent), the list of mechanisms earlier
# seeds used for that property (taken from seeded/*/meta.json: what the earlier sub-agents themselves wrote), and the prompt.
#   tools/seedprep.sh <letter> <nn> [<nn> ...]
letter="$1"; shift
mkdir -p /tmp/seed
cd /verif
for nn in "$@"; do
  id="$letter$nn"; P="C$nn"
  git -C /repo worktree remove --force /tmp/seed/$id 2>/dev/null
  git -C /repo worktree add -q --detach /tmp/seed/$id HEAD || exit 2
  python3 - "$P" "$id" <<'E'
import json,sys,glob,os
P,sid=sys.argv[1],sys.argv[2]
for l in open('/verif/properties.jsonl'):
    p=json.loads(l)
    if p['id']==P:
        with open(f'/tmp/seed/{sid}.property.txt','w') as f:
            f.write(f"Property {P}: {p['title']}\n\nStatement: {p['statement']}\n\nQuantified over: {p['quantifier']['text']}\n\nWhy the existing tests cannot settle it: {p['why_tests_cant']}\n\nCode anchors: {json.dumps(p['anchors'])}\n")
used=[]
for mf in sorted(glob.glob('/verif/seeded/*/meta.json')):
    m=json.load(open(mf))
    if m.get('property')!=P: continue
    used.append("- files: "+", ".join(m.get('files_changed',[]))[:200]+"; mechanism: "+str(m.get('what_it_breaks',''))[:520].replace('\n',' '))
with open(f'/tmp/seed/USED_{P}.txt','w') as f:
    f.write(f"Mechanisms already used for property {P} in earlier rounds (do NOT reuse them, and do not touch the same functions):\n"+"\n".join(used)+"\n")
n=len(used)
words={1:'SECOND',2:'THIRD',3:'FOURTH',4:'FIFTH',5:'SIXTH',6:'SEVENTH'}
cnt={1:'one earlier round',2:'two earlier rounds',3:'three earlier rounds',4:'four earlier rounds',5:'five earlier rounds',6:'six earlier rounds'}
common=open('/verif/tools/seedprompt/COMMON.txt').read()
rnd=open('/verif/tools/seedprompt/ROUND.txt').read().replace('FOURTH round',words.get(n,'NEXT')+' round').replace('three earlier rounds',cnt.get(n,'the earlier rounds'))
extra=open('/verif/tools/seedprompt/EXTRA.txt').read() if os.path.exists('/verif/tools/seedprompt/EXTRA.txt') else ''
txt=(common+rnd+extra).replace('@ID@',sid).replace('@PROP@',P)
open(f'/tmp/seed/prompt_{sid}.txt','w').write(txt)
print(sid,P,'earlier seeds:',n)
E
done
