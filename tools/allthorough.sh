#!/bin/bash
# Runs every check's thorough tier against /repo, one after the other, evidence into a scratch directory.
cd /verif
out=/root/scratch/allthorough; mkdir -p $out
for i in 12 16 18 06 14 20 03 09 04 01 15 07 17 13 19 05 08 02 11 10; do
  t0=$(date +%s)
  VERIF_OUT=$out ./run.sh C$i thorough > $out/C$i.log 2>&1
  rc=$?
  t1=$(date +%s)
  v=$(grep -c '^VIOLATION' $out/C$i.log)
  echo "C$i exit=$rc violations=$v wall=$((t1-t0))s $(grep -o 'exhaustive=[a-z]*' $out/C$i.log | head -n 1)"
done
