#!/bin/bash
# Runs every check's quick tier against /repo, one after the other; prints one line per check.
cd /verif
mkdir -p /root/scratch/allquick
fail=0
for i in 12 16 18 13 08 06 05 14 20 03 09 04 01 15 02 07 17 11 19 10; do
  t0=$(date +%s)
  ./run.sh C$i quick > /root/scratch/allquick/C$i.log 2>&1
  rc=$?
  t1=$(date +%s)
  v=$(grep -c '^VIOLATION' /root/scratch/allquick/C$i.log)
  k=$(grep -c '^KNOWN-FINDING' /root/scratch/allquick/C$i.log)
  echo "C$i exit=$rc violations=$v known=$k wall=$((t1-t0))s"
  [ $rc -ne 0 ] && fail=1
done
exit $fail
