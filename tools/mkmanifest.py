#!/usr/bin/env python3
"""Writes /verif/MANIFEST.json from the table below and validates it against the schema."""
import json, os, sys
HERE = os.path.dirname(os.path.dirname(os.path.abspath(__file__)))
props = [json.loads(l) for l in open(os.path.join(HERE, "properties.jsonl"))]
ids = [p["id"] for p in props]

# id -> (category, technique, text, note, design_ref)
CHECKS = {}
exec(open(os.path.join(HERE, "tools", "checks_table.py")).read())

checks, na = [], []
for i in ids:
    if i in CHECKS:
        c = CHECKS[i]
        checks.append({
            "property_id": i,
            "quick_cmd": f"./run.sh {i} quick",
            "thorough_cmd": f"./run.sh {i} thorough",
            "evidence_file": f"/verif/evidence/{i}.json",
            "replay_cmd_template": f"./run.sh {i} --replay {{path}}",
            "engine": c.get("engine", "E1"),
            "level_claimed": {"category": c["category"], "text": c["text"], "design_ref": c.get("design_ref", f"DESIGN.md section 2, {i}")},
            "level_note": c["note"],
            "technique": c["technique"],
        })
    else:
        na.append({"property_id": i, "reason": NOT_YET.get(i, "check not built yet in this round; see DESIGN.md for the planned bounded-exhaustive enumeration")})

m = {
    "version": 1,
    "setup_cmd": "./setup.sh",
    "hooks": {
        "guard": "verif",
        "enable": "no instrumentation is committed to /repo: seams are applied at build time with `go build -overlay` / generated scratch copies under the build tag-free overlay directory (see DESIGN.md E4)",
        "baseline_off_cmd": "cd /repo && GOFLAGS=-mod=mod go test -vet=off -count=1 -timeout 25m ./...",
        "source_commits": [],
        "add_only": True,
    },
    "engines": ENGINES,
    "checks": checks,
    "not_applicable": na,
    "notes": NOTES,
}
out = os.path.join(HERE, "MANIFEST.json")
json.dump(m, open(out, "w"), indent=1)
open(out, "a").write("\n")
try:
    import jsonschema
    jsonschema.validate(m, json.load(open("/root/.vp/MANIFEST.schema.json")))
    print("MANIFEST.json valid:", len(checks), "checks,", len(na), "not_applicable")
except ImportError:
    print("jsonschema not importable; run with python3-vt")
