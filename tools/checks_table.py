ENGINES = [
    {"name": "E1-enum", "path": "/verif/cmd, /verif/internal", "serves_properties": ["C12"],
     "kind_free_text": "bounded-exhaustive enumerator over explicit alphabets, every case executed on the real code and judged by a Go reference model"},
]
NOTES = "All checks: ./run.sh <id> quick|thorough rebuilds the harness against /repo's working tree (replace directive) and rewrites evidence/<id>.json. known_findings.json is read-only at run time."
NOT_YET = {}
CHECKS["C12"] = dict(
    category="exploration", engine="E1-enum",
    technique="bounded-exhaustive enumeration (all strings <= N over a 12-symbol alphabet; all spelling pairs of small path keys) against a reference normalizer",
    text="Every string up to length 6 (quick) / 8 (thorough, 4.7e8 strings) over an alphabet holding '%', hex digits of both cases, a non-hex letter, reserved, unreserved and non-ASCII bytes is run through uri.NormalizeEscapedPath and compared with an RFC 3986 reference: ok flag, output, idempotence, octet equality, no panic. The parser half enumerates all pairs of equivalent spellings of path keys of <= 3/4 atoms (must be duplicates) and one-atom-apart keys (must not). Exhaustive within the bound; nothing is claimed above it.",
    note="Trusted: the 30-line reference normalizer and net/url.PathUnescape. Strings longer than the bound or over other bytes are not explored; the function is byte-local (state = position only), which is why a small alphabet with one symbol per branch is adequate.",
)
