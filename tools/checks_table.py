ENGINES = [
    {"name": "E1-enum", "path": "/verif/cmd, /verif/internal", "serves_properties": ["C06", "C07", "C08", "C11", "C12", "C13", "C16", "C17", "C18"],
     "kind_free_text": "bounded-exhaustive enumerator over explicit alphabets, every case executed on the real code and judged by a Go reference model"},
]
NOTES = "All checks: ./run.sh <id> quick|thorough rebuilds the harness against /repo's working tree (replace directive) and rewrites evidence/<id>.json. known_findings.json is read-only at run time."
NOT_YET = {}
ENGINES.append({"name": "E3-sched", "path": "/verif/drivers/verifsched", "serves_properties": ["C10", "C19"],
     "kind_free_text": "controlled cooperative scheduler (one logical thread at a time, scheduling points at hooked synchronisation and I/O operations) with stateless preemption-bounded depth-first search, state-key pruning over thread pcs / pool contents (full backing arrays) / mutex owners, determinism self-check by double replay, 5x re-run of violations; sync.Pool / sync.Mutex / errgroup shims; free mode for the separate -race pass"})
ENGINES.append({"name": "E4-mapseam", "path": "/verif/cmd/mapseam, /verif/overlays/verifrt.go.txt", "serves_properties": ["C10", "C11", "C17"],
     "kind_free_text": "map-iteration seam: a go/types based rewriter turns every range over a map (and x/exp/maps.Keys/Values) in the generator packages of the tree under check into a harness-ordered iterator, applied with go build -overlay; the order is an environment answer the explorer controls (default ascending, deviations per dynamic range execution)"})
ENGINES.append({"name": "E2-regen", "path": "/verif/internal/regen, /verif/drivers", "serves_properties": ["C01", "C02", "C03", "C04", "C05", "C09", "C14", "C15", "C20"],
     "kind_free_text": "regenerate-compile-drive pipeline: specs are generated in process by the generator of the tree under check into a scratch module, compiled with a driver and every case of the bounded space is executed on the regenerated code"})
CHECKS["C12"] = dict(
    category="exploration", engine="E1-enum",
    technique="bounded-exhaustive enumeration (all strings <= N over a 12-symbol alphabet; all spelling pairs of small path keys) against a reference normalizer",
    text="Every string up to length 6 (quick) / 8 (thorough, 4.7e8 strings) over an alphabet holding '%', hex digits of both cases, a non-hex letter, reserved, unreserved and non-ASCII bytes is run through uri.NormalizeEscapedPath and compared with an RFC 3986 reference: ok flag, output, idempotence, octet equality, no panic. The parser half enumerates all pairs of equivalent spellings of path keys of <= 3/4 atoms (must be duplicates) and one-atom-apart keys (must not). Exhaustive within the bound; nothing is claimed above it.",
    note="Trusted: the 30-line reference normalizer and net/url.PathUnescape. Strings longer than the bound or over other bytes are not explored; the function is byte-local (state = position only), which is why a small alphabet with one symbol per branch is adequate.",
)

CHECKS["C16"] = dict(
    category="exploration", engine="E1-enum",
    technique="bounded-exhaustive enumeration of (document, pointer) pairs against an independent RFC 6901 evaluator (node identity)",
    text="All tree shapes of depth <= 3 with member names rotated through 21 adversarial names (empty, numeric-looking, ~, /, ~0, ~1, %, %25, ...) in JSON and YAML spelling, all sibling pairs of names; for every node its pointer in plain and four fragment encodings, every single-character edit of it and all short strings over the edit alphabet. jsonpointer.Resolve must return the identical *yaml.Node the reference designates, or an error where the reference has none; never a different node, never a panic.",
    note="Trusted: the reference evaluator in cmd/c16 and go-faster/yaml as document parser. A '~' not followed by 0/1 is not a pointer under the ABNF; ogen's lenient reading is outside the oracle (counted) but a node it returns must be the literal reading's node. YAML aliases/merge keys are not generated.",
)
CHECKS["C18"] = dict(
    category="exploration", engine="E1-enum",
    technique="all ordered pairs of an enumerated pool of JSON texts through json.Equal against an exact reference value model; all truncations/extensions for the malformed half",
    text="Every ordered pair of ~2k (quick) / ~5k (thorough) JSON texts (number spellings incl. beyond 2^53 and huge exponents, escaped vs literal strings, permuted / padded composites up to depth 2) is compared with json.Equal and with an exact reference (decimal numbers, sorted members, UTF-16 units). Agreement on all pairs implies the equivalence laws on the set; reflexivity/symmetry/transitivity counterexamples are extracted when it fails. Every proper prefix and 18 one-byte extensions of each text must never compare equal without error. Duplicate-enum detection in jsonschema is checked on all pairs of the leaf pool.",
    note="Trusted: internal/jsonref (strict RFC 8259 parser), cross-checked for well-formedness against encoding/json. Objects with duplicate member names and lone surrogates are outside the domain.",
)

CHECKS["C13"] = dict(
    category="exploration", engine="E1-enum",
    technique="exhaustive enumeration of small value domains (all 8/16-bit integers, all finite float32 bit patterns, every calendar day and time of day) and structured-exhaustive enumeration of wide ones, through every conv/json text pair",
    text="Every conv TToString/ToT pair and every json Encode*/Decode* pair is driven with v -> text -> v': equality, no error, no panic, text in the format's syntax. Exhaustive where the type allows (bool, int8/16, uint8/16, 86 400 times of day, 3.65 M calendar days, in the thorough tier all 4.26e9 finite float32 values and all zone/clock combinations); structured elsewhere (every 2^k and 10^k with neighbours, every (sign, exponent) x mantissa pattern for float64, unit boundaries for durations, single-byte sweeps for UUID/MAC, masks for IPv6, component products for URLs).",
    note="Trusted: Go's strconv/time/netip/url parsers as the inverse direction. 32/64-bit integers, float64, unix timestamps, UUID, IP, URL are structured samples of their domain, not exhaustive; values a format cannot represent (NaN/Inf, years outside 0000-9999, sub-minute zone offsets) are outside the domain.",
)
CHECKS["C08"] = dict(
    category="exploration", engine="E1-enum",
    technique="bounded-exhaustive enumeration of pattern ASTs x subject strings against a reference ECMA-262 backtracking matcher, cross-checked with regexp2",
    text="All patterns of one term and (bounded) two/three terms over 89 atoms (every escape, class form, anchor, group, look-around, back-reference) x 12 quantifiers plus five wrappers, against every subject of <= 2 (<= 3 for short patterns) code points over a 26-symbol alphabet (ASCII, line terminators, ECMAScript-only whitespace, BMP, astral): ogenregex.Compile(p).MatchString(s) must equal the reference matcher; alarm only when regexp2 agrees with the reference. Also: String() == source, look-around/back-references never run on RE2, compile errors only for patterns regexp2 rejects too.",
    note="Trusted: internal/ecma (716-line reference matcher written from the ECMA-262 grammar, no Annex B) and regexp2 as second oracle; evaluations where the two oracles disagree are counted as oracle_disputed (all of them are in fallback patterns, where ogen is regexp2). Longer patterns/subjects than the bound are not explored.",
)
CHECKS["C06"] = dict(
    category="exploration", engine="E1-enum",
    technique="complete enumeration of the admitted (in, style, explode, shape) cells (decided by the real parser+generator) x bounded-exhaustive values over a delimiter alphabet, against a reference serializer; exhaustive byte strings for cookie escaping",
    text="The 37 cells the real ogen.Parse + gen.NewGenerator admit (168 candidates probed on every run) are each driven with all strings <= 2/3 over 18 symbols as primitives, arrays of 0-3 items and objects of 0-2 fields with adversarial names through exactly the calls generated code makes (uri encoders -> net/url, net/http -> uri decoders). Core values must be accepted, serialized as the OpenAPI/RFC 6570 table prescribes and decoded unchanged; any value must be refused, rejected or delivered unchanged; values containing the active delimiter must be refused by the encoder; no panic. escapeCookie/unescapeCookie are checked on all byte strings <= 2/3 over all 256 bytes (through a build-time overlay export).",
    note="Trusted: the reference serializer in cmd/c06, net/url and net/http as transport. Unexported cookie escapers are reached through a go build -overlay file (cmd/c06/overlay), /repo is untouched. Two known findings: [] vs [\"\"] share a wire form in joined array serializations.",
)

CHECKS["C05"] = dict(
    category="exploration", engine="E2-regen",
    technique="bounded-exhaustive enumeration of route sets x request paths on regenerated routers against a reference template matcher",
    text="All sets of <= 2 templates over the 57 templates of <= 2 segments from {a,b,ab,{p},a{p},{p}a,{p}-{q}} (modulo a<->b), every 3-segment template, regression shapes (thorough: triples and 3-segment pairs) are regenerated as server-only packages with the generator under check and linked into one driver; each is hit with every template instance over {fresh, every static text, empty, %2F-holding} values, every short path over the same texts, x prefix x 4 methods, plus every re-escaping of up to 4 unreserved bytes (C12 router half): 1.4e7 requests in the quick tier. Oracles S1-S6: served template instantiates to the path, static beats templated, clean instances are served, unmatched paths 404, 405 with exact Allow, FindPath agrees with ServeHTTP.",
    note="Trusted: reference matcher in drivers/c05 (regular template matching). One known finding (parameter before static text swallows '/'): a violation is attributed to it only if it is consistent with the router's tail rule modelled exactly (node-level tails); every other S1-S6 failure is reported. Longer templates, larger sets and other segment shapes than the alphabet are not explored.",
)
CHECKS["C14"] = dict(
    category="exploration", engine="E2-regen",
    technique="complete enumeration of the go:generate directives, re-run with generators built from the working tree, byte comparison",
    text="Finite and complete: all 42 go:generate directives with a present input (41 cmd/ogen packages, jschemagen, mkformattest) are re-run with binaries built from the tree under check (GOTOOLCHAIN=local, the directive's flags, working directory and GOPACKAGE) into a scratch target; file sets and bytes must equal the checked-in ones (695 files).",
    note="ex_k8s is skipped: its input spec is an emptied file in this sandbox. Trusted: nothing beyond the go tool.",
)

CHECKS["C20"] = dict(
    category="fault_enumeration", engine="E2-regen",
    technique="complete enumeration of failure stage x target-directory state x flags on the built cmd/ogen binary with before/after snapshots",
    text="Every pre-write failure stage (16: unknown flag, missing argument, config missing/invalid/unknown field/unknown feature, spec missing/directory, malformed YAML/JSON, spec validation x2, dangling $ref, not-implemented, IR build error, route conflict) and two successful runs are crossed with 18 (quick) / 33 (thorough) target states (absent, empty, every subset of {previous generation with stale files, look-alike user files, generated-looking sub-directories, symlink, read-only generated file}), --clean on/off and relative/absolute target: 1296 / 2376 executions of the binary built from the working tree. Failure => exit != 0 and the recursive snapshot of the target (and of the working directory) is unchanged; success => only top-level files matching the generator's pattern are created/overwritten/removed, removal only with --clean.",
    note="Fixtures are self-validating (each must fail at its intended stage, checked by error text on every run). Runs as root: permission-denied paths are not reachable in this sandbox. Failures after writing has begun (formatter errors) are outside the property.",
)

CHECKS["C03"] = dict(
    category="exploration", engine="E2-regen",
    technique="bounded-exhaustive enumeration of a schema grammar x a universal instance pool on a regenerated server against a reference validator (cross-checked with python jsonschema)",
    text="328 (quick) / ~850 (thorough, depth 3) schemas from the supported keyword fragment are regenerated as JSON-body operations (every leaf schema also as query, path and header parameter) of one server; the full product with a ~190-instance pool (values around every bound, length and pattern used, arrays 0-3 with duplicates, objects over the member names used, recursion, discriminator documents) is posted: 5.7e4 / 1.7e5 requests. Reference verdict valid <=> the request reaches the handler (501 + middleware ran); invalid => 4xx and no handler. The reference validator's verdicts are cross-checked on every unambiguous body pair with python jsonschema Draft4 (+ nullable rewrite).",
    note="Trusted: drivers/refval (exact rationals). Outside the oracle and counted: 1.0 for integer, numbers beyond 2^53, non-dyadic multipleOf, 1 vs 1.0 duplicates, instances carrying members unique to several oneOf variants, discriminator documents on which OpenAPI mapping semantics and plain oneOf differ, integer+number sums, ParseBool spellings of booleans in text parameters. Python disagrees with the reference only on `$` before a trailing newline (Python regex semantics).",
)

CHECKS["C09"] = dict(
    category="exploration", engine="E2-regen",
    technique="complete enumeration of requirement structures over <= 3 schemes x all 4^n credential outcome vectors on a regenerated server against an OR-of-AND model; credential equality through the regenerated client",
    text="One regenerated client+server with 274 operations: all 255 non-empty sets of alternatives over three apiKey schemes (header, query, cookie), five operations over 20 schemes whose alternatives straddle bitmask indices 7/8 and 15/16, `security: []`, an operation inheriting the global requirement, and 12 operations over basic, bearer, oauth2 (three scope sets) and mixed kinds. Every operation is driven with all 4^n vectors over {absent, accepted, skipped, hard-rejected} (wide ones: one-hot / all-but-one on three backgrounds and all boundary triples): handler invoked <=> model, otherwise 401; the SecurityHandler sees exactly the presented credential, the right operation name and the operation's oauth2 scopes. Through the generated client, 16 credential values per scheme kind must arrive unchanged.",
    note="A hard reject (non-skip error) aborts with 401 even if another alternative is satisfied: treated as the documented contract of ErrSkipServerSecurity and counted (hard_reject_vectors_with_satisfied_alternative), see DESIGN.md C09. One known finding: apiKey in cookie is not escaped. More than 3 schemes are not exhaustive (structured vectors).",
)

CHECKS["C04"] = dict(
    category="exploration", engine="E2-regen",
    technique="schema-directed bounded-exhaustive enumeration of Go values of regenerated types (and of valid JSON instances) with encode/validate/decode oracles against reference models",
    text="Every schema S of the C03 grammar plus 34 format/default/map leaves becomes a root object {v: S, o: S optional, n: S nullable optional}; 362 (quick) / ~880 (thorough) root types are regenerated. A schema-directed reflective builder enumerates their values: Opt/Nil/OptNil wrappers in every state, nil / empty / 1-3 element slices incl. duplicates, every sum variant and enum value, boundary and extreme numbers, escape-heavy / Unicode / NUL strings, format values at resolution, zero values; single-field variation over a valid base (pairs in thorough): 1.6e4 / 2e5 values. For every value passing its own Validate(): Encode is well-formed JSON (independent parser), valid under the reference validator for the source schema, Decode succeeds and deep-equals (absent/null/present, nil vs empty where nil has a JSON meaning, selected variant), re-encoding is a semantic fixpoint. JSON-first: valid pool instances are decoded, validated and re-encoded to the same value.",
    note="Trusted: internal/jsonref, drivers/refval. Identifications (DESIGN.md C04): nil == empty for maps, for slices without nil semantics and inside nullness-carrying wrappers; unset member with a default decodes as the default; zero values a format cannot represent are outside the domain. Two known findings (zero sum encodes to nothing; property counts validated by the decoder only).",
)

CHECKS["C01"] = dict(
    category="exploration", engine="E2-regen",
    technique="bounded-exhaustive enumeration of parameter values per admitted (in, style, explode, shape, required/optional/default) cell and of body/response exchanges on a regenerated client+server pair, compared end to end",
    text="328 parameter operations (every admitted cell x 16 shapes incl. int32/int64/float/double/uuid/date/date-time/ipv4/uri/enum, arrays, flat object, map x required/optional/default) and a media spec (JSON with every member kind, form, multipart, text, octet-stream, optional body; 200 with headers, 201, 4XX pattern, default) are regenerated as client + server. 3.2e4 calls per configuration go Client -> in-process transport -> Server -> recording middleware -> recording handler -> scripted response -> Client: handler arguments == caller arguments (defaults filled for absent members), middleware.Request{Params, Body} == handler arguments, caller receives exactly the scripted variant/status/headers/body; a core value must be delivered, any value is delivered unchanged or refused with an error. thorough: second feature configuration (request/response validation, otel, example tests).",
    note="Trusted: the in-process transport (mimics http.Transport's unknown-length rule), reflect-based equality. Known findings: [] vs [\"\"] wire-form collision in joined array parameters and response headers. Bodies are a fixed member-kind matrix (not the whole schema grammar); webhooks and random specs are not driven.",
)

CHECKS["C15"] = dict(
    category="fault_enumeration", engine="E2-regen",
    technique="exhaustive single-fault (thorough: pairwise) injection at every position of valid requests against a regenerated server, judged by a stage model",
    text="Six valid request shapes produced by the regenerated client (JSON body with parameters in all four locations and an apiKey requirement, form, optional JSON/text/empty body, multipart) are mutated by every single fault: 5 methods, 6 paths, 7 raw paths with malformed escapes, 28 parameter/credential faults, 7 content types, truncation and read error at every byte offset of the body, Content-Length mismatches, trailing data, 14 JSON token rewrites, 1e5-deep nesting, nil body, x handler outcomes {ok, declared default, error, not implemented}: 1108 requests; thorough adds every pair of faults at different positions and stages (3994). Oracle: no panic escapes ServeHTTP, exactly one response, status class of the earliest failing stage (404/405, 401, 400, 400/415), handler invoked iff no earlier stage failed, handler outcomes passed through.",
    note="Trusted: the stage model in drivers/c15 and the fault classification (benign faults only check consistency). Requests are hand-built *http.Request values (bypassing net/http's validation), no sockets. Random requests and other specs are not driven.",
)

CHECKS["C02"] = dict(
    category="exploration", engine="E2-regen",
    technique="enumeration of programs (hostile-name matrix, corpus, shape fixtures) x feature configurations, each generated by the generator under check and compiled by the real Go compiler",
    text="1741 (quick) / ~7000 (thorough) generated packages: a hostile-name matrix (21 name positions x 91 names: keywords, digits-first, quotes, backslash, backquote, newline, Unicode, empty, names of generated identifiers / imported packages / template variables; 15 collision pairs x 6 positions), every non-empty corpus spec x {default, all} (thorough: + client-only, server-only, large specs), the feature-subset sweep on a feature-rich spec x convenient errors on/off (quick: <= 2 or >= 10 of the 11 features, thorough: all 2048 subsets) and 5 shape fixtures. Oracle: generation ends with an ordinary error, or every written package builds with `go build` (packages with generated test files are also type-checked through `go vet`); a panic, ErrGoFormat or a compile error is a violation.",
    note="Trusted: the Go toolchain. Five known-finding classes (names colliding with fixed generated identifiers, properties named like generated methods, newline in a name, pattern responses sharing a schema, global security + webhooks), each matched by position and name so that any other failure is reported. Random specs are replaced by the matrices.",
)

CHECKS["C07"] = dict(
    category="exploration", engine="E1-enum",
    technique="enumeration of reference-graph topologies x all subsets of reference sites inlined by an independent inliner, parse results compared structurally; complete list of cycle shapes per component kind",
    text="14 base documents (reference graphs over all 8 component kinds: chains, one target from 2-4 sites under different names / paths / operations / codes, all kinds at once; 5 multi-file topologies incl. relative references through a sub-directory and a back reference into the root) with 75 reference sites; every non-empty subset of a document's sites (all 2^r up to r = 10/14, else all subsets of size <= 2 and >= r-1) is inlined on the raw JSON tree and must parse to the same *openapi.API modulo Ref/location fields, generate iff the referencing document generates, and Expand + re-parse must give an equivalent API. 1-, 2-, 3-cycles of every kind, 8 schema-recursion shapes, cycles across files, reference chains and nestings around the depth limit must end with recursive types / a located infinite-recursion error / an error - never a panic or non-termination (15-minute watchdog; parsing is cubic in nesting depth).",
    note="Trusted: the 60-line inliner and the reflective dump (ignores Ref, Pointer, Locator, yaml nodes). Generated code is checked for successful generation (gofmt-clean), not behaviour; compilation of such packages is C02's. Known finding: Expand drops example values. Random DAGs are replaced by the topology list.",
)

CHECKS["C17"] = dict(
    category="exploration", engine="E1-enum",
    technique="complete product of spelling toggles produced by an independent serializer x base documents, generated bytes compared; single-fault mutants x spellings for diagnostics",
    text="12 (quick) / ~45 (thorough) base documents (a custom-unmarshaler document with raw numbers 1.0 / 1e3 / 2^63-1 / 2^64 / -0, enums and defaults of every JSON type, every additionalProperties form, patternProperties, x-ogen-* extensions, examples; a third of the schema grammar; corpus specs) are each spelled in all 66 combinations of {JSON compact, JSON indented, YAML block, YAML flow} x {plain-when-safe, single, double quoting} x quoted keys x comments/blank lines x indent 2/4 x document marker x anchors/aliases, by a serializer that shares no code with the YAML library; the generated files must be byte-identical (792 full generations in quick). Invalid half: ~6900 single-fault mutants (15 kinds at every node of 3 documents) x 8 spellings must give the same diagnostic up to positions.",
    note="Trusted: internal/docmodel (own emitter). Scalars whose type depends on the YAML version (y, yes, on, ...) are quoted in the main run; the plain spelling is a labelled sub-run and a known finding. Diagnostics that differ between runs of one spelling are counted and left to C10. Key order is preserved by construction; random re-spellings are replaced by the complete toggle product.",
)

CHECKS["C11"] = dict(
    category="fault_enumeration", engine="E1-enum",
    technique="exhaustive single-fault mutation of every node of base documents (17 mutation kinds x 2 spellings) and all short byte strings, each executed in crash-isolated worker subprocesses; positions judged against spans recorded by an own serializer",
    text="Every node of 7 (quick) / ~35 (thorough) base documents x 17 mutation kinds (retype to int/string/bool/null, empty map/seq/string, delete, -1, 2^64, 1e400, 1.5, dangling $ref, self $ref, $ref to parent, duplicated sibling key, 1000-deep nesting) x {indented JSON, block YAML}, every path key x 6 broken percent-escapes, and all byte strings of <= 4/5 symbols over an 18-symbol structural alphabet go through ogen.Parse + gen.NewGenerator (every fifth survivor also through the templates): 4.7e4 documents + 1.1e5 byte strings in quick. Workers are subprocesses: a fatal stack overflow or a hang (10 min watchdog) is attributed to the job in flight. Oracle: no panic, no crash, terminates; every reported position is inside the document and, for in-place mutations, on the mutated node / its key / an ancestor / a $ref or name-linked use site of it / a sibling keyword of the same object; JSON and YAML spellings designate the same node.",
    note="Built with the map-order seam pinned to ascending order, so that diagnostics do not depend on Go's map randomisation (that dependence is C10's subject). Trusted: internal/docmodel spans. 'Bounded memory' is only 'the worker survived'; coverage-guided fuzzing is replaced by bounded-exhaustive byte strings; pairs of mutations are not enumerated.",
)

CHECKS["C19"] = dict(
    category="model_checking", engine="E3-sched",
    technique="stateless preemption-bounded DFS (dynamic exploration of the real regenerated code under a controlled cooperative scheduler, state-key pruning) over all multisets of calls; separate free-running -race pass",
    text="One regenerated client+server pair (regexp2-fallback and RE2 patterns, multipleOf, JSON / form / streaming bodies, parameters in all locations, validation failures through the default error handler, default response); jx's pools and regexp2's runner mutex are replaced by scheduler-aware shims (scratch copies of the modules, /repo untouched). 2 logical threads x every multiset of 2 calls from a menu of 8 (+ pool-drop deviation), preemption bound 2: 5.1e4 schedules, 9.9e4 states, 3.2e5 transitions, 2.9e6 scheduling points in the quick tier; thorough adds 3 threads, 2 calls per thread and bound 3. Every schedule is an execution of the implementation; oracle: each call's (handler-received arguments, response on the wire, value or error returned to the caller) equals the same call run alone, no deadlock. Harness determinism is proven per shard by double replay; violations are re-run 5x. The same bodies then run free under -race with GOMAXPROCS 1/2/4/16.",
    note="Exhaustive only at the hooked operations (transport entry/exit, every body Read with 7-byte short reads, WriteHeader/Write, handler entry, pool Get/Put before and after, mutex Lock/Unlock) and up to the preemption bound; steps between hooks are covered only by the sampling -race pass. sync.Pool is a deterministic LIFO plus one 'drop everything' deviation. No sockets, no net/http goroutines.",
)

CHECKS["C10"] = dict(
    category="model_checking", engine="E3-sched",
    technique="exhaustive enumeration of environment deviations (map iteration orders per dynamic range execution), preemption-bounded DFS over template-task schedules under a controlled scheduler, and all short histories of generations, each executed on the real generator; IR-immutability side condition by deep hashing; separate -race pass",
    text="The generator of the tree under check is built with two overlay seams (/repo untouched): every range over a map / x/exp/maps call in the generator packages (74 static sites) asks the harness for its order, and gen/write.go's bufPool and errgroup are scheduler shims. (1) 13 programs are generated with 0 deviations, with every single deviation (each of the 12-453 dynamic range executions x 2-4 alternative orders) and every global order; ~3600 invalid single-fault mutants under 3 global orders: files and diagnostics must be byte-identical. (2) WriteSource under the controlled scheduler, errgroup limits 2/3/24, preemption bounds 0-2, state-key pruning over pcs and pool contents (full backing arrays): bytes per file equal the sequential run, no deadlock. (3) A deep identity-aware hash of the whole *gen.Generator is unchanged by WriteSource (licenses treating a template task as one step). (4) All sequences of <= 2 generations and the triples (a third in quick) over 7 programs in one process equal the fresh-process output. Then the free-running -race pass with GOMAXPROCS 1/2/4/16.",
    note="Schedule explorations that reach their cap are reported with exhaustive:false and what was covered below the cap (one schedule costs ~50 ms because goimports spawns the go command per file). Only map ranges inside the rewritten packages are controlled; text/template and encoding/json sort on their own. Weak-memory effects are covered by the sampling race pass only.",
)
