ENGINES = [
    {"name": "E1-enum", "path": "/verif/cmd, /verif/internal", "serves_properties": ["C12", "C16", "C18"],
     "kind_free_text": "bounded-exhaustive enumerator over explicit alphabets, every case executed on the real code and judged by a Go reference model"},
]
NOTES = "All checks: ./run.sh <id> quick|thorough rebuilds the harness against /repo's working tree (replace directive) and rewrites evidence/<id>.json. known_findings.json is read-only at run time."
NOT_YET = {}
CHECKS["C12"] = dict(
    category="exploration", engine="E1-enum",
    technique="bounded-exhaustive enumeration (all strings <= N over a 12-symbol alphabet; all spelling pairs of small path keys) against a reference normalizer",
    text="Every string up to length 6 (quick) / 8 (thorough, 4.7e8 strings) over an alphabet holding '%', hex digits of both cases, a non-hex letter, reserved, unreserved and non-ASCII bytes is run through uri.NormalizeEscapedPath and compared with an RFC 3986 reference: ok flag, output, idempotence, octet equality, no panic. The parser half enumerates all pairs of equivalent spellings of path keys of <= 3/4 atoms (must be duplicates) and one-atom-apart keys (must not). Exhaustive within the bound; nothing is claimed above it.",
    note="Trusted: the 30-line reference normalizer and net/url.PathUnescape. Strings longer than the bound or over other bytes are not explored; the function is byte-local (state = position only), which is why a small alphabet with one symbol per branch is adequate.",
)

CHECKS["C16"] = dict(
    category="exploration", engine="E1-enum",
    technique="bounded-exhaustive enumeration of (document, pointer) pairs against an independent RFC 6901 evaluator (node identity)",
    text="All tree shapes of depth <= 3 with member names rotated through 21 adversarial names (empty, numeric-looking, ~, /, ~0, ~1, %, %25, ...) in JSON and YAML spelling, all sibling pairs of names; for every node its pointer in plain and four fragment encodings, every single-character edit of it and all short strings over the edit alphabet. jsonpointer.Resolve must return the identical *yaml.Node the reference designates, or an error where the reference has none; never a different node, never a panic.",
    note="Trusted: the reference evaluator in cmd/c16 and go-faster/yaml as document parser. A '~' not followed by 0/1 is not a pointer under the ABNF; ogen's lenient reading is outside the oracle (counted) but a node it returns must be the literal reading's node. YAML aliases/merge keys are not generated.",
)
CHECKS["C18"] = dict(
    category="exploration", engine="E1-enum",
    technique="all ordered pairs of an enumerated pool of JSON texts through json.Equal against an exact reference value model; all truncations/extensions for the malformed half",
    text="Every ordered pair of ~2k (quick) / ~5k (thorough) JSON texts (number spellings incl. beyond 2^53 and huge exponents, escaped vs literal strings, permuted / padded composites up to depth 2) is compared with json.Equal and with an exact reference (decimal numbers, sorted members, UTF-16 units). Agreement on all pairs implies the equivalence laws on the set; reflexivity/symmetry/transitivity counterexamples are extracted when it fails. Every proper prefix and 18 one-byte extensions of each text must never compare equal without error. Duplicate-enum detection in jsonschema is checked on all pairs of the leaf pool.",
    note="Trusted: internal/jsonref (strict RFC 8259 parser), cross-checked for well-formedness against encoding/json. Objects with duplicate member names and lone surrogates are outside the domain.",
)
