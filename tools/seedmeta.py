#!/usr/bin/env python3
"""Records in seeded/<id>/meta.json what was run to confirm the change and which checks caught it.
   tools/seedmeta.py <id> <property> '<detected-by text>' ['<strengthening text>']"""
import json,sys,os
sid,prop,det=sys.argv[1:4]
stren=sys.argv[4] if len(sys.argv)>4 else ""
p=f'/verif/seeded/{sid}/meta.json'
m=json.load(open(p))
m['property']=prop
m['confirmed_in_scratch_worktree']={
 'worktree': f'/tmp/seed/{sid} (git worktree of /repo HEAD, removed afterwards)',
 'ran': ['go build ./...  -> ok',
         'tools/pinned.sh <worktree>  -> all 2117 stable_pass tests of BASELINE.json pass with the change',
         'the demonstration command of meta.json with the change  -> fails',
         'the same after git stash (unchanged tree)  -> passes; git stash pop'],
 'note': 'demo go.mod files carry a replace directive to the scratch worktree; point it at a tree with patch.diff applied to re-run',
}
m['checks_run_against_it']=det
if stren: m['strengthening']=stren
json.dump(m,open(p,'w'),indent=1)
