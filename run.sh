#!/bin/bash
# Entry point of every check:  ./run.sh <Cnn> quick|thorough   or   ./run.sh <Cnn> --replay <path>
# Rebuilds the check binary against the current working tree of $VERIF_REPO (default /repo).
set -u
cd "$(dirname "$0")"
export GOFLAGS=-mod=mod GOPROXY=off GOSUMDB=off GOTOOLCHAIN=local
export VERIF_REPO="${VERIF_REPO:-/repo}"
export VERIF_HOME="$PWD"
id="$1"; shift
lc="$(echo "$id" | tr 'A-Z' 'a-z')"
mf=()
if [ "$VERIF_REPO" != /repo ]; then
  # private modfile so that several trees can be checked side by side
  tag="$(echo "$VERIF_REPO" | md5sum | cut -c1-8)"
  sed -e "s#=> /repo#=> $VERIF_REPO#" -e "s#=> ./drivers/#=> $PWD/drivers/#" go.mod > "bin/go.$tag.mod"
  cp "$VERIF_REPO/go.sum" "bin/go.$tag.sum"
  mf=(-modfile="$PWD/bin/go.$tag.mod")
  out="bin/$lc.$tag"
  export VERIF_MODFILE="$PWD/bin/go.$tag.mod"
else
  cp -f /repo/go.sum go.sum 2>/dev/null
  out="bin/$lc"
fi
mkdir -p bin evidence replays
# overlay seams (E4), applied at build time only, /repo stays untouched:
#  * cmd/<id>/overlay/<dir>__<file>.go   is added as $VERIF_REPO/<dir>/<file>.go
#  * cmd/<id>/mapseam.patterns           packages whose map ranges are rewritten to the harness-ordered iterator
ov=()
oj="bin/$lc.overlay.${tag:-main}.json"
echo '{"Replace":{}}' > "$oj"
if [ -f "cmd/$lc/mapseam.patterns" ]; then
  go build "${mf[@]}" -o bin/mapseam ./cmd/mapseam || { echo "ERROR mapseam does not build" >&2; exit 2; }
  msd="$PWD/bin/$lc.mapseam.${tag:-main}"
  rm -rf "$msd"
  shimflag=()
  [ -f "cmd/$lc/syncshim.files" ] && shimflag=("-syncshim=$(tr '\n' ',' < "cmd/$lc/syncshim.files" | sed 's/,$//')")
  if ! bin/mapseam "${shimflag[@]}" "$VERIF_REPO" "$msd" $(cat "cmd/$lc/mapseam.patterns") > "bin/$lc.mapseam.log" 2>&1; then
    cat "bin/$lc.mapseam.log" >&2
    echo "ERROR property=$id map-order seam cannot be applied to $VERIF_REPO" >&2
    exit 2
  fi
  cp "$msd/overlay.json" "$oj"
  export VERIF_MAPSEAM_DIR="$msd"
fi
if [ -d "cmd/$lc/overlay" ]; then
  for f in cmd/$lc/overlay/*.go; do
    rel="$(basename "$f" | sed 's#__#/#g')"
    jq --arg k "$VERIF_REPO/$rel" --arg v "$PWD/$f" '.Replace[$k]=$v' "$oj" > "$oj.tmp" && mv "$oj.tmp" "$oj"
  done
fi
if [ "$(jq '.Replace|length' "$oj")" != 0 ]; then
  ov=(-overlay "$PWD/$oj")
  export VERIF_OVERLAY="$PWD/$oj"
fi
if ! go build "${mf[@]}" "${ov[@]}" -o "$out" "./cmd/$lc" 2> "bin/$lc.build.err"; then
  cat "bin/$lc.build.err" >&2
  echo "ERROR property=$id harness does not build against $VERIF_REPO" >&2
  exit 2
fi
case "${1:-quick}" in
  --build-only) exit 0 ;;
  quick|thorough) tier="$1"; shift; exec "$out" --tier "$tier" "$@" ;;
  *) exec "$out" "$@" ;;
esac
