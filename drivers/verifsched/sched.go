// Package verifsched is the controlled cooperative scheduler (DESIGN.md E3) and the sync shims
// that turn synchronisation operations of the code under test into scheduling points. Exactly one
// logical thread runs at a time; every Point is a place where the explorer may switch threads.
//
// Free mode (Free = true): Points are no-ops, Spawn starts plain goroutines and the shims delegate
// to the real sync package - the same harness bodies then run free under the race detector (a
// cooperative scheduler's hand-offs are happens-before edges that would blind it).
package verifsched

import (
	"runtime"
	"context"
	"fmt"
	"hash/maphash"
	"sync"
)

// Free switches the whole package to pass-through mode (race pass).
var Free bool

type thread struct {
	gid int64 // goroutine running this logical thread
	id      int
	wake    chan struct{}
	done    bool
	blocked func() bool // nil = runnable; else runnable when it returns true
	pc      int
	held    []int
}

// PointRec records one scheduling decision.
type PointRec struct {
	Label          string
	Running        int
	Enabled        []int // canonical order: running thread first if enabled, then ascending ids
	RunningEnabled bool
	Chosen         int // index into Enabled
	Key            uint64
}

type Sched struct {
	threads  []*thread
	cur      *thread
	prefix   []int
	Trace    []PointRec
	Events   []string // observation trace
	mainEnd  chan struct{}
	Dead     string
	Diverged string
	epoch    int
	horizon  int
}

var (
	S     *Sched
	epoch int
)

// Horizon bounds the number of scheduling points of one execution (livelock guard).
var Horizon = 200000

func (s *Sched) enabled() []*thread {
	var out []*thread
	if s.cur != nil && !s.cur.done && (s.cur.blocked == nil || s.cur.blocked()) {
		out = append(out, s.cur)
	}
	for _, t := range s.threads {
		if t == s.cur || t.done {
			continue
		}
		if t.blocked == nil || t.blocked() {
			out = append(out, t)
		}
	}
	return out
}

func (s *Sched) decide(label string) *thread {
	en := s.enabled()
	if len(en) == 0 {
		return nil
	}
	rec := PointRec{Label: label, Running: s.cur.id}
	for _, t := range en {
		rec.Enabled = append(rec.Enabled, t.id)
	}
	rec.RunningEnabled = en[0] == s.cur
	choice := 0
	if i := len(s.Trace); i < len(s.prefix) {
		choice = s.prefix[i]
		if choice >= len(en) {
			// a divergence while replaying a prefix is a hard harness error, never a verdict
			s.Diverged = fmt.Sprintf("replay divergence at point %d (%s): choice %d of %d enabled", i, label, choice, len(en))
			choice = 0
		}
	}
	rec.Chosen = choice
	s.cur.pc++
	rec.Key = s.key(label)
	s.Trace = append(s.Trace, rec)
	if len(s.Trace) > Horizon && s.Dead == "" {
		s.Dead = fmt.Sprintf("horizon of %d scheduling points exceeded (livelock?)", Horizon)
	}
	return en[choice]
}

func (s *Sched) switchTo(next *thread, self *thread, selfWaits bool) {
	if next == self {
		return
	}
	s.cur = next
	next.wake <- struct{}{}
	if selfWaits {
		<-self.wake
	}
}

// ExtraKey lets the harness add its own state to the state key.
var ExtraKey func() string

var seed = maphash.MakeSeed()

func (s *Sched) key(label string) uint64 {
	var h maphash.Hash
	h.SetSeed(seed)
	fmt.Fprintf(&h, "cur=%d@%s|", s.cur.id, label)
	for _, t := range s.threads {
		if t.done {
			continue
		}
		fmt.Fprintf(&h, "%d:%d:%v:%v;", t.id, t.pc, t.held, t.blocked != nil)
	}
	h.WriteString("|pools:")
	for _, p := range pools {
		if p.ep != s.epoch {
			continue
		}
		fmt.Fprintf(&h, "%v,", p.ids)
		for id, it := range p.all {
			fmt.Fprintf(&h, "%d=%x,", id, contentHash(it))
		}
	}
	for _, m := range mutexes {
		if m.ep == s.epoch {
			fmt.Fprintf(&h, "m%d=%d,", m.id, m.owner)
		}
	}
	if ExtraKey != nil {
		h.WriteString("|" + ExtraKey())
	}
	return h.Sum64()
}

var (
	pools   []*Pool
	mutexes []*Mutex
)

// contentHash hashes the full backing array of a pooled buffer: a stale alias (use after Put) can
// observe any byte of it, so the state key must too - otherwise states with different futures
// would be merged and exactly that bug would be hidden.
func contentHash(v any) uint64 {
	type bytesCap interface{ Bytes() []byte }
	var raw []byte
	switch b := v.(type) {
	case bytesCap:
		raw = b.Bytes()
	default:
		return 0
	}
	raw = raw[:cap(raw)]
	if len(raw) > 1<<16 {
		raw = raw[:1<<16]
	}
	return maphash.Bytes(seed, raw)
}

// goid returns the id of the calling goroutine.
func goid() int64 {
	var buf [64]byte
	n := runtime.Stack(buf[:], false)
	// "goroutine 123 [running]:..."
	var id int64
	for _, c := range buf[len("goroutine "):n] {
		if c < '0' || c > '9' {
			break
		}
		id = id*10 + int64(c-'0')
	}
	return id
}

// foreign reports whether the caller is a goroutine the scheduler does not control (code under
// exploration may start goroutines of its own, e.g. the writer side of a streamed multipart body).
// Such goroutines use the real synchronisation objects: their interference is left to the race pass.
func foreign() bool {
	s := S
	if s == nil || Free || s.cur == nil {
		return true
	}
	return s.cur.gid != goid()
}

// Point is a scheduling point of the running thread.
func Point(label string) {
	s := S
	if s == nil || Free {
		return
	}
	self := s.cur
	next := s.decide(label)
	if next == nil {
		panic("verifsched: no enabled thread at a point of a running thread")
	}
	s.switchTo(next, self, true)
}

// Block parks the running thread until cond holds.
func Block(label string, cond func() bool) {
	if Free {
		panic("verifsched: Block in free mode; use FreeJoin")
	}
	s := S
	self := s.cur
	for !cond() {
		self.blocked = cond
		next := s.decide(label + ":block")
		if next == nil {
			s.Dead = "deadlock at " + label
			close(s.mainEnd)
			select {} // park forever; the run is abandoned
		}
		s.switchTo(next, self, true)
		self.blocked = nil
	}
}

// Spawn starts a new logical thread.
func Spawn(f func()) {
	s := S
	t := &thread{id: len(s.threads), wake: make(chan struct{})}
	s.threads = append(s.threads, t)
	go func() {
		t.gid = goid()
		<-t.wake
		f()
		t.done = true
		next := s.decide(fmt.Sprintf("exit:%d", t.id))
		if next == nil {
			allDone := true
			for _, x := range s.threads {
				if !x.done {
					allDone = false
				}
			}
			if !allDone {
				s.Dead = "deadlock after thread exit"
			}
			close(s.mainEnd)
			return
		}
		s.switchTo(next, t, false)
	}()
	Point(fmt.Sprintf("spawn:%d", t.id))
}

// Observe appends to the observation trace of the current execution.
func Observe(format string, args ...any) {
	if S != nil && !Free {
		S.Events = append(S.Events, fmt.Sprintf("t%d ", S.cur.id)+fmt.Sprintf(format, args...))
	}
}

// Cur returns the id of the running logical thread (-1 outside a run).
func Cur() int {
	if S == nil || Free {
		return -1
	}
	return S.cur.id
}

// Run executes body as thread 0 under a fresh scheduler replaying prefix, then default choices.
func Run(prefix []int, body func()) *Sched {
	epoch++
	s := &Sched{prefix: prefix, mainEnd: make(chan struct{}), epoch: epoch}
	S = s
	t0 := &thread{id: 0, wake: make(chan struct{})}
	s.threads = append(s.threads, t0)
	s.cur = t0
	go func() {
		t0.gid = goid()
		<-t0.wake
		body()
		t0.done = true
		next := s.decide("exit:0")
		if next == nil {
			close(s.mainEnd)
			return
		}
		s.switchTo(next, t0, false)
	}()
	t0.wake <- struct{}{}
	<-s.mainEnd
	S = nil
	return s
}

// ---- sync shims ----

// Pool is a deterministic LIFO pool whose Get/Put are scheduling points. DropAll models the
// permission of sync.Pool to drop items at any time (an environment deviation the harness may take).
type Pool struct {
	New      func() any
	real     sync.Pool
	realInit sync.Once
	items    []any
	ids      []int
	all      []any // every object created in this run, by id-1
	next     int
	reg      bool
	ep       int
}

func (p *Pool) sync() {
	if !p.reg {
		p.reg = true
		pools = append(pools, p)
	}
	if S != nil && p.ep != S.epoch {
		p.items, p.ids, p.all, p.next, p.ep = nil, nil, nil, 0, S.epoch
	}
}

// DropPooled makes every pool forget its items (what a GC cycle does to sync.Pool).
func DropPooled() {
	for _, p := range pools {
		p.items, p.ids = nil, nil
	}
}

func (p *Pool) Get() any {
	if Free || S == nil || foreign() {
		p.realInit.Do(func() { p.real.New = p.New })
		return p.real.Get()
	}
	Point("pool.Get")
	p.sync()
	var v any
	if n := len(p.items); n > 0 {
		v = p.items[n-1]
		p.items = p.items[:n-1]
		id := p.ids[n-1]
		p.ids = p.ids[:n-1]
		S.cur.held = append(S.cur.held, id)
	} else if p.New != nil {
		v = p.New()
		p.all = append(p.all, v)
		p.next++
		S.cur.held = append(S.cur.held, p.next)
	}
	Point("pool.Get:after")
	return v
}

func (p *Pool) Put(v any) {
	if Free || S == nil || foreign() {
		p.realInit.Do(func() { p.real.New = p.New })
		p.real.Put(v)
		return
	}
	Point("pool.Put")
	p.sync()
	p.items = append(p.items, v)
	id := 0
	for i, x := range p.all {
		if x == v {
			id = i + 1
		}
	}
	held := S.cur.held
	for i := len(held) - 1; i >= 0; i-- {
		if held[i] == id {
			S.cur.held = append(held[:i:i], held[i+1:]...)
			break
		}
	}
	p.ids = append(p.ids, id)
	Point("pool.Put:after")
}

// Mutex: Lock and Unlock are scheduling points; a locked mutex blocks the thread (visible to the
// scheduler, so that a lock-order inversion shows up as a deadlock instead of hanging the run).
type Mutex struct {
	real  sync.Mutex
	owner int // 0 = free, else thread id + 1
	id    int
	ep    int
	reg   bool
}

func (m *Mutex) sync() {
	if !m.reg {
		m.reg = true
		m.id = len(mutexes)
		mutexes = append(mutexes, m)
	}
	if S != nil && m.ep != S.epoch {
		m.owner, m.ep = 0, S.epoch
	}
}

func (m *Mutex) Lock() {
	if Free || S == nil || foreign() {
		m.real.Lock()
		return
	}
	m.sync()
	Point("mutex.Lock")
	Block("mutex.Lock", func() bool { return m.owner == 0 })
	m.owner = S.cur.id + 1
	// exclusion against goroutines outside the scheduler (uncontended among logical threads)
	m.real.Lock()
}

func (m *Mutex) Unlock() {
	if Free || S == nil || foreign() {
		m.real.Unlock()
		return
	}
	m.sync()
	m.real.Unlock()
	m.owner = 0
	Point("mutex.Unlock")
}

func (m *Mutex) TryLock() bool {
	if Free || S == nil || foreign() {
		return m.real.TryLock()
	}
	m.sync()
	Point("mutex.TryLock")
	if m.owner != 0 || !m.real.TryLock() {
		return false
	}
	m.owner = S.cur.id + 1
	return true
}

type Once struct{ o sync.Once }

func (o *Once) Do(f func()) {
	if !foreign() {
		Point("once.Do")
	}
	o.o.Do(f)
}

type (
	RWMutex   = sync.RWMutex
	WaitGroup = sync.WaitGroup
	Map       = sync.Map
	Locker    = sync.Locker
)

// ---- errgroup shim (golang.org/x/sync/errgroup) ----

type Group struct {
	limit  int
	active int
	live   int
	err    error
	cancel func()

	// pass-through mode (no scheduler running): real goroutines
	wg   sync.WaitGroup
	sem  chan struct{}
	mu   sync.Mutex
	real bool
}

func WithContext(ctx context.Context) (*Group, context.Context) {
	ctx, cancel := context.WithCancel(ctx)
	return &Group{cancel: cancel, real: Free || S == nil}, ctx
}

// LimitOverride lets the harness choose the concurrency limit.
var LimitOverride int

func (g *Group) SetLimit(n int) {
	if v := LimitOverride; v > 0 {
		n = v
	}
	g.limit = n
	if g.real && n > 0 {
		g.sem = make(chan struct{}, n)
	}
}

func (g *Group) Go(f func() error) {
	if g.real {
		if g.sem != nil {
			g.sem <- struct{}{}
		}
		g.wg.Add(1)
		go func() {
			defer g.wg.Done()
			defer func() {
				if g.sem != nil {
					<-g.sem
				}
			}()
			if err := f(); err != nil {
				g.mu.Lock()
				if g.err == nil {
					g.err = err
					if g.cancel != nil {
						g.cancel()
					}
				}
				g.mu.Unlock()
			}
		}()
		return
	}
	if g.limit > 0 {
		Block("group.Go", func() bool { return g.active < g.limit })
	}
	g.active++
	g.live++
	Spawn(func() {
		err := f()
		if err != nil && g.err == nil {
			g.err = err
			if g.cancel != nil {
				g.cancel()
			}
		}
		g.active--
		g.live--
	})
}

func (g *Group) Wait() error {
	if g.real {
		g.wg.Wait()
		if g.cancel != nil {
			g.cancel()
		}
		return g.err
	}
	Block("group.Wait", func() bool { return g.live == 0 })
	if g.cancel != nil {
		g.cancel()
	}
	return g.err
}
