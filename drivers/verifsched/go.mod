module verifsched

go 1.23.0
