package verifsched

import (
	"fmt"
	"strings"
)

// Violation is one failing execution, replayable from Choices.
type Violation struct {
	Choices     []int    `json:"schedule"`
	Preemptions int      `json:"preemptions"`
	Msg         string   `json:"violation"`
	Events      []string `json:"observations"`
	Labels      []string `json:"points"`
	Reproduced  int      `json:"reproduced_out_of_5"`
}

// Stats is what one exploration covered.
type Stats struct {
	Runs          int
	States        int
	Transitions   int
	Points        int
	Outcomes      map[string]int
	Violations    []Violation
	Capped        bool
	BoundDone     int
	NonDet        string // non-empty: the harness is not deterministic (hard error)
	FirstSchedule []int
	LastSchedule  []int
	MaxThreads    int
}

// Explore runs the stateless, preemption-bounded depth-first search of the brief: execute a prefix of
// choices, then default choices (continue the running thread, else lowest id), and branch on every
// alternative whose preemption cost stays within the bound. States already seen with no more
// preemptions spent are pruned (state-key pruning). check judges one complete execution and
// returns ("" or a violation text, an outcome label for the distinct-outcome count).
func Explore(body func(), check func(s *Sched) (string, string), bound, maxRuns int) *Stats {
	st := &Stats{Outcomes: map[string]int{}, BoundDone: bound}
	visited := map[uint64]int{}
	var explore func(prefix []int)
	explore = func(prefix []int) {
		if st.Runs >= maxRuns {
			st.Capped = true
			return
		}
		s := Run(prefix, body)
		st.Runs++
		if s.Diverged != "" {
			st.NonDet = s.Diverged
			return
		}
		if len(s.threads) > st.MaxThreads {
			st.MaxThreads = len(s.threads)
		}
		choices := make([]int, len(s.Trace))
		preBefore := make([]int, len(s.Trace))
		pre := 0
		for i, p := range s.Trace {
			choices[i] = p.Chosen
			preBefore[i] = pre
			if p.RunningEnabled && p.Chosen != 0 {
				pre++
			}
		}
		if st.Runs == 1 {
			st.FirstSchedule = append([]int{}, choices...)
		}
		st.LastSchedule = append([]int{}, choices...)
		st.Points += len(s.Trace)
		viol, outcome := check(s)
		if s.Dead != "" {
			viol = s.Dead
		}
		st.Outcomes[outcome]++
		if viol != "" {
			if len(st.Violations) < 20 {
				v := Violation{Choices: choices, Preemptions: pre, Msg: viol, Events: tail(s.Events, 60)}
				for _, p := range s.Trace {
					v.Labels = append(v.Labels, fmt.Sprintf("t%d:%s->%d", p.Running, p.Label, p.Enabled[p.Chosen]))
				}
				v.Labels = tail(v.Labels, 80)
				// a violation is only believed if the same schedule fails every time
				for k := 0; k < 5; k++ {
					s2 := Run(choices, body)
					v2, _ := check(s2)
					if s2.Dead != "" {
						v2 = s2.Dead
					}
					if v2 != "" {
						v.Reproduced++
					}
				}
				st.Violations = append(st.Violations, v)
			}
			return
		}
		for i := len(prefix); i < len(s.Trace); i++ {
			p := s.Trace[i]
			if v, ok := visited[p.Key]; ok && v <= preBefore[i] {
				break
			}
			visited[p.Key] = preBefore[i]
			st.Transitions += len(p.Enabled)
			cost := preBefore[i]
			if p.RunningEnabled {
				cost++
			}
			if cost > bound {
				continue
			}
			for alt := 1; alt < len(p.Enabled); alt++ {
				explore(append(append([]int{}, choices[:i]...), alt))
			}
		}
	}
	explore(nil)
	st.States = len(visited)
	// determinism: the first and the last explored schedule, replayed twice, give identical observations
	if st.NonDet == "" {
		for _, sched := range [][]int{st.FirstSchedule, st.LastSchedule} {
			a := Run(sched, body)
			b := Run(sched, body)
			if a.Diverged != "" || b.Diverged != "" || strings.Join(a.Events, "\n") != strings.Join(b.Events, "\n") || len(a.Trace) != len(b.Trace) {
				st.NonDet = fmt.Sprintf("replaying one schedule twice gave different observations (%d vs %d events, %d vs %d points) %s %s", len(a.Events), len(b.Events), len(a.Trace), len(b.Trace), a.Diverged, b.Diverged)
			}
		}
	}
	return st
}

func tail(s []string, n int) []string {
	if len(s) > n {
		return append([]string{fmt.Sprintf("... (%d earlier entries omitted)", len(s)-n)}, s[len(s)-n:]...)
	}
	return s
}
