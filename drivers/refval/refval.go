// Package refval is the reference JSON Schema validator for the keyword fragment ogen implements
// (draft-4 keywords + OpenAPI nullable). Exact arithmetic (big.Rat); verdicts that depend on the
// draft or on float representation are reported as ambiguous and are outside the oracle.
package refval

import (
	"bytes"
	"encoding/json"
	"math/big"
	"regexp"
	"sort"
	"strings"
	"unicode/utf8"
)

type M = map[string]any

type Validator struct {
	Components M // name -> schema
}

func Decode(text string) (any, error) {
	d := json.NewDecoder(strings.NewReader(text))
	d.UseNumber()
	var v any
	if err := d.Decode(&v); err != nil {
		return nil, err
	}
	return v, nil
}

func num(v any) (*big.Rat, bool) {
	switch n := v.(type) {
	case json.Number:
		r, ok := new(big.Rat).SetString(string(n))
		return r, ok
	case float64:
		return new(big.Rat).SetFloat64(n), true
	case int:
		return big.NewRat(int64(n), 1), true
	}
	return nil, false
}

func isIntText(n json.Number) bool { return !strings.ContainsAny(string(n), ".eE") }

func deepEq(a, b any) bool {
	ja, _ := json.Marshal(a)
	jb, _ := json.Marshal(b)
	return bytes.Equal(ja, jb)
}

var two53 = new(big.Rat).SetInt(new(big.Int).Lsh(big.NewInt(1), 53))

func list(v any) []any {
	switch l := v.(type) {
	case []any:
		return l
	case []string:
		out := make([]any, len(l))
		for i, s := range l {
			out[i] = s
		}
		return out
	case []M:
		out := make([]any, len(l))
		for i, s := range l {
			out[i] = s
		}
		return out
	}
	return nil
}

// Valid reports (valid, ambiguous).
func (vd *Validator) Valid(s M, v any) (ok bool, amb bool) {
	if ref, has := s["$ref"].(string); has {
		return vd.Valid(vd.Components[strings.TrimPrefix(ref, "#/components/schemas/")].(M), v)
	}
	if v == nil {
		if s["nullable"] == true {
			return true, false
		}
		if _, has := s["type"]; has {
			return false, false
		}
	}
	if all := list(s["allOf"]); all != nil {
		for _, sub := range all {
			o, a := vd.Valid(sub.(M), v)
			amb = amb || a
			if !o {
				return false, amb
			}
		}
		// keywords written next to allOf constrain the instance as well
		rest := M{}
		for k, x := range s {
			switch k {
			case "allOf", "nullable", "description", "discriminator":
			default:
				rest[k] = x
			}
		}
		if len(rest) == 0 {
			return true, amb
		}
		o, a := vd.Valid(rest, v)
		return o, amb || a
	}
	if one := list(s["oneOf"]); one != nil {
		n := 0
		for _, sub := range one {
			o, a := vd.Valid(sub.(M), v)
			amb = amb || a
			if o {
				n++
			}
		}
		if n > 1 {
			// invalid under JSON Schema, but then the sum is not "unambiguously discriminated" (an
			// object that satisfies several open variants): outside the oracle wherever it occurs
			return false, true
		}
		return n == 1, amb
	}
	if anyOf := list(s["anyOf"]); anyOf != nil {
		for _, sub := range anyOf {
			o, a := vd.Valid(sub.(M), v)
			amb = amb || a
			if o {
				return true, amb
			}
		}
		return false, amb
	}
	if en := list(s["enum"]); en != nil {
		found := false
		for _, e := range en {
			if deepEq(e, v) {
				found = true
			} else if re, ok := num(e); ok {
				if rv, ok := num(v); ok && re.Cmp(rv) == 0 {
					return false, true // 1 vs 1.0 in an enum: spelling-dependent
				}
			}
		}
		if !found {
			return false, false
		}
	}
	switch s["type"] {
	case "integer", "number":
		r, isNum := num(v)
		if !isNum {
			return false, false
		}
		if new(big.Rat).Abs(r).Cmp(two53) > 0 {
			return false, true
		}
		if s["type"] == "integer" {
			if jn, isJN := v.(json.Number); isJN && !isIntText(jn) {
				if r.IsInt() {
					return false, true // 1.0 / 1e0 for integer: draft-dependent
				}
				return false, false
			}
		}
		if m, has := num(s["minimum"]); has {
			c := r.Cmp(m)
			if c < 0 || (c == 0 && s["exclusiveMinimum"] == true) {
				return false, false
			}
		}
		if m, has := num(s["maximum"]); has {
			c := r.Cmp(m)
			if c > 0 || (c == 0 && s["exclusiveMaximum"] == true) {
				return false, false
			}
		}
		if m, has := num(s["multipleOf"]); has {
			// non-dyadic divisors are float-representation dependent
			d := new(big.Int).Set(m.Denom())
			for d.Bit(0) == 0 && d.Sign() > 0 {
				d.Rsh(d, 1)
			}
			if d.Cmp(big.NewInt(1)) != 0 {
				return false, true
			}
			q := new(big.Rat).Quo(r, m)
			if !q.IsInt() {
				return false, false
			}
		}
		return true, false
	case "string":
		str, isStr := v.(string)
		if !isStr {
			return false, false
		}
		l := utf8.RuneCountInString(str)
		if m, has := num(s["minLength"]); has && big.NewRat(int64(l), 1).Cmp(m) < 0 {
			return false, false
		}
		if m, has := num(s["maxLength"]); has && big.NewRat(int64(l), 1).Cmp(m) > 0 {
			return false, false
		}
		if p, has := s["pattern"].(string); has && !regexp.MustCompile(p).MatchString(str) {
			return false, false
		}
		return true, false
	case "boolean":
		_, isB := v.(bool)
		return isB, false
	case "array":
		arr, isA := v.([]any)
		if !isA {
			return false, false
		}
		if m, has := num(s["minItems"]); has && big.NewRat(int64(len(arr)), 1).Cmp(m) < 0 {
			return false, false
		}
		if m, has := num(s["maxItems"]); has && big.NewRat(int64(len(arr)), 1).Cmp(m) > 0 {
			return false, false
		}
		if s["uniqueItems"] == true {
			for i := range arr {
				for j := i + 1; j < len(arr); j++ {
					if deepEq(arr[i], arr[j]) {
						return false, false
					}
					if ri, ok := num(arr[i]); ok {
						if rj, ok := num(arr[j]); ok && ri.Cmp(rj) == 0 {
							return false, true // 1 and 1.0: implementation-dependent
						}
					}
				}
			}
		}
		if it, has := s["items"].(M); has {
			for _, e := range arr {
				o, a := vd.Valid(it, e)
				amb = amb || a
				if !o {
					return false, amb
				}
			}
		}
		return true, amb
	case "object":
		obj, isO := v.(M)
		if !isO {
			return false, false
		}
		if m, has := num(s["minProperties"]); has && big.NewRat(int64(len(obj)), 1).Cmp(m) < 0 {
			return false, false
		}
		if m, has := num(s["maxProperties"]); has && big.NewRat(int64(len(obj)), 1).Cmp(m) > 0 {
			return false, false
		}
		for _, r := range list(s["required"]) {
			if _, ok := obj[r.(string)]; !ok {
				return false, false
			}
		}
		props, _ := s["properties"].(M)
		for k, e := range obj {
			if ps, has := props[k].(M); has {
				o, a := vd.Valid(ps, e)
				amb = amb || a
				if !o {
					return false, amb
				}
				continue
			}
			if pp, has := s["patternProperties"].(M); has {
				matched := false
				for pat, sub := range pp {
					re, err := regexp.Compile(pat)
					if err != nil {
						return false, true
					}
					if re.MatchString(k) {
						matched = true
						o, a := vd.Valid(sub.(M), e)
						amb = amb || a
						if !o {
							return false, amb
						}
					}
				}
				if matched {
					continue
				}
			}
			switch ap := s["additionalProperties"].(type) {
			case bool:
				if !ap {
					return false, amb
				}
			case M:
				o, a := vd.Valid(ap, e)
				amb = amb || a
				if !o {
					return false, amb
				}
			}
		}
		return true, amb
	}
	return true, true // typeless schema: outside the fragment
}

// DiscriminatingMembersOfSeveralVariants: for oneOf/anyOf over object variants that ogen tells
// apart by the presence of their own members, an instance carrying members unique to more than one
// variant is outside "unambiguous discrimination".
func (vd *Validator) MixedVariantMembers(s M, v any) bool {
	vars := list(s["oneOf"])
	if vars == nil {
		vars = list(s["anyOf"])
	}
	obj, isO := v.(M)
	if vars == nil || !isO {
		return false
	}
	owner := map[string]int{}
	cnt := map[string]int{}
	for i, sub := range vars {
		sm := sub.(M)
		if ref, has := sm["$ref"].(string); has {
			sm = vd.Components[strings.TrimPrefix(ref, "#/components/schemas/")].(M)
		}
		props, _ := sm["properties"].(M)
		for k := range props {
			owner[k] = i
			cnt[k]++
		}
	}
	seen := map[int]bool{}
	for k := range obj {
		if cnt[k] == 1 {
			seen[owner[k]] = true
		}
	}
	return len(seen) > 1
}

// DiscriminatorDisagrees: OpenAPI discriminator semantics (the mapped schema decides; unknown values
// are invalid) versus plain oneOf semantics. Instances on which the two readings differ are outside
// the oracle.
func (vd *Validator) DiscriminatorDisagrees(s M, v any, plain bool) bool {
	d, has := s["discriminator"].(M)
	if !has {
		return false
	}
	obj, isO := v.(M)
	if !isO {
		return false
	}
	name, _ := d["propertyName"].(string)
	val, isStr := obj[name].(string)
	if !isStr {
		return false
	}
	mapping, _ := d["mapping"].(M)
	ref, known := mapping[val].(string)
	if !known {
		return plain // OpenAPI: invalid
	}
	ok, _ := vd.Valid(M{"$ref": ref}, v)
	return ok != plain
}

// SeveralVariantsMatch: an instance that satisfies more than one variant of a oneOf is invalid under
// JSON Schema, but the sum is then not "unambiguously discriminated": outside the oracle.
func (vd *Validator) SeveralVariantsMatch(s M, v any) bool {
	vars := list(s["oneOf"])
	if len(vars) < 2 {
		return false
	}
	n := 0
	for _, sub := range vars {
		if sm, ok := sub.(M); ok {
			if ok, _ := vd.Valid(sm, v); ok {
				n++
			}
		}
	}
	return n > 1
}

// Traits names keyword combinations present anywhere in a schema (references followed once).
func (vd *Validator) Traits(s M) []string {
	found := map[string]bool{}
	seen := map[string]bool{}
	arrayRefs := map[string]int{}
	var walk func(x any)
	walk = func(x any) {
		switch t := x.(type) {
		case M:
			if ref, ok := t["$ref"].(string); ok {
				name := ref[strings.LastIndex(ref, "/")+1:]
				if c, ok := vd.Components[name].(M); ok && c["type"] == "array" {
					arrayRefs[name]++
					if arrayRefs[name] > 1 {
						found["named_array_component_used_more_than_once"] = true
					}
				}
				if !seen[name] {
					seen[name] = true
					walk(vd.Components[name])
				}
				return
			}
			if _, has := t["enum"]; has {
				for _, kw := range []string{"minimum", "maximum", "multipleOf", "minLength", "maxLength", "pattern"} {
					if _, has := t[kw]; has {
						found["enum_next_to_a_value_constraint"] = true
					}
				}
			}
			props, _ := t["properties"].(M)
			for _, r := range list(t["required"]) {
				if name, ok := r.(string); ok {
					if _, declared := props[name]; !declared {
						found["required_names_an_undeclared_member"] = true
					}
				}
			}
			for _, v := range t {
				walk(v)
			}
		case []any:
			for _, v := range t {
				walk(v)
			}
		}
	}
	walk(s)
	var out []string
	for k := range found {
		out = append(out, k)
	}
	sort.Strings(out)
	return out
}

// MemberPointsAtAnotherVariant: sums told apart by own members read an instance that carries a member
// declared by exactly one variant as that variant.  If that variant refuses the instance while an
// open sibling accepts it (the member being an undeclared extra there), JSON Schema says valid and
// member-based discrimination says invalid: not "unambiguous discrimination", outside the oracle.
func (vd *Validator) MemberPointsAtAnotherVariant(s M, v any) bool {
	vars := list(s["oneOf"])
	if vars == nil {
		vars = list(s["anyOf"])
	}
	obj, isO := v.(M)
	if vars == nil || !isO {
		return false
	}
	owner := map[string]int{}
	cnt := map[string]int{}
	resolved := make([]M, len(vars))
	for i, sub := range vars {
		sm, _ := sub.(M)
		if ref, has := sm["$ref"].(string); has {
			sm, _ = vd.Components[strings.TrimPrefix(ref, "#/components/schemas/")].(M)
		}
		resolved[i] = sm
		props, _ := sm["properties"].(M)
		for k := range props {
			owner[k] = i
			cnt[k]++
		}
	}
	for k := range obj {
		if cnt[k] == 1 {
			if ok, _ := vd.Valid(resolved[owner[k]], v); !ok {
				return true
			}
		}
	}
	return false
}
