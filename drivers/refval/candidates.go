package refval

import (
	"encoding/json"
	"math/big"
	"sort"
	"strings"
)

// Candidates derives instances from a schema: values on, just inside and just outside every bound,
// length and count it states, multiples and near-multiples of multipleOf on both sides of zero,
// every enum member, and for containers a valid base with single-member variations (dropped,
// replaced by each candidate of the member schema, extra member, duplicate item).  The verdict on
// each candidate is still the reference validator's: this only decides what is tried.
func (vd *Validator) Candidates(s M, depth int) []any {
	out := vd.cands(s, depth)
	seen := map[string]bool{}
	var uniq []any
	for _, v := range out {
		b, _ := json.Marshal(v)
		if !seen[string(b)] {
			seen[string(b)] = true
			uniq = append(uniq, v)
		}
	}
	return uniq
}

func ratText(r *big.Rat) json.Number {
	if r.IsInt() {
		return json.Number(r.Num().String())
	}
	f := r.FloatString(6)
	f = strings.TrimRight(f, "0")
	return json.Number(f)
}

func (vd *Validator) firstValid(s M, cs []any) (any, bool) {
	for _, c := range cs {
		if ok, amb := vd.Valid(s, c); ok && !amb {
			return c, true
		}
	}
	return nil, false
}

func (vd *Validator) validOnes(s M, cs []any, max int) []any {
	var out []any
	for _, c := range cs {
		if ok, amb := vd.Valid(s, c); ok && !amb {
			out = append(out, c)
			if len(out) == max {
				break
			}
		}
	}
	return out
}

// pick limits the candidates tried in a nested position to max, half of them valid and half
// invalid for the member schema where both kinds exist (in order of appearance): a value that is
// wrong only deep inside must still be among them.
func (vd *Validator) pick(s M, cs []any, max int) []any {
	if len(cs) <= max {
		return cs
	}
	var good, bad []any
	for _, c := range cs {
		ok, amb := vd.Valid(s, c)
		switch {
		case amb:
		case ok:
			good = append(good, c)
		default:
			bad = append(bad, c)
		}
	}
	ng, nb := max-max/2, max/2
	if len(bad) < nb {
		ng = max - len(bad)
	}
	if len(good) < ng {
		nb = max - len(good)
	}
	// spread over the list: candidates come grouped by what they vary (wrong type first, then each
	// keyword's boundaries), and a nested position should see every group
	spread := func(l []any, n int) []any {
		if len(l) <= n {
			return l
		}
		out := make([]any, 0, n)
		for i := 0; i < n; i++ {
			out = append(out, l[i*len(l)/n])
		}
		return out
	}
	return append(spread(good, ng), spread(bad, nb)...)
}

func (vd *Validator) cands(s M, depth int) []any {
	if depth < 0 || s == nil {
		return []any{nil, json.Number("0")}
	}
	if ref, ok := s["$ref"].(string); ok {
		name := ref[strings.LastIndex(ref, "/")+1:]
		if t, ok := vd.Components[name].(M); ok {
			if _, again := t["$ref"]; again {
				depth-- // a chain of references must end
			}
			// following a reference costs no depth: a cycle through two or three components is
			// entered once more below the root
			return vd.cands(t, depth)
		}
		return nil
	}
	var out []any
	for _, kw := range []string{"oneOf", "anyOf", "allOf"} {
		for _, sub := range list(s[kw]) {
			if m, ok := sub.(M); ok {
				out = append(out, vd.cands(m, depth-1)...)
			}
		}
	}
	if subs := list(s["allOf"]); len(subs) > 1 {
		// the conjunction of the object parts: first valid object of each part merged, then each member dropped
		merged := M{}
		for _, sub := range subs {
			m, _ := sub.(M)
			for _, c := range vd.cands(m, depth-1) {
				o, isObj := c.(M)
				if ok, amb := vd.Valid(m, c); isObj && ok && !amb && len(o) > 0 {
					for k, v := range o {
						merged[k] = v
					}
					break
				}
			}
		}
		out = append(out, merged)
		for k := range merged {
			m := M{}
			for k2, v := range merged {
				if k2 != k {
					m[k2] = v
				}
			}
			out = append(out, m)
		}
	}
	if e := list(s["enum"]); e != nil {
		out = append(out, e...)
	}
	if s["nullable"] == true {
		out = append(out, nil)
	}
	one := big.NewRat(1, 1)
	half := big.NewRat(1, 2)
	switch s["type"] {
	case "integer", "number":
		rs := []*big.Rat{big.NewRat(0, 1), big.NewRat(1, 1), big.NewRat(-1, 1)}
		var bounds []*big.Rat
		for _, kw := range []string{"minimum", "maximum"} {
			if k, ok := num(s[kw]); ok {
				bounds = append(bounds, k)
				rs = append(rs, k, new(big.Rat).Add(k, one), new(big.Rat).Sub(k, one), new(big.Rat).Add(k, half), new(big.Rat).Sub(k, half), new(big.Rat).Neg(k))
			}
		}
		if m, ok := num(s["multipleOf"]); ok && m.Sign() > 0 {
			for _, f := range []int64{1, 2, 3, -1, -2, -3} {
				x := new(big.Rat).Mul(m, big.NewRat(f, 1))
				rs = append(rs, x, new(big.Rat).Add(x, one), new(big.Rat).Add(x, new(big.Rat).Quo(m, big.NewRat(2, 1))))
			}
			for _, b := range bounds {
				// the multiples around each bound
				q := new(big.Rat).Quo(b, m)
				fl := new(big.Int).Quo(q.Num(), q.Denom())
				for d := int64(-2); d <= 2; d++ {
					rs = append(rs, new(big.Rat).Mul(m, new(big.Rat).SetInt(new(big.Int).Add(fl, big.NewInt(d)))))
				}
			}
		}
		for _, r := range rs {
			out = append(out, ratText(r))
		}
		out = append(out, "1", true)
	case "string":
		lens := map[int]bool{0: true, 1: true, 2: true}
		for _, kw := range []string{"minLength", "maxLength"} {
			if k, ok := num(s[kw]); ok && k.IsInt() {
				n := int(k.Num().Int64())
				for _, d := range []int{-1, 0, 1} {
					if n+d >= 0 && n+d < 2000 {
						lens[n+d] = true
					}
				}
			}
		}
		var ls []int
		for n := range lens {
			ls = append(ls, n)
		}
		sort.Ints(ls)
		for _, n := range ls {
			out = append(out, strings.Repeat("a", n), strings.Repeat("é", n), strings.Repeat("b", n))
			if n >= 2 {
				out = append(out, "a"+strings.Repeat("b", n-1), strings.Repeat("😀", n-1)+"a")
			}
		}
		out = append(out, json.Number("1"), false)
	case "boolean":
		out = append(out, true, false, "true", json.Number("1"))
	case "array":
		items, _ := s["items"].(M)
		ic := vd.cands(items, depth-1)
		valid := vd.validOnes(items, ic, 6)
		out = append(out, []any{})
		for _, c := range vd.pick(items, ic, 14) {
			out = append(out, []any{c})
		}
		lens := map[int]bool{1: true, 2: true, 3: true}
		for _, kw := range []string{"minItems", "maxItems"} {
			if k, ok := num(s[kw]); ok && k.IsInt() {
				n := int(k.Num().Int64())
				for _, d := range []int{-1, 0, 1} {
					if n+d >= 0 && n+d < 64 {
						lens[n+d] = true
					}
				}
			}
		}
		if len(valid) > 0 {
			for n := range lens {
				distinct := make([]any, 0, n)
				same := make([]any, 0, n)
				for i := 0; i < n; i++ {
					distinct = append(distinct, valid[i%len(valid)])
					same = append(same, valid[0])
				}
				out = append(out, distinct, same)
				if n >= 2 {
					// duplicate at the far ends, invalid item last
					d2 := append([]any{}, distinct...)
					d2[n-1] = d2[0]
					out = append(out, d2)
					for _, c := range ic {
						if ok, amb := vd.Valid(items, c); !ok && !amb {
							d3 := append([]any{}, distinct...)
							d3[n-1] = c
							out = append(out, d3)
							break
						}
					}
				}
			}
		}
		out = append(out, M{}, "a")
	case "object":
		props, _ := s["properties"].(M)
		var names []string
		for n := range props {
			names = append(names, n)
		}
		sort.Strings(names)
		base := M{}
		pc := map[string][]any{}
		for _, n := range names {
			ps, _ := props[n].(M)
			pc[n] = vd.cands(ps, depth-1)
			if v, ok := vd.firstValid(ps, pc[n]); ok {
				base[n] = v
			}
		}
		clone := func(extra ...any) M {
			m := M{}
			for k, v := range base {
				m[k] = v
			}
			for i := 0; i+1 < len(extra); i += 2 {
				m[extra[i].(string)] = extra[i+1]
			}
			return m
		}
		out = append(out, clone(), M{})
		for _, n := range names {
			m := clone()
			delete(m, n)
			out = append(out, m)
			only := M{}
			if v, ok := base[n]; ok {
				only[n] = v
				out = append(out, only)
			}
			ps, _ := props[n].(M)
			for _, c := range vd.pick(ps, pc[n], 10) {
				out = append(out, clone(n, c))
			}
		}
		var apc []any
		if ap, ok := s["additionalProperties"].(M); ok {
			apc = vd.cands(ap, depth-1)
		} else {
			apc = []any{json.Number("1"), "x", true, nil}
		}
		if ap, ok := s["additionalProperties"].(M); ok {
			apc = vd.pick(ap, apc, 8)
		}
		for i, c := range apc {
			if i >= 8 {
				break
			}
			out = append(out, clone("zz", c))
		}
		// members matched by a pattern property (patterns of the form ^literal)
		if pp, ok := s["patternProperties"].(M); ok {
			var pats []string
			for pat := range pp {
				pats = append(pats, pat)
			}
			sort.Strings(pats)
			for _, pat := range pats {
				sub, _ := pp[pat].(M)
				if !strings.HasPrefix(pat, "^") || strings.ContainsAny(pat[1:], `\.[]()*+?|{}$^`) {
					continue
				}
				for _, c := range vd.pick(sub, vd.cands(sub, depth-1), 6) {
					out = append(out, clone(pat[1:]+"1", c), clone(pat[1:]+"1", c, pat[1:]+"2", c))
				}
			}
		}
		// member counts around minProperties / maxProperties
		fill := apc
		if ap, ok := s["additionalProperties"].(M); ok {
			fill = vd.validOnes(ap, apc, 1)
		}
		if len(fill) > 0 {
			for _, kw := range []string{"minProperties", "maxProperties"} {
				if k, ok := num(s[kw]); ok && k.IsInt() {
					n := int(k.Num().Int64())
					for _, d := range []int{-1, 0, 1} {
						if n+d < 0 || n+d > 64 {
							continue
						}
						for _, start := range []M{clone(), {}} {
							m := start
							for i := 0; len(m) < n+d; i++ {
								m["x"+string(rune('a'+i))] = fill[0]
							}
							if len(m) == n+d {
								out = append(out, m)
							}
						}
					}
				}
			}
		}
		out = append(out, []any{}, "a", json.Number("0"))
	}
	out = append(out, nil)
	return out
}
