//go:build verifdriver

// Driver of C04: schema-directed enumeration of Go values of regenerated types (Go-first) and of
// valid JSON instances (JSON-first); round-trip and schema conformance oracles.
package main

import (
	"bytes"
	_ "embed"
	"encoding/json"
	"flag"
	"fmt"
	"math"
	"net"
	"net/netip"
	"net/url"
	"os"
	"reflect"
	"runtime"
	"sort"
	"strings"
	"sync"
	"time"

	"github.com/go-faster/jx"
	"github.com/google/uuid"

	"scratch/api"
	"scratch/drv"
	"scratch/jsonref"
	"scratch/refval"
)

//go:embed roots.json
var rootsJSON []byte

type M = map[string]any

var (
	timeT = reflect.TypeOf(time.Time{})
	durT  = reflect.TypeOf(time.Duration(0))
	uuidT = reflect.TypeOf(uuid.UUID{})
	addrT = reflect.TypeOf(netip.Addr{})
	urlT  = reflect.TypeOf(url.URL{})
	rawT  = reflect.TypeOf(jx.Raw{})
	macT  = reflect.TypeOf(net.HardwareAddr{})
)

var comps M
var thorough = os.Getenv("VERIF_TIER") == "thorough"

func resolve(s M) M {
	for s != nil {
		ref, ok := s["$ref"].(string)
		if !ok {
			return s
		}
		s, _ = comps[strings.TrimPrefix(ref, "#/components/schemas/")].(M)
	}
	return s
}

func sub(s M, key string) []M {
	l, _ := s[key].([]any)
	var out []M
	for _, x := range l {
		if m, ok := x.(M); ok {
			out = append(out, m)
		}
	}
	return out
}

// mergedObject flattens allOf members into one object schema (properties / required only).
func mergedObject(s M) M {
	all := sub(s, "allOf")
	if all == nil {
		return s
	}
	out := M{"type": "object", "properties": M{}}
	for _, m := range all {
		m = resolve(m)
		for k, v := range m {
			switch k {
			case "properties":
				for pk, pv := range v.(M) {
					out["properties"].(M)[pk] = pv
				}
			case "required":
			default:
				out[k] = v
			}
		}
	}
	return out
}

func isWrapper(t reflect.Type) (hasSet, hasNull, ok bool) {
	if t.Kind() != reflect.Struct || t.NumField() > 3 {
		return
	}
	_, hasV := t.FieldByName("Value")
	_, hasSet = t.FieldByName("Set")
	_, hasNull = t.FieldByName("Null")
	return hasSet, hasNull, hasV && (hasSet || hasNull) && (strings.HasPrefix(t.Name(), "Opt") || strings.HasPrefix(t.Name(), "Nil"))
}

func mk(t reflect.Type, vs ...any) []reflect.Value {
	var out []reflect.Value
	for _, v := range vs {
		rv := reflect.ValueOf(v)
		if rv.Type().ConvertibleTo(t) {
			out = append(out, rv.Convert(t))
		}
	}
	return out
}

// violatorsFirst puts, right behind the first candidate, one value per keyword of the schema that
// breaks exactly that keyword (maximum + 1, minimum - 1, a non-multiple, a string one longer / shorter
// than allowed, a non-member of the enum): nested positions only get the first few candidates of a
// member, and a validator that forgets a nested position shows with nothing else.
func violatorsFirst(t reflect.Type, s M, cands []reflect.Value) []reflect.Value {
	if len(cands) == 0 {
		return cands
	}
	num := func(k string) (float64, bool) {
		switch x := s[k].(type) {
		case float64:
			return x, true
		case int:
			return float64(x), true
		case json.Number:
			f, err := x.Float64()
			return f, err == nil
		}
		return 0, false
	}
	var extra []any
	switch t.Kind() {
	case reflect.String:
		if n, ok := num("maxLength"); ok {
			extra = append(extra, strings.Repeat("a", int(n)+1))
		}
		if n, ok := num("minLength"); ok && n > 0 {
			extra = append(extra, strings.Repeat("a", int(n)-1))
		}
		if _, ok := s["pattern"]; ok {
			extra = append(extra, "\x01 no match \x02")
		}
		if _, ok := s["enum"]; ok {
			extra = append(extra, "not-a-member")
		}
	case reflect.Int, reflect.Int8, reflect.Int16, reflect.Int32, reflect.Int64, reflect.Uint, reflect.Uint8, reflect.Uint16, reflect.Uint32, reflect.Uint64, reflect.Float32, reflect.Float64:
		if n, ok := num("maximum"); ok {
			extra = append(extra, n+1)
		}
		if n, ok := num("minimum"); ok {
			extra = append(extra, n-1)
		}
		if n, ok := num("multipleOf"); ok && n != 1 {
			extra = append(extra, n+n/2, n+1)
		}
	}
	var vs []reflect.Value
	for _, e := range extra {
		rv := reflect.ValueOf(e)
		if !rv.Type().ConvertibleTo(t) {
			continue
		}
		cv := rv.Convert(t)
		// conversions that do not keep the value (a negative number to unsigned, a fraction to integer) are skipped
		if f, ok := e.(float64); ok {
			switch {
			case cv.CanInt() && float64(cv.Int()) != f, cv.CanUint() && (f < 0 || float64(cv.Uint()) != f):
				continue
			}
		}
		vs = append(vs, cv)
	}
	out := append([]reflect.Value{cands[0]}, vs...)
	return append(out, cands[1:]...)
}

// build returns candidate values of Go type t for schema s (simplest first).
func build(t reflect.Type, s M, depth int) []reflect.Value {
	s = resolve(s)
	if s == nil {
		s = M{}
	}
	format, _ := s["format"].(string)
	if t != rawT && t.Kind() == reflect.Slice && t.ConvertibleTo(rawT) && t.Elem().Kind() == reflect.Uint8 && len(s) == 0 {
		// a named schema without keywords: raw JSON text under a name of its own
		var out []reflect.Value
		for _, txt := range []string{`{"k":[1,"x",null]}`, `1`, `"s"`, `null`, ``} {
			out = append(out, reflect.ValueOf(jx.Raw(txt)).Convert(t))
		}
		out = append(out, reflect.Zero(t))
		return out
	}
	switch t {
	case timeT:
		switch format {
		case "date":
			return mk(t, time.Date(2020, 2, 29, 0, 0, 0, 0, time.UTC), time.Date(1, 1, 1, 0, 0, 0, 0, time.UTC), time.Date(9999, 12, 31, 0, 0, 0, 0, time.UTC))
		case "time":
			return mk(t, time.Date(0, 1, 1, 23, 59, 59, 0, time.UTC), time.Date(0, 1, 1, 0, 0, 0, 0, time.UTC))
		case "unix", "unix-seconds":
			return mk(t, time.Unix(1600000000, 0), time.Unix(0, 0), time.Unix(-1, 0))
		case "unix-milli":
			return mk(t, time.UnixMilli(1600000000123), time.UnixMilli(-1))
		case "unix-micro":
			return mk(t, time.UnixMicro(1600000000123456), time.UnixMicro(-1))
		case "unix-nano":
			return mk(t, time.Unix(0, 1600000000123456789), time.Unix(0, -1))
		}
		return mk(t, time.Date(2020, 2, 29, 23, 59, 59, 0, time.UTC), time.Date(1, 1, 1, 0, 0, 0, 0, time.FixedZone("", 19800)), time.Date(9999, 12, 31, 23, 59, 59, 0, time.FixedZone("", -8*3600)))
	case durT:
		return mk(t, time.Duration(0), 1500*time.Millisecond, time.Duration(math.MinInt64), time.Duration(math.MaxInt64), -time.Nanosecond)
	case uuidT:
		return mk(t, uuid.MustParse("123e4567-e89b-12d3-a456-426614174000"), uuid.UUID{}, uuid.MustParse("ffffffff-ffff-ffff-ffff-ffffffffffff"))
	case addrT:
		switch format {
		case "ipv4":
			return mk(t, netip.MustParseAddr("1.2.3.4"), netip.MustParseAddr("255.255.255.255"))
		case "ipv6":
			return mk(t, netip.MustParseAddr("::1"), netip.MustParseAddr("2001:db8::ff"), netip.MustParseAddr("fe80::1%eth0"))
		}
		return mk(t, netip.MustParseAddr("1.2.3.4"), netip.MustParseAddr("::1"))
	case urlT:
		u1, _ := url.Parse("https://example.com/a%20b?q=1")
		u2, _ := url.Parse("https://u:p@h:8080/p?a=%20#frag")
		return mk(t, *u1, *u2)
	case rawT:
		return mk(t, jx.Raw(`{"k":[1,"x",null]}`), jx.Raw(`1`))
	case macT:
		return mk(t, net.HardwareAddr{0, 1, 2, 0xab, 0xcd, 0xef})
	}
	if hasSet, hasNull, ok := isWrapper(t); ok {
		var out []reflect.Value
		vf, _ := t.FieldByName("Value")
		inner := s
		if hasNull {
			inner = M{}
			for k, v := range s {
				if k != "nullable" {
					inner[k] = v
				}
			}
		}
		vals := build(vf.Type, inner, depth)
		set := func(e reflect.Value) reflect.Value {
			x := reflect.New(t).Elem()
			x.FieldByName("Value").Set(e)
			if hasSet {
				x.FieldByName("Set").SetBool(true)
			}
			return x
		}
		if len(vals) > 0 {
			out = append(out, set(vals[0]))
		}
		if hasSet {
			out = append(out, reflect.New(t).Elem())
		}
		if hasNull {
			x := reflect.New(t).Elem()
			x.FieldByName("Null").SetBool(true)
			if hasSet {
				x.FieldByName("Set").SetBool(true)
			}
			out = append(out, x)
		}
		for i, e := range vals {
			if i > 0 {
				out = append(out, set(e))
			}
		}
		return out
	}
	if sum, ok := api.VerifSums[t.Name()]; ok && t.Kind() == reflect.Struct {
		variants := sub(s, "oneOf")
		if variants == nil {
			variants = sub(s, "anyOf")
		}
		var out []reflect.Value
		// the zero value (no variant selected) is a value of the Go type too
		zero := reflect.New(t).Elem()
		// which variant schema belongs to which field: by shape first; what is left on both sides
		// (formatted values: a date is a time.Time, a stringified int64 an int64) pairs up in order
		assigned := map[string]M{}
		used := map[int]bool{}
		for _, v := range sum {
			// a referenced component is the Go type of that name
			if f, ok := t.FieldByName(v[1]); ok {
				for ci, cand := range variants {
					if ref, _ := cand["$ref"].(string); !used[ci] && ref != "" && strings.HasSuffix(ref, "/"+f.Type.Name()) {
						assigned[v[1]] = cand
						used[ci] = true
						break
					}
				}
			}
		}
		for _, v := range sum {
			if assigned[v[1]] != nil {
				continue
			}
			f, ok := t.FieldByName(v[1])
			if !ok {
				continue
			}
			for ci, cand := range variants {
				if !used[ci] && compatible(f.Type, resolve(cand)) {
					if _, formatted := resolve(cand)["format"]; formatted && f.Type.Kind() == reflect.String {
						continue // a formatted string is not a plain Go string
					}
					assigned[v[1]] = cand
					used[ci] = true
					break
				}
			}
		}
		for _, v := range sum {
			if _, ok := t.FieldByName(v[1]); !ok || assigned[v[1]] != nil {
				continue
			}
			for ci, cand := range variants {
				if !used[ci] {
					assigned[v[1]] = cand
					used[ci] = true
					break
				}
			}
		}
		for _, v := range sum {
			f, ok := t.FieldByName(v[1])
			if !ok {
				continue
			}
			vs := assigned[v[1]]
			for _, fv := range build(f.Type, vs, depth+1) {
				x := reflect.New(t).Elem()
				x.FieldByName("Type").SetString(v[0])
				if d, ok := s["discriminator"].(M); ok && fv.Kind() == reflect.Struct {
					// the discriminator member is determined by the variant: a value whose member
					// disagrees with its variant is not a value of the schema
					pn, _ := d["propertyName"].(string)
					for key, ref := range d["mapping"].(M) {
						if vs != nil && vs["$ref"] == ref {
							c := reflect.New(fv.Type()).Elem()
							c.Set(fv)
							for i := 0; i < c.NumField(); i++ {
								if strings.Split(c.Type().Field(i).Tag.Get("json"), ",")[0] == pn && c.Field(i).Kind() == reflect.String {
									c.Field(i).SetString(key)
								}
							}
							fv = c
						}
					}
				}
				x.FieldByName(v[1]).Set(fv)
				out = append(out, x)
			}
		}
		return append(out, zero)
	}
	if en, ok := api.VerifEnums[t.Name()]; ok {
		var out []reflect.Value
		for _, e := range en {
			out = append(out, reflect.ValueOf(e).Convert(t))
		}
		// a value outside the enumeration (must be refused by Validate)
		if t.Kind() == reflect.String {
			out = append(out, reflect.ValueOf("zz").Convert(t))
		}
		return out
	}
	switch t.Kind() {
	case reflect.String:
		return violatorsFirst(t, s, mk(t, "a", "", "ab", "abc", "b", "ba", "é\"\\\n\x00 😀", " </script>", strings.Repeat("x", 300)))
	case reflect.Bool:
		return mk(t, false, true)
	case reflect.Int, reflect.Int64:
		return violatorsFirst(t, s, mk(t, 0, 1, -1, 2, 4, 5, 6, 10, int64(math.MaxInt64), int64(math.MinInt64), int64(1)<<53+1))
	case reflect.Int32:
		return violatorsFirst(t, s, mk(t, 0, 1, -1, 2, 5, 6, math.MaxInt32, math.MinInt32))
	case reflect.Int16:
		return violatorsFirst(t, s, mk(t, 0, -1, 5, math.MaxInt16, math.MinInt16))
	case reflect.Int8:
		return violatorsFirst(t, s, mk(t, 0, -1, 5, math.MaxInt8, math.MinInt8))
	case reflect.Uint, reflect.Uint64:
		return violatorsFirst(t, s, mk(t, uint64(0), uint64(1), uint64(5), uint64(math.MaxInt64), uint64(math.MaxInt64)+1, uint64(math.MaxUint64), uint64(1)<<53+1))
	case reflect.Uint32:
		return violatorsFirst(t, s, mk(t, uint32(0), uint32(5), uint32(math.MaxInt32), uint32(math.MaxInt32)+1, uint32(math.MaxUint32)))
	case reflect.Uint16:
		return violatorsFirst(t, s, mk(t, uint16(0), uint16(5), uint16(math.MaxInt16), uint16(math.MaxInt16)+1, uint16(math.MaxUint16)))
	case reflect.Uint8:
		return violatorsFirst(t, s, mk(t, uint8(0), uint8(5), uint8(127), uint8(128), uint8(255)))
	case reflect.Float64:
		return violatorsFirst(t, s, mk(t, 0.0, 0.5, 1.0, -1.0, 2.0, 2.5, -0.5, 1.5, 0.25, 1e21, 1e-7, math.MaxFloat64, 5e-324, 0.1, math.Copysign(0, -1)))
	case reflect.Float32:
		return violatorsFirst(t, s, mk(t, float32(0), float32(0.5), float32(-1), float32(0.1), float32(math.MaxFloat32), float32(1e-45)))
	case reflect.Slice:
		if t.Elem().Kind() == reflect.Uint8 {
			return mk(t, []byte("ab\x00\xff"), []byte{}, []byte(nil))
		}
		out := []reflect.Value{}
		items, _ := s["items"].(M)
		var ev []reflect.Value
		if depth < 4 {
			ev = build(t.Elem(), items, depth+1)
		}
		one := func(es ...reflect.Value) reflect.Value {
			sl := reflect.MakeSlice(t, len(es), len(es))
			for i, e := range es {
				sl.Index(i).Set(e)
			}
			return sl
		}
		if len(ev) > 0 {
			out = append(out, one(ev[0]))
		}
		out = append(out, reflect.MakeSlice(t, 0, 0), reflect.Zero(t))
		for i, e := range ev {
			if i > 0 && i < 6 {
				out = append(out, one(e))
			}
		}
		if len(ev) > 1 {
			out = append(out, one(ev[0], ev[1]), one(ev[0], ev[0]), one(ev[1], ev[0]))
		}
		if len(ev) > 2 {
			out = append(out, one(ev[0], ev[1], ev[2]))
		}
		return out
	case reflect.Map:
		var es M
		switch ap := s["additionalProperties"].(type) {
		case M:
			es = ap
		}
		out := []reflect.Value{}
		var ev []reflect.Value
		if depth < 4 {
			ev = build(t.Elem(), es, depth+1)
		}
		// members collected under a pattern (^literal) carry names the pattern matches
		prefix, _ := s["x-verif-key-prefix"].(string)
		key := func(k string) reflect.Value { return reflect.ValueOf(prefix + k).Convert(t.Key()) }
		if len(ev) > 0 {
			m := reflect.MakeMap(t)
			m.SetMapIndex(key("a"), ev[0])
			out = append(out, m)
		}
		out = append(out, reflect.MakeMap(t), reflect.Zero(t))
		for i, e := range ev {
			if i > 0 && i < 5 {
				m := reflect.MakeMap(t)
				m.SetMapIndex(key("k\"é\n"), e)
				out = append(out, m)
			}
		}
		if len(ev) > 1 {
			m := reflect.MakeMap(t)
			m.SetMapIndex(key("a"), ev[0])
			m.SetMapIndex(key("b"), ev[1])
			out = append(out, m)
			m3 := reflect.MakeMap(t)
			m3.SetMapIndex(key("a"), ev[0])
			m3.SetMapIndex(key("b"), ev[1])
			m3.SetMapIndex(key("z"), ev[0])
			out = append(out, m3)
		}
		return out
	case reflect.Pointer:
		out := []reflect.Value{reflect.Zero(t)}
		if depth < 4 {
			// a pointer is how a recursive member is written, not a level of the document: the
			// members of the pointee count the level
			for _, e := range build(t.Elem(), s, depth) {
				p := reflect.New(t.Elem())
				p.Elem().Set(e)
				out = append(out, p)
			}
		}
		return out
	case reflect.Struct:
		return buildStruct(t, s, depth)
	}
	return []reflect.Value{reflect.Zero(t)}
}

func compatible(t reflect.Type, s M) bool {
	if s == nil {
		return false
	}
	st, _ := s["type"].(string)
	switch t.Kind() {
	case reflect.String:
		return st == "string"
	case reflect.Bool:
		return st == "boolean"
	case reflect.Int, reflect.Int8, reflect.Int16, reflect.Int32, reflect.Int64, reflect.Uint, reflect.Uint8, reflect.Uint16, reflect.Uint32, reflect.Uint64:
		return st == "integer"
	case reflect.Float32, reflect.Float64:
		return st == "number"
	case reflect.Slice:
		return st == "array"
	case reflect.Map:
		return st == "object"
	case reflect.Struct:
		if st != "object" && s["allOf"] == nil {
			return false
		}
		// structurally: every json-tagged field is a property of the schema
		props, _ := mergedObject(s)["properties"].(M)
		for i := 0; i < t.NumField(); i++ {
			if tag := strings.Split(t.Field(i).Tag.Get("json"), ",")[0]; tag != "" {
				if _, ok := props[tag]; !ok {
					return false
				}
			}
		}
		return true
	}
	return false
}

func validate(v reflect.Value) error {
	p := reflect.New(v.Type())
	p.Elem().Set(v)
	m := p.MethodByName("Validate")
	if !m.IsValid() {
		return nil
	}
	out := m.Call(nil)
	if len(out) == 1 && !out[0].IsNil() {
		return out[0].Interface().(error)
	}
	return nil
}

// buildStruct: a valid base plus single-field (thorough: also pair) variation.
func buildStruct(t reflect.Type, s M, depth int) []reflect.Value {
	s = mergedObject(s)
	props, _ := s["properties"].(M)
	type fld struct {
		idx   int
		cands []reflect.Value
	}
	var fields []fld
	for i := 0; i < t.NumField(); i++ {
		f := t.Field(i)
		if !f.IsExported() {
			continue
		}
		var fs M
		tag := strings.Split(f.Tag.Get("json"), ",")[0]
		switch {
		case tag != "":
			fs, _ = props[tag].(M)
		case f.Name == "AdditionalProps":
			fs = M{"type": "object", "additionalProperties": s["additionalProperties"]}
		case strings.HasPrefix(f.Name, "Pattern") && strings.HasSuffix(f.Name, "Props"):
			// PatternNProps: the N-th pattern in document order (documents are written with sorted keys)
			var n int
			fmt.Sscanf(f.Name, "Pattern%dProps", &n)
			pp, _ := s["patternProperties"].(M)
			var pats []string
			for p := range pp {
				pats = append(pats, p)
			}
			sort.Strings(pats)
			if n < len(pats) && strings.HasPrefix(pats[n], "^") {
				fs = M{"type": "object", "additionalProperties": pp[pats[n]], "x-verif-key-prefix": pats[n][1:]}
			}
		}
		var c []reflect.Value
		if depth < 4 {
			c = build(f.Type, fs, depth+1)
		}
		if len(c) == 0 {
			c = []reflect.Value{reflect.Zero(f.Type)}
		}
		fields = append(fields, fld{i, c})
	}
	base := reflect.New(t).Elem()
	for _, f := range fields {
		base.Field(f.idx).Set(f.cands[0])
	}
	// repair the base greedily if its own validation refuses it
	if validate(base) != nil {
		for _, f := range fields {
			for _, c := range f.cands {
				x := reflect.New(t).Elem()
				x.Set(base)
				x.Field(f.idx).Set(c)
				if validate(x) == nil {
					base = x
					break
				}
			}
			if validate(base) == nil {
				break
			}
		}
	}
	out := []reflect.Value{base}
	limit := 40
	if depth > 0 {
		limit = 6 // nested structs contribute a few representative values
	}
	// candidate by candidate across the members (not member by member): the first few values of the
	// list, which is all an enclosing position takes, then vary every member once
	for ci := 1; ci <= limit; ci++ {
		for _, f := range fields {
			if ci >= len(f.cands) {
				continue
			}
			x := reflect.New(t).Elem()
			x.Set(base)
			x.Field(f.idx).Set(f.cands[ci])
			out = append(out, x)
		}
	}
	if thorough && depth == 0 {
		for a := 0; a < len(fields); a++ {
			for b := a + 1; b < len(fields); b++ {
				for ca, va := range fields[a].cands {
					for cb, vb := range fields[b].cands {
						if ca == 0 || cb == 0 || ca > 8 || cb > 8 {
							continue
						}
						x := reflect.New(t).Elem()
						x.Set(base)
						x.Field(fields[a].idx).Set(va)
						x.Field(fields[b].idx).Set(vb)
						out = append(out, x)
					}
				}
			}
		}
	}
	out = append(out, reflect.New(t).Elem()) // the zero value
	return out
}

// equal: deep equality with the identifications stated in DESIGN.md C04. wrapped = inside a
// wrapper that already carries nullness.
func equal(a, b reflect.Value, s M, wrapped bool) bool {
	s = resolve(s)
	if a.Type() == timeT {
		ta, tb := a.Interface().(time.Time), b.Interface().(time.Time)
		switch f, _ := s["format"].(string); f {
		case "time":
			return ta.Hour() == tb.Hour() && ta.Minute() == tb.Minute() && ta.Second() == tb.Second()
		case "date":
			return ta.Year() == tb.Year() && ta.YearDay() == tb.YearDay()
		}
		return ta.Equal(tb)
	}
	if a.Type() == rawT || (a.Kind() == reflect.Slice && a.Type().Elem().Kind() == reflect.Uint8 && a.Type().ConvertibleTo(rawT) && a.Type().Name() != "" && isRawJSON(a.Bytes()) && isRawJSON(b.Bytes())) {
		return jsonref.Canon(string(a.Bytes())).Canon == jsonref.Canon(string(b.Bytes())).Canon
	}
	if hasSet, hasNull, ok := isWrapper(a.Type()); ok {
		aset := !hasSet || a.FieldByName("Set").Bool()
		bset := !hasSet || b.FieldByName("Set").Bool()
		anull := hasNull && a.FieldByName("Null").Bool()
		bnull := hasNull && b.FieldByName("Null").Bool()
		if !aset {
			if def, has := s["default"]; has {
				// absent member with a schema default arrives as the default
				if !bset || bnull {
					return false
				}
				db, _ := json.Marshal(def)
				return jsonref.Canon(encodeAny(b.FieldByName("Value"))).Canon == jsonref.Canon(string(db)).Canon
			}
			return !bset
		}
		if !bset || anull != bnull {
			return false
		}
		if anull {
			return true
		}
		return equal(a.FieldByName("Value"), b.FieldByName("Value"), s, hasNull)
	}
	switch a.Kind() {
	case reflect.Struct:
		if a.Type() == addrT || a.Type() == urlT || a.Type() == uuidT {
			return fmt.Sprint(a.Interface()) == fmt.Sprint(b.Interface())
		}
		ms := mergedObject(s)
		props, _ := ms["properties"].(M)
		for i := 0; i < a.NumField(); i++ {
			f := a.Type().Field(i)
			if !f.IsExported() {
				continue
			}
			var fs M
			if tag := strings.Split(f.Tag.Get("json"), ",")[0]; tag != "" {
				fs, _ = props[tag].(M)
			} else if f.Name == "AdditionalProps" {
				fs = M{"type": "object", "additionalProperties": ms["additionalProperties"]}
			} else if vs := sub(s, "oneOf"); vs != nil || sub(s, "anyOf") != nil {
				if vs == nil {
					vs = sub(s, "anyOf")
				}
				for _, cand := range vs {
					if compatible(f.Type, resolve(cand)) {
						fs = cand
					}
				}
			}
			// a nil slice has a JSON meaning of its own only for optional or nullable members
			strictNil := false
			if tag := strings.Split(f.Tag.Get("json"), ",")[0]; tag != "" && fs != nil {
				req := false
				for _, r := range listOf(ms["required"]) {
					if r == tag {
						req = true
					}
				}
				strictNil = !req || resolve(fs)["nullable"] == true
			}
			if !equal(a.Field(i), b.Field(i), fs, !strictNil) {
				return false
			}
		}
		return true
	case reflect.Slice:
		if a.Type().Elem().Kind() == reflect.Uint8 {
			return bytes.Equal(a.Bytes(), b.Bytes())
		}
		if a.Len() != b.Len() {
			return false
		}
		if a.IsNil() != b.IsNil() && !wrapped {
			return false
		}
		items, _ := s["items"].(M)
		for i := 0; i < a.Len(); i++ {
			if !equal(a.Index(i), b.Index(i), items, true) {
				return false
			}
		}
		return true
	case reflect.Map:
		if a.Len() != b.Len() {
			return false
		}
		es, _ := s["additionalProperties"].(M)
		for _, k := range a.MapKeys() {
			bv := b.MapIndex(k)
			if !bv.IsValid() || !equal(a.MapIndex(k), bv, es, true) {
				return false
			}
		}
		return true
	case reflect.Pointer:
		if a.IsNil() || b.IsNil() {
			return a.IsNil() == b.IsNil()
		}
		return equal(a.Elem(), b.Elem(), s, wrapped)
	case reflect.Float32, reflect.Float64:
		return a.Float() == b.Float()
	}
	return reflect.DeepEqual(a.Interface(), b.Interface())
}

func listOf(v any) []string {
	var out []string
	switch l := v.(type) {
	case []any:
		for _, x := range l {
			if s, ok := x.(string); ok {
				out = append(out, s)
			}
		}
	case []string:
		out = l
	}
	return out
}

func encodeAny(v reflect.Value) string {
	b, err := json.Marshal(v.Interface())
	if err != nil {
		return "null"
	}
	return string(b)
}

type kase struct {
	Root   string          `json:"root"`
	Schema json.RawMessage `json:"root_schema"`
	Value  string          `json:"go_value"`
	JSON   string          `json:"encoded"`
	Back   string          `json:"decoded_back,omitempty"`
	Detail string          `json:"detail"`
}

// unrepresentable: a set member holds a value its format has no text for (zero netip.Addr, empty
// MAC, empty URL, an instant outside the int64 nanosecond range for unix-nano): outside the domain
// (same rule as C13).
func unrepresentable(v reflect.Value, s M) bool {
	s = resolve(s)
	switch v.Type() {
	case addrT:
		return !v.Interface().(netip.Addr).IsValid()
	case macT:
		return v.Len() == 0
	case urlT:
		u := v.Interface().(url.URL)
		return u.String() == ""
	case timeT:
		if f, _ := s["format"].(string); f == "unix-nano" {
			y := v.Interface().(time.Time).Year()
			return y < 1678 || y > 2261
		}
		return false
	case uuidT, rawT, durT:
		return false
	}
	switch v.Kind() {
	case reflect.Struct:
		if hasSet, hasNull, ok := isWrapper(v.Type()); ok {
			if (hasSet && !v.FieldByName("Set").Bool()) || (hasNull && v.FieldByName("Null").Bool()) {
				return false
			}
			return unrepresentable(v.FieldByName("Value"), s)
		}
		if sum, ok := api.VerifSums[v.Type().Name()]; ok {
			for _, sv := range sum {
				if v.FieldByName("Type").String() == sv[0] {
					return unrepresentable(v.FieldByName(sv[1]), nil)
				}
			}
			return false
		}
		ms := mergedObject(s)
		props, _ := ms["properties"].(M)
		for i := 0; i < v.NumField(); i++ {
			f := v.Type().Field(i)
			if !f.IsExported() {
				continue
			}
			var fs M
			if tag := strings.Split(f.Tag.Get("json"), ",")[0]; tag != "" {
				fs, _ = props[tag].(M)
			} else if f.Name == "AdditionalProps" {
				fs = M{"type": "object", "additionalProperties": ms["additionalProperties"]}
			}
			if unrepresentable(v.Field(i), fs) {
				return true
			}
		}
	case reflect.Slice:
		if v.Type().Elem().Kind() == reflect.Uint8 {
			return false
		}
		items, _ := s["items"].(M)
		for i := 0; i < v.Len(); i++ {
			if unrepresentable(v.Index(i), items) {
				return true
			}
		}
	case reflect.Map:
		es, _ := s["additionalProperties"].(M)
		for _, k := range v.MapKeys() {
			if unrepresentable(v.MapIndex(k), es) {
				return true
			}
		}
	case reflect.Pointer:
		if !v.IsNil() {
			return unrepresentable(v.Elem(), s)
		}
	}
	return false
}

// zeroSum: the value (or something inside it) is a sum type with no variant selected.
func zeroSum(v reflect.Value) bool {
	switch v.Kind() {
	case reflect.Struct:
		if _, ok := api.VerifSums[v.Type().Name()]; ok {
			if v.FieldByName("Type").String() == "" {
				return true
			}
		}
		if hasSet, hasNull, ok := isWrapper(v.Type()); ok {
			if (hasSet && !v.FieldByName("Set").Bool()) || (hasNull && v.FieldByName("Null").Bool()) {
				return false
			}
			return zeroSum(v.FieldByName("Value"))
		}
		for i := 0; i < v.NumField(); i++ {
			if v.Type().Field(i).IsExported() && zeroSum(v.Field(i)) {
				return true
			}
		}
	case reflect.Slice, reflect.Array:
		if v.Type().Elem().Kind() == reflect.Uint8 {
			return false
		}
		for i := 0; i < v.Len(); i++ {
			if zeroSum(v.Index(i)) {
				return true
			}
		}
	case reflect.Map:
		for _, k := range v.MapKeys() {
			if zeroSum(v.MapIndex(k)) {
				return true
			}
		}
	case reflect.Pointer:
		if !v.IsNil() {
			return zeroSum(v.Elem())
		}
	}
	return false
}

var pool = []string{`{}`, `{"v":null}`, `{"v":0}`, `{"v":1}`, `{"v":2}`, `{"v":5}`, `{"v":6}`, `{"v":-1}`, `{"v":0.5}`, `{"v":2.5}`, `{"v":"a"}`, `{"v":"ab"}`, `{"v":"abc"}`, `{"v":""}`, `{"v":true}`, `{"v":[]}`, `{"v":[1]}`, `{"v":[0,1]}`, `{"v":[1,1]}`, `{"v":["a"]}`, `{"v":["a","b"]}`, `{"v":[true]}`, `{"v":[null]}`, `{"v":{}}`, `{"v":{"p":1}}`, `{"v":{"p":"a"}}`, `{"v":{"q":"a"}}`, `{"v":{"p":0,"q":"a"}}`, `{"v":{"p":true,"q":"a"}}`, `{"v":{"z":1}}`, `{"v":{"a":1,"b":2}}`, `{"v":{"p":[1]}}`, `{"v":{"p":{"q":1}}}`, `{"v":{"v":1,"kids":[{"v":2}]}}`, `{"v":{"kind":"cat","p":1}}`, `{"v":{"kind":"dog","q":"a"}}`}

func main() {
	onlyRoot := flag.String("only-root", "", "replay: one root type")
	flag.Parse()
	var reg struct {
		Roots      []string     `json:"roots"`
		Schemas    map[string]M `json:"schemas"`
		Components M            `json:"components"`
	}
	d := json.NewDecoder(bytes.NewReader(rootsJSON))
	d.UseNumber()
	if err := d.Decode(&reg); err != nil {
		drv.Fatal("roots.json: %v", err)
	}
	comps = reg.Components
	vd := &refval.Validator{Components: reg.Components}
	ch := make(chan string, len(reg.Roots))
	var wg sync.WaitGroup
	for w := 0; w < runtime.NumCPU(); w++ {
		wg.Add(1)
		go func() {
			defer wg.Done()
			for name := range ch {
				checkRoot(vd, name, reg.Schemas[name])
			}
		}()
	}
	for _, n := range reg.Roots {
		if *onlyRoot == "" || *onlyRoot == n {
			ch <- n
		}
	}
	close(ch)
	wg.Wait()
	drv.Flush()
}

// nilNamedCollection: the value is, or directly holds, a nil value of a named (generated) slice or
// map type, i.e. of a schema component of type array / object-map.
func nilNamedCollection(v reflect.Value) bool {
	is := func(x reflect.Value) bool {
		k := x.Kind()
		return (k == reflect.Slice || k == reflect.Map) && x.Type().PkgPath() != "" && x.Type().Name() != "" && x.IsNil()
	}
	if is(v) {
		return true
	}
	if v.Kind() == reflect.Struct {
		for i := 0; i < v.NumField(); i++ {
			f := v.Field(i)
			if is(f) {
				return true
			}
			if f.Kind() == reflect.Struct {
				if val := f.FieldByName("Value"); val.IsValid() && is(val) {
					return true
				}
			}
		}
	}
	return false
}

func checkRoot(vd *refval.Validator, name string, schema M) {
	t, ok := api.VerifTypes[name]
	if !ok {
		return
	}
	pt := reflect.PointerTo(t)
	encM, okE := pt.MethodByName("Encode")
	decM, okD := pt.MethodByName("Decode")
	if !okE || !okD {
		drv.Stat("root_types_without_codec", 1)
		return
	}
	sj, _ := json.Marshal(schema)
	var evals, valid, refused, amb, unrep int64
	seen := map[string]bool{}
	judge := func(v reflect.Value, origin string) {
		evals++
		p := reflect.New(t)
		p.Elem().Set(v)
		desc := fmt.Sprintf("%s %+v", origin, v.Interface())
		if len(desc) > 600 {
			desc = desc[:600] + "..."
		}
		report := func(class, data, back, detail string, extra map[string]string) {
			attrs := map[string]string{"class": class}
			if nilNamedCollection(v) {
				attrs["nil_named_collection"] = "true"
			}
			for _, trait := range vd.Traits(schema) {
				attrs[trait] = "true"
			}
			for k, x := range extra {
				attrs[k] = x
			}
			if len(data) > 700 {
				data = data[:700] + "..."
			}
			drv.Violation(attrs, len(desc), kase{name, sj, desc, data, back, detail})
		}
		func() {
			defer func() {
				if r := recover(); r != nil {
					report("panic-in-codec", "", "", fmt.Sprint(r), nil)
				}
			}()
			if err := validate(v); err != nil {
				refused++
				return
			}
			if unrepresentable(v, schema) {
				unrep++
				return
			}
			var e jx.Encoder
			encM.Func.Call([]reflect.Value{p, reflect.ValueOf(&e)})
			data := append([]byte{}, e.Bytes()...)
			if seen[string(data)] {
				return
			}
			seen[string(data)] = true
			valid++
			zs := zeroSum(v)
			extra := map[string]string{}
			if zs {
				extra["zero_sum"] = "true"
			}
			rc := jsonref.Canon(string(data))
			if !rc.OK {
				report("encoded-value-is-not-well-formed-JSON", string(data), "", "", extra)
				return
			}
			inst, err := refval.Decode(string(data))
			if err != nil {
				report("encoded-value-is-not-well-formed-JSON", string(data), "", err.Error(), extra)
				return
			}
			okv, ambiguous := vd.Valid(schema, inst)
			if ambiguous {
				amb++
			} else if !okv {
				if violatesOnlyPropertyCounts(vd, schema, inst) {
					extra["cause"] = "property-count-enforced-by-decoder-only"
				}
				report("encoded-value-violates-the-source-schema", string(data), "", "reference validator refuses the document although Validate() passed", extra)
			}
			q := reflect.New(t)
			out := decM.Func.Call([]reflect.Value{q, reflect.ValueOf(jx.DecodeBytes(data))})
			if !out[0].IsNil() {
				if strings.Contains(fmt.Sprint(out[0].Interface()), "object properties number") {
					extra["cause"] = "property-count-enforced-by-decoder-only"
				}
				if strings.Contains(fmt.Sprint(out[0].Interface()), "unable to detect sum type variant") {
					extra["refusal"] = "no-member-to-detect-the-variant-by"
				}
				if strings.Contains(fmt.Sprint(out[0].Interface()), "multiple oneOf matches") {
					extra["refusal"] = "several-variants-matched-by-member"
					if strings.Contains(string(sj), `[{"$ref":"#/components/schemas/VA"},{"$ref":"#/components/schemas/VD"}]`) {
						extra["variants"] = "VA,VD"
					}
				}
				report("own-encoding-is-refused-by-the-decoder", string(data), "", fmt.Sprint(out[0].Interface()), extra)
				return
			}
			back := fmt.Sprintf("%+v", q.Elem().Interface())
			if len(back) > 600 {
				back = back[:600] + "..."
			}
			if !equal(p.Elem(), q.Elem(), schema, true) {
				report("round-trip-changed-the-value", string(data), back, "", extra)
				return
			}
			var e2 jx.Encoder
			encM.Func.Call([]reflect.Value{q, reflect.ValueOf(&e2)})
			if jsonref.Canon(string(e2.Bytes())).Canon != rc.Canon {
				// defaults filled in on decode make the second encoding longer: compare the third
				q2 := reflect.New(t)
				out := decM.Func.Call([]reflect.Value{q2, reflect.ValueOf(jx.DecodeBytes(append([]byte{}, e2.Bytes()...)))})
				var e3 jx.Encoder
				if out[0].IsNil() {
					encM.Func.Call([]reflect.Value{q2, reflect.ValueOf(&e3)})
				}
				if !out[0].IsNil() || jsonref.Canon(string(e3.Bytes())).Canon != jsonref.Canon(string(e2.Bytes())).Canon {
					report("encode-decode-encode-is-not-a-fixpoint", string(data), string(e2.Bytes()), "", extra)
				}
			}
		}()
	}
	for _, v := range build(t, schema, 0) {
		judge(v, "go-first")
	}
	// JSON-first: every pool instance the reference accepts must decode, validate and re-encode to the same value
	// a root {v: S, ...} takes the pool documents as they are; a named component type takes their "v" members
	insts := pool
	vSchema := resolve(schema)
	wrapped := false
	if props, ok := resolve(schema)["properties"].(M); ok {
		if vs, ok := props["v"].(M); ok && (strings.HasPrefix(name, "R")) {
			vSchema, wrapped = vs, true
		}
	}
	if !wrapped {
		insts = nil
		if k := t.Kind(); k == reflect.Slice {
			// only a nil-able named type can stand for null itself; a nullable primitive component
			// is represented by the Nil... wrapper at the place that refers to it
			insts = []string{"null"}
		}
		for _, doc := range pool {
			if dv, err := refval.Decode(doc); err == nil {
				if m, ok := dv.(M); ok {
					if inner, ok := m["v"]; ok {
						b, _ := json.Marshal(inner)
						insts = append(insts, string(b))
					}
				}
			}
		}
	}
	for _, inst := range insts {
		if !wrapped && inst == "null" && t.Kind() != reflect.Slice {
			continue
		}
		if hasKey(vSchema, "format") {
			break // formats constrain more than the reference validator knows (widths, syntaxes)
		}
		iv, err := refval.Decode(inst)
		if err != nil {
			continue
		}
		okv, ambiguous := vd.Valid(schema, iv)
		inner := iv
		if wrapped {
			if m, ok := iv.(M); ok {
				inner = m["v"]
			}
		}
		if ambiguous || !okv || vd.MixedVariantMembers(vSchema, inner) {
			continue
		}
		evals++
		q := reflect.New(t)
		var derr error
		func() {
			defer func() {
				if r := recover(); r != nil {
					derr = fmt.Errorf("panic: %v", r)
				}
			}()
			out := decM.Func.Call([]reflect.Value{q, reflect.ValueOf(jx.DecodeStr(inst))})
			if !out[0].IsNil() {
				derr = out[0].Interface().(error)
			} else if err := validate(q.Elem()); err != nil {
				derr = fmt.Errorf("validate: %w", err)
			}
		}()
		if derr != nil {
			attrs := map[string]string{"class": "valid-document-refused-by-decode-or-validate"}
			if strings.Contains(derr.Error(), "unable to detect sum type variant") {
				attrs["refusal"] = "no-member-to-detect-the-variant-by"
			}
			drv.Violation(attrs, len(inst), kase{name, sj, "json-first", inst, "", derr.Error()})
			continue
		}
		var e jx.Encoder
		encM.Func.Call([]reflect.Value{q, reflect.ValueOf(&e)})
		// re-encoding denotes the same value, except that defaults may have been filled in
		stripped, _ := json.Marshal(stripUnknown(iv, schema))
		if a, b := jsonref.Canon(string(stripped)), jsonref.Canon(string(e.Bytes())); a.Canon != b.Canon && !hasDefault(schema) {
			drv.Violation(map[string]string{"class": "decode-then-encode-denotes-another-value"}, len(inst), kase{name, sj, "json-first", inst, string(e.Bytes()), ""})
		}
		judge(q.Elem(), "json-first")
	}
	drv.Eval(evals)
	drv.NontrivialN(valid)
	drv.Stat("values_built", evals)
	drv.Stat("values_passing_own_validation_distinct_encodings", valid)
	drv.Stat("values_refused_by_own_validation", refused)
	drv.Stat("documents_ambiguous_for_reference_validator", amb)
	drv.Stat("values_with_unrepresentable_zero_of_a_format_outside_domain", unrep)
	drv.Stat("root_types_driven", 1)
	if strings.HasSuffix(name, "7") && valid > 3 {
		keys := make([]string, 0, len(seen))
		for k := range seen {
			keys = append(keys, k)
		}
		sort.Strings(keys)
		drv.Sample(map[string]any{"root": name, "root_schema": json.RawMessage(sj), "encoded_values_examples": keys[:3]})
	}
}

// stripUnknown removes members a schema without additionalProperties does not declare: ogen
// ignores them on decode by design, they are not part of the Go value.
func stripUnknown(v any, s M) any {
	s = mergedObject(resolve(s))
	if s == nil {
		return v
	}
	switch x := v.(type) {
	case M:
		props, _ := s["properties"].(M)
		if vs := append(sub(s, "oneOf"), sub(s, "anyOf")...); vs != nil {
			// members declared by no variant are dropped
			props = M{}
			for _, variant := range vs {
				vp, _ := mergedObject(resolve(variant))["properties"].(M)
				for k, ps := range vp {
					props[k] = ps
				}
			}
			if len(props) == 0 {
				return v
			}
		}
		out := M{}
		for k, e := range x {
			if ps, ok := props[k].(M); ok {
				out[k] = stripUnknown(e, ps)
				continue
			}
			switch ap := s["additionalProperties"].(type) {
			case M:
				out[k] = stripUnknown(e, ap)
			case bool:
				if ap {
					out[k] = e
				}
			}
		}
		return out
	case []any:
		items, _ := s["items"].(M)
		out := make([]any, len(x))
		for i, e := range x {
			out[i] = stripUnknown(e, items)
		}
		return out
	}
	return v
}

// violatesOnlyPropertyCounts: the document becomes valid once min/maxProperties are ignored.
func violatesOnlyPropertyCounts(vd *refval.Validator, s M, inst any) bool {
	var strip func(x any) any
	strip = func(x any) any {
		switch m := x.(type) {
		case M:
			out := M{}
			for k, v := range m {
				if k != "minProperties" && k != "maxProperties" {
					out[k] = strip(v)
				}
			}
			return out
		case []any:
			out := make([]any, len(m))
			for i, v := range m {
				out[i] = strip(v)
			}
			return out
		}
		return x
	}
	relaxed := &refval.Validator{Components: strip(vd.Components).(M)}
	// without the counts the document is valid, or its validity is one the reference does not decide
	// (1e21 against multipleOf 0.5): either way the counts are the only definite reason
	ok, amb := relaxed.Valid(strip(s).(M), inst)
	return ok || amb
}

func hasKey(s any, key string) bool {
	switch x := s.(type) {
	case M:
		if _, ok := x[key]; ok {
			return true
		}
		for _, v := range x {
			if hasKey(v, key) {
				return true
			}
		}
	case []any:
		for _, v := range x {
			if hasKey(v, key) {
				return true
			}
		}
	}
	return false
}

func hasDefault(s any) bool {
	switch x := s.(type) {
	case M:
		if _, ok := x["default"]; ok {
			return true
		}
		for _, v := range x {
			if hasDefault(v) {
				return true
			}
		}
	case []any:
		for _, v := range x {
			if hasDefault(v) {
				return true
			}
		}
	}
	return false
}

// isRawJSON: empty (nothing to write) or one well-formed JSON value.
func isRawJSON(b []byte) bool {
	return len(b) == 0 || json.Valid(b)
}
