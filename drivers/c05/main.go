//go:build verifdriver

// Driver of C05 (runs in the scratch module next to the regenerated routers).
package main

import (
	"context"
	"fmt"
	"net/http"
	"net/http/httptest"
	"net/url"
	"runtime"
	"sort"
	"strings"
	"sync"

	"github.com/ogen-go/ogen/middleware"

	"scratch/drv"
)

var bg = context.Background()

type find func(method string, u *url.URL) (string, []string, bool)

type entry struct {
	id        int
	templates []string
	mk        func(m middleware.Middleware, prefix string) (http.Handler, find)
}

type part struct {
	static string
	param  string
}

func parseT(t string) []part {
	var out []part
	for t != "" {
		i := strings.IndexByte(t, '{')
		if i < 0 {
			out = append(out, part{static: t})
			break
		}
		if i > 0 {
			out = append(out, part{static: t[:i]})
		}
		j := strings.IndexByte(t, '}')
		out = append(out, part{param: t[i+1 : j]})
		t = t[j+1:]
	}
	return out
}

// matches: all argument lists under which the template equals the path.
// strict (stops == nil): a parameter is [^/]*.
// lenient: the i-th parameter stops at the first byte of stops[i] (the heads of the static text that
// follows this parameter node in any template of the set: exactly the generated router's "tails");
// a parameter without tails is [^/]*. This is the router's intended matching rule; it differs from
// the strict one precisely when the tails do not contain '/'.
func matches(ps []part, path string, stops [][]byte) [][]string {
	return matchesAt(ps, path, stops, 0)
}

func matchesAt(ps []part, path string, stops [][]byte, k int) [][]string {
	if len(ps) == 0 {
		if path == "" {
			return [][]string{{}}
		}
		return nil
	}
	p := ps[0]
	if p.static != "" {
		if strings.HasPrefix(path, p.static) {
			return matchesAt(ps[1:], path[len(p.static):], stops, k)
		}
		return nil
	}
	stop := []byte{'/'}
	if stops != nil && len(stops[k]) > 0 {
		stop = stops[k]
	}
	var out [][]string
	for l := 0; l <= len(path); l++ {
		if l > 0 && strings.IndexByte(string(stop), path[l-1]) >= 0 {
			break
		}
		for _, rest := range matchesAt(ps[1:], path[l:], stops, k+1) {
			out = append(out, append([]string{path[:l]}, rest...))
		}
	}
	return out
}

// nodeKey: the template text before the k-th parameter with parameter names erased.
func nodeKeys(ps []part) []string {
	var keys []string
	var sb strings.Builder
	for _, p := range ps {
		if p.param != "" {
			keys = append(keys, sb.String())
			sb.WriteString("{}")
		} else {
			sb.WriteString(p.static)
		}
	}
	return keys
}

// tailsOf computes, for every parameter of every template, the router's tails of its node.
func tailsOf(parsed [][]part) [][][]byte {
	node := map[string]map[byte]bool{}
	for _, ps := range parsed {
		keys := nodeKeys(ps)
		k := 0
		for j, p := range ps {
			if p.param == "" {
				continue
			}
			if node[keys[k]] == nil {
				node[keys[k]] = map[byte]bool{}
			}
			if j+1 < len(ps) && ps[j+1].static != "" {
				node[keys[k]][ps[j+1].static[0]] = true
			}
			k++
		}
	}
	out := make([][][]byte, len(parsed))
	for i, ps := range parsed {
		for _, key := range nodeKeys(ps) {
			var bs []byte
			for b := range node[key] {
				bs = append(bs, b)
			}
			out[i] = append(out[i], bs)
		}
	}
	return out
}

func inst(ps []part, args []string) string {
	var sb strings.Builder
	i := 0
	for _, p := range ps {
		if p.static != "" {
			sb.WriteString(p.static)
		} else {
			sb.WriteString(args[i])
			i++
		}
	}
	return sb.String()
}

func nparams(ps []part) int {
	n := 0
	for _, p := range ps {
		if p.param != "" {
			n++
		}
	}
	return n
}

// moreSpecificOrEqual: t2 may legitimately win over t1 (static text where t1 has a parameter at
// the first differing position, or incomparable).
func moreSpecificOrEqual(t1, t2 string) bool {
	a, b := t1, t2
	for a != "" && b != "" {
		if a[0] == '{' && b[0] == '{' {
			a = a[strings.IndexByte(a, '}')+1:]
			b = b[strings.IndexByte(b, '}')+1:]
			continue
		}
		if a[0] == '{' {
			return true
		}
		if b[0] == '{' {
			return false
		}
		if a[0] != b[0] {
			return true
		}
		a, b = a[1:], b[1:]
	}
	return true
}

func methodsOf(i, n int) []string {
	switch {
	case i == 0:
		return []string{"GET", "POST"}
	case i == n-1:
		return []string{"GET", "PUT"}
	}
	return []string{"GET"}
}

func has(list []string, s string) bool {
	for _, x := range list {
		if x == s {
			return true
		}
	}
	return false
}

// reference normalizer (same as C12's oracle)
func refNormalize(s string) (string, bool) {
	const hex = "0123456789ABCDEF"
	isHex := func(c byte) bool { return c >= '0' && c <= '9' || c >= 'a' && c <= 'f' || c >= 'A' && c <= 'F' }
	hv := func(c byte) byte {
		switch {
		case c >= '0' && c <= '9':
			return c - '0'
		case c >= 'a' && c <= 'f':
			return c - 'a' + 10
		}
		return c - 'A' + 10
	}
	var b strings.Builder
	for i := 0; i < len(s); i++ {
		if s[i] != '%' {
			b.WriteByte(s[i])
			continue
		}
		if i+2 >= len(s) || !isHex(s[i+1]) || !isHex(s[i+2]) {
			return "", false
		}
		o := hv(s[i+1])<<4 | hv(s[i+2])
		if o >= 'a' && o <= 'z' || o >= 'A' && o <= 'Z' || o >= '0' && o <= '9' || o == '-' || o == '_' || o == '.' || o == '~' {
			b.WriteByte(o)
		} else {
			b.WriteByte('%')
			b.WriteByte(hex[o>>4])
			b.WriteByte(hex[o&15])
		}
		i += 2
	}
	return b.String(), true
}

type kase struct {
	Templates []string `json:"templates"`
	Prefix    string   `json:"prefix"`
	Method    string   `json:"method"`
	Path      string   `json:"path"`
	Observed  string   `json:"observed"`
	Expected  string   `json:"expected"`
}

type obs struct {
	status  int
	op      string // operation name seen by the middleware, "" if none
	params  map[string]string
	allow   string
	reached int // template index, -1 none, -2 some operation reached but parameter decoding failed (400)
	method  string
	pan     string
}

func serve(srv http.Handler, method, rawurl string, gotOp *string, gotParams *map[string]string) obs {
	*gotOp, *gotParams = "", nil
	u, err := url.Parse(rawurl)
	if err != nil {
		return obs{status: -1, reached: -1}
	}
	req := &http.Request{Method: method, URL: u, Proto: "HTTP/1.1", ProtoMajor: 1, ProtoMinor: 1, Header: http.Header{}, Body: http.NoBody, Host: "x", RequestURI: u.RequestURI(), RemoteAddr: "192.0.2.1:1234"}
	req = req.WithContext(bg)
	rec := httptest.NewRecorder()
	var o obs
	func() {
		defer func() {
			if r := recover(); r != nil {
				o.pan = fmt.Sprint(r)
			}
		}()
		srv.ServeHTTP(rec, req)
	}()
	o.status = rec.Code
	o.op = *gotOp
	o.params = *gotParams
	o.allow = rec.Header().Get("Allow")
	o.reached = -1
	if o.op != "" {
		var idx int
		var m string
		// operation names are Op<idx><method>
		rest := strings.TrimPrefix(o.op, "Op")
		n, _ := fmt.Sscanf(rest, "%d%s", &idx, &m)
		if n == 2 {
			o.reached, o.method = idx, strings.ToUpper(m)
		}
	} else if rec.Code == 400 {
		o.reached = -2
	}
	return o
}

func allowSet(s string) []string {
	var out []string
	for _, m := range strings.Split(s, ",") {
		if m = strings.TrimSpace(m); m != "" {
			out = append(out, m)
		}
	}
	sort.Strings(out)
	return out
}

func sameSet(a, b []string) bool {
	a, b = append([]string{}, a...), append([]string{}, b...)
	sort.Strings(a)
	sort.Strings(b)
	return strings.Join(a, ",") == strings.Join(b, ",")
}

func reEscape(arg string) string { return strings.ReplaceAll(arg, "/", "%2F") }

func isUnreserved(c byte) bool {
	return c >= 'a' && c <= 'z' || c >= 'A' && c <= 'Z' || c >= '0' && c <= '9' || c == '-' || c == '_' || c == '.' || c == '~'
}

func checkEntry(e entry) {
	var gotOp string
	var gotParams map[string]string
	mw := func(req middleware.Request, next middleware.Next) (middleware.Response, error) {
		gotOp = req.OperationName
		gotParams = map[string]string{}
		for k, v := range req.Params {
			if s, ok := v.(string); ok {
				gotParams[k.Name] = s
			}
		}
		return middleware.Response{}, fmt.Errorf("stop")
	}
	n := len(e.templates)
	parsed := make([][]part, n)
	statics := map[string]bool{"v": true}
	follow := map[byte]bool{'/': true}
	for i, t := range e.templates {
		parsed[i] = parseT(t)
		for _, seg := range strings.Split(t, "/") {
			for _, p := range parseT(seg) {
				if p.static != "" {
					statics[p.static] = true
				}
			}
		}
		for j, p := range parsed[i] {
			if p.param != "" && j+1 < len(parsed[i]) && parsed[i][j+1].static != "" {
				follow[parsed[i][j+1].static[0]] = true
			}
		}
	}
	tails := tailsOf(parsed)
	var vals []string
	for s := range statics {
		vals = append(vals, s)
	}
	sort.Strings(vals)
	instVals := append(append([]string{}, vals...), "", "v%2Fw")
	// an argument holding, escaped, the reserved byte that ends the parameter in some template
	var reservedFollow []byte
	for c := range follow {
		if c != '/' && !isUnreserved(c) && c != '%' && c != '{' {
			reservedFollow = append(reservedFollow, c)
		}
	}
	sort.Slice(reservedFollow, func(i, j int) bool { return reservedFollow[i] < reservedFollow[j] })
	for _, c := range reservedFollow {
		instVals = append(instVals, fmt.Sprintf("v%%%02Xw", c))
	}
	// a parameter is searched for the first byte of the text behind it, on the escaped path when
	// RawPath is set: when that byte is a hex digit, arguments whose escapes hold hex digits
	hexFollow := false
	for c := range follow {
		// the router sees normalized escapes: upper-case hex digits only
		if c >= '0' && c <= '9' || c >= 'A' && c <= 'F' {
			hexFollow = true
		}
	}
	maxParams := 0
	for _, ps := range parsed {
		if k := nparams(ps); k > maxParams {
			maxParams = k
		}
	}
	if hexFollow && maxParams <= 2 { // every value is crossed with every other per parameter: small templates only
		instVals = append(instVals, "v%20w", "v%C3%A9", "%2A")
	} else {
		hexFollow = false
	}
	paths := map[string]bool{}
	instances := map[string]bool{}
	for _, ps := range parsed {
		k := nparams(ps)
		args := make([]string, k)
		var rec func(i int)
		rec = func(i int) {
			if i == k {
				p := inst(ps, args)
				paths[p] = true
				instances[p] = true
				return
			}
			for _, v := range instVals {
				args[i] = v
				rec(i + 1)
			}
		}
		rec(0)
	}
	// near misses: an instance with the reserved delimiter escaped is another path (RFC 3986 6.2.2.2:
	// a reserved character and its escape are not equivalent)
	for p := range instances {
		for _, c := range reservedFollow {
			if strings.IndexByte(p, c) >= 0 {
				paths[strings.ReplaceAll(p, string(c), fmt.Sprintf("%%%02X", c))] = true
			}
		}
	}
	segTexts := append(append([]string{}, vals...), "")
	cur := []string{""}
	for d := 0; d < 3; d++ {
		var next []string
		for _, c := range cur {
			for _, s := range segTexts {
				next = append(next, c+"/"+s)
			}
		}
		for _, p := range next {
			paths[p] = true
			paths[p+"/"] = true
		}
		cur = next
		if len(cur) > 300 {
			break
		}
	}
	report := func(class string, lenientOK bool, prefix, method, path string, o obs, expected string) {
		attrs := map[string]string{"class": class}
		if lenientOK {
			attrs["consistent_with_lenient_matcher"] = "true"
		}
		// the request escapes exactly what net/url would (RawPath stays empty) and one of the escapes
		// stands for a reserved byte: the router is handed the decoded path only
		if u, err := url.Parse("http://x" + path); err == nil && u.RawPath == "" && strings.Contains(path, "%") {
			if norm, ok := refNormalize(path); ok && norm != u.Path {
				attrs["go_canonical_spelling_with_escaped_reserved_byte"] = "true"
			}
		}
		// the byte that ends a parameter occurs as a hex digit of an escape in the (normalized) path
		if norm, ok := refNormalize(path); ok && hexFollow {
			for i := 0; i+2 < len(norm); i++ {
				if norm[i] == '%' {
					if follow[norm[i+1]] || follow[norm[i+2]] {
						attrs["follow_byte_is_a_hex_digit_of_an_escape"] = "true"
					}
					i += 2
				}
			}
		}
		drv.Violation(attrs, len(path)+10*len(e.templates)+len(strings.Join(e.templates, "")),
			kase{e.templates, prefix, method, path, fmt.Sprintf("status=%d op=%q args=%v allow=%q panic=%q", o.status, o.op, o.params, o.allow, o.pan), expected})
	}
	var evals, nontriv int64
	for _, prefix := range []string{"", "/api"} {
		srv, fp := e.mk(mw, prefix)
		judge := func(method, raw string) obs {
			evals++
			o := serve(srv, method, "http://x"+prefix+raw, &gotOp, &gotParams)
			path, okN := refNormalize(raw)
			if !okN {
				path = raw
			}
			if o.pan != "" {
				report("panic", false, prefix, method, raw, o, "no panic")
				return o
			}
			var strictM, lenientM []int
			for i, ps := range parsed {
				if len(matches(ps, path, nil)) > 0 {
					strictM = append(strictM, i)
				}
				if len(matches(ps, path, tails[i])) > 0 {
					lenientM = append(lenientM, i)
				}
			}
			if len(strictM) > 0 {
				nontriv++
			}
			switch {
			case o.reached >= 0:
				if o.reached >= n {
					report("S1-unknown-operation", false, prefix, method, raw, o, "")
					break
				}
				ps := parsed[o.reached]
				var args []string
				slash := false
				for _, p := range ps {
					if p.param != "" {
						a := o.params[p.param]
						args = append(args, reEscape(a))
					}
				}
				// an argument holding "/" that did not come from %2F
				rawArgsOK := false
				for _, cand := range matches(ps, path, nil) {
					if strings.Join(cand, "\x00") == strings.Join(args, "\x00") {
						rawArgsOK = true
					}
				}
				if o.method != method || !has(methodsOf(o.reached, n), method) {
					report("S1-wrong-method-reached", false, prefix, method, raw, o, "method of the request")
				}
				if !rawArgsOK {
					// lenient: does the template instantiate to the path with the observed args when
					// slashes are allowed inside parameters that have a non-slash static tail?
					lenientOK := false
					for _, cand := range matches(ps, path, tails[o.reached]) {
						// observed args are decoded; candidates are raw: compare decoded forms
						dec := make([]string, len(cand))
						for i, c := range cand {
							if u, err := url.PathUnescape(c); err == nil {
								dec[i] = u
							} else {
								dec[i] = c
							}
						}
						var obsArgs []string
						for _, p := range ps {
							if p.param != "" {
								obsArgs = append(obsArgs, o.params[p.param])
							}
						}
						if strings.Join(dec, "\x00") == strings.Join(obsArgs, "\x00") {
							lenientOK = true
						}
					}
					for _, a := range args {
						if strings.Contains(a, "/") {
							slash = true
						}
					}
					cl := "S1-template-with-args-differs-from-path"
					if slash || lenientOK {
						cl = "S1-argument-contains-unescaped-slash"
					}
					report(cl, lenientOK, prefix, method, raw, o, "path == template instantiated with the arguments, no unescaped '/' in arguments")
				}
				// S2
				for i, t := range e.templates {
					if t == path && !strings.Contains(t, "{") && i != o.reached {
						report("S2-static-template-not-preferred", false, prefix, method, raw, o, "operation of "+t)
					}
				}
				// S3 (specificity): the reached template must be the clean-instance one or more specific
				for _, i := range strictM {
					if i == o.reached || !has(methodsOf(i, n), method) {
						continue
					}
					for _, cand := range matches(parsed[i], path, nil) {
						if clean(cand, follow) && !moreSpecificOrEqual(e.templates[i], e.templates[o.reached]) {
							report("S3-less-specific-template-served", false, prefix, method, raw, o, "template "+e.templates[i]+" or a more specific one")
						}
					}
				}
			case o.reached == -2:
				if len(strictM) == 0 {
					report("S4-400-for-path-matching-no-template", len(lenientM) > 0, prefix, method, raw, o, "404")
				}
			default:
				switch o.status {
				case 404:
					for _, i := range strictM {
						for _, cand := range matches(parsed[i], path, nil) {
							if clean(cand, follow) {
								report("S3-clean-instance-got-404", false, prefix, method, raw, o, fmt.Sprintf("template %s with args %q (or a more specific one)", e.templates[i], cand))
							}
						}
					}
				case 405:
					if len(strictM) == 0 {
						report("S5-405-for-path-matching-no-template", len(lenientM) > 0, prefix, method, raw, o, "404")
					} else {
						okAllow := false
						for _, i := range strictM {
							if sameSet(allowSet(o.allow), methodsOf(i, n)) && !has(methodsOf(i, n), method) {
								okAllow = true
							}
						}
						if !okAllow {
							report("S5-Allow-header-is-not-the-defined-methods", false, prefix, method, raw, o, "Allow == methods of a matching template that lacks this method")
						}
					}
				default:
					report(fmt.Sprintf("unexpected-status-%d", o.status), false, prefix, method, raw, o, "404 or 405")
				}
				// a static template equal to the path with the method defined must be served
				for i, t := range e.templates {
					if t == path && !strings.Contains(t, "{") && has(methodsOf(i, n), method) {
						report("S2-static-template-not-served", false, prefix, method, raw, o, "operation of "+t)
					}
				}
			}
			// S6: FindPath agrees with serving
			u, err := url.Parse("http://x" + prefix + raw)
			if err == nil {
				name, fargs, ok := func() (nm string, a []string, k bool) {
					defer func() {
						if r := recover(); r != nil {
							report("panic-in-FindPath", false, prefix, method, raw, o, fmt.Sprint(r))
						}
					}()
					return fp(method, u)
				}()
				served := o.reached != -1
				switch {
				case ok != served:
					report("S6-FindPath-disagrees-with-ServeHTTP", false, prefix, method, raw, o, fmt.Sprintf("FindPath ok=%v name=%q args=%q", ok, name, fargs))
				case ok && o.reached >= 0 && name != o.op:
					report("S6-FindPath-finds-another-operation", false, prefix, method, raw, o, fmt.Sprintf("FindPath name=%q args=%q", name, fargs))
				case ok && o.reached >= 0:
					var obsArgs []string
					for _, p := range parsed[o.reached] {
						if p.param != "" {
							obsArgs = append(obsArgs, o.params[p.param])
						}
					}
					if strings.Join(obsArgs, "\x00") != strings.Join(fargs, "\x00") {
						report("S6-FindPath-arguments-differ-from-handler-arguments", false, prefix, method, raw, o, fmt.Sprintf("FindPath args=%q", fargs))
					}
				}
			}
			return o
		}
		for path := range paths {
			for _, method := range []string{"GET", "POST", "PUT", "DELETE"} {
				o := judge(method, path)
				// escaped variants of instance paths (C12 router half): same outcome
				if method == "GET" && instances[path] {
					var pos []int
					for i := 0; i < len(path); i++ {
						if path[i] == '%' {
							i += 2 // an escape that is part of the instance (%2F inside an argument) stays
							continue
						}
						if isUnreserved(path[i]) {
							pos = append(pos, i)
						}
					}
					// the configured prefix spelled with needless escapes: the remainder keeps its meaning
					if prefix != "" {
						for _, ps := range []string{"/%61pi", "/a%70i", "/ap%69", "/%61%70%69"} {
							evals++
							nontriv++
							o2 := serve(srv, method, "http://x"+ps+path, &gotOp, &gotParams)
							if o2.status != o.status || o2.op != o.op || fmt.Sprint(o2.params) != fmt.Sprint(o.params) || o2.pan != "" {
								report("C12-escaped-prefix-served-differently", false, ps, method, path, o2, fmt.Sprintf("same as %s%s: status=%d op=%q args=%v", prefix, path, o.status, o.op, o.params))
							}
						}
					}
					if len(pos) > 4 {
						pos = []int{pos[0], pos[1], pos[len(pos)-2], pos[len(pos)-1]}
					}
					total := 1
					for range pos {
						total *= 3
					}
					for code := 1; code < total; code++ {
						var sb strings.Builder
						c := code
						choice := map[int]int{}
						for _, p := range pos {
							choice[p] = c % 3
							c /= 3
						}
						for i := 0; i < len(path); i++ {
							switch choice[i] {
							case 1:
								fmt.Fprintf(&sb, "%%%02x", path[i])
							case 2:
								fmt.Fprintf(&sb, "%%%02X", path[i])
							default:
								sb.WriteByte(path[i])
							}
						}
						esc := sb.String()
						evals++
						nontriv++
						o2 := serve(srv, method, "http://x"+prefix+esc, &gotOp, &gotParams)
						if o2.status != o.status || o2.op != o.op || fmt.Sprint(o2.params) != fmt.Sprint(o.params) || o2.pan != "" {
							report("C12-escaped-variant-served-differently", false, prefix, method, esc, o2, fmt.Sprintf("same as %s: status=%d op=%q args=%v", path, o.status, o.op, o.params))
						}
					}
				}
			}
		}
		if prefix != "" {
			// without the prefix nothing is routed
			for path := range instances {
				evals++
				o := serve(srv, "GET", "http://x"+path, &gotOp, &gotParams)
				if o.reached != -1 || o.status != 404 {
					report("prefix-ignored", false, prefix, "GET", path, o, "404 (request lacks the configured prefix)")
				}
				if _, _, ok := fp("GET", &url.URL{Path: path}); ok {
					report("prefix-ignored-by-FindPath", false, prefix, "GET", path, o, "not found")
				}
			}
		}
	}
	drv.Eval(evals)
	drv.NontrivialN(nontriv)
	drv.Stat("requests", evals)
	drv.Stat("route_sets_driven", 1)
	if e.id%400 == 7 {
		drv.Sample(map[string]any{"templates": e.templates, "example_request": "GET /api" + firstKey(instances)})
	}
}

func firstKey(m map[string]bool) string {
	var ks []string
	for k := range m {
		ks = append(ks, k)
	}
	sort.Strings(ks)
	if len(ks) == 0 {
		return ""
	}
	return ks[len(ks)/2]
}

func clean(args []string, follow map[byte]bool) bool {
	for _, a := range args {
		if a == "" {
			return false
		}
		for j := 0; j < len(a); j++ {
			if follow[a[j]] || a[j] == '%' {
				return false
			}
		}
	}
	return true
}

// checkEscaped: templates whose static text carries percent-escapes.  Every spelling of a request
// path that normalises (RFC 3986 6.2.2) to an instance of template i must be served by template i
// (GET), by ServeHTTP and by FindPath alike; spellings: each escape of the template in upper-case hex,
// lower-case hex and - for unreserved octets - as the literal character; parameter values plain and
// with an escaped slash.  Requests are built the way net/http builds them (url.ParseRequestURI).
func checkEscaped(e entry) {
	var gotOp string
	var gotParams map[string]string
	mw := func(req middleware.Request, next middleware.Next) (middleware.Response, error) {
		gotOp = req.OperationName
		gotParams = map[string]string{}
		return middleware.Response{}, fmt.Errorf("stop")
	}
	srv, findPath := e.mk(mw, "")
	var evals int64
	for ti, t := range e.templates {
		// spellings of the static text
		spell := []string{""}
		rest := t
		for rest != "" {
			var alts []string
			switch {
			case rest[0] == '%' && len(rest) >= 3:
				esc := rest[:3]
				alts = []string{strings.ToUpper(esc), "%" + strings.ToLower(esc[1:])}
				rest = rest[3:]
			case rest[0] == '{':
				j := strings.IndexByte(rest, '}')
				alts = []string{"val", "v%2Fw", "v%20w"}
				rest = rest[j+1:]
			default:
				alts = []string{rest[:1]}
				if isUnreserved(rest[0]) && rest[0] != '/' {
					alts = append(alts, fmt.Sprintf("%%%02X", rest[0]))
				}
				rest = rest[1:]
			}
			var next []string
			for _, sp := range spell {
				for _, a := range alts {
					next = append(next, sp+a)
				}
			}
			spell = next
			if len(spell) > 4096 {
				spell = spell[:4096]
			}
		}
		for _, target := range spell {
			u, err := url.ParseRequestURI(target)
			if err != nil {
				continue
			}
			evals++
			o := serve(srv, "GET", "http://x"+target, &gotOp, &gotParams)
			goCanonical := fmt.Sprint(u.RawPath == "")
			k := kase{Templates: e.templates, Method: "GET", Path: target, Expected: fmt.Sprintf("served by template %d %s (URL.Path=%q RawPath=%q)", ti, t, u.Path, u.RawPath)}
			if o.pan != "" {
				k.Observed = "panic: " + o.pan
				drv.Violation(map[string]string{"class": "router-panic"}, len(target), k)
				continue
			}
			if o.reached != ti {
				k.Observed = fmt.Sprintf("status %d, operation %q", o.status, o.op)
				drv.Violation(map[string]string{"class": "S7-equivalent-spelling-of-escaped-static-text-not-served", "go_canonical": goCanonical}, len(target), k)
			}
			name, _, ok := findPath("GET", u)
			if (ok && o.reached < 0) || (!ok && o.reached >= 0) || (ok && !strings.EqualFold(name, o.op)) {
				k.Observed = fmt.Sprintf("ServeHTTP reached %q, FindPath says %q %v", o.op, name, ok)
				drv.Violation(map[string]string{"class": "S4-FindPath-disagrees-with-serving/escaped-static", "go_canonical": goCanonical}, len(target), k)
			}
		}
	}
	drv.Eval(evals)
	drv.NontrivialN(evals)
	drv.Stat("escaped_static_requests", evals)
}

// canonNonASCII spells every byte >= 0x80 as an upper-case escape: together with refNormalize this is
// the one form in which templates and requests written with literal or escaped non-ASCII text compare.
func canonNonASCII(s string) string {
	var sb strings.Builder
	for i := 0; i < len(s); i++ {
		if s[i] >= 0x80 {
			fmt.Fprintf(&sb, "%%%02X", s[i])
		} else {
			sb.WriteByte(s[i])
		}
	}
	return sb.String()
}

func hasNonASCII(s string) bool {
	for i := 0; i < len(s); i++ {
		if s[i] >= 0x80 {
			return true
		}
	}
	return false
}

// checkNonASCII: templates whose static text is written with literal non-ASCII characters (possibly
// right behind a parameter, where the router searches for the first byte of that text).  Every
// spelling of an instance - each non-ASCII character of the static text literal, as upper-case and as
// lower-case escapes; parameter values plain, with a literal / escaped non-ASCII character, and with
// a character that shares its first byte with the text behind the parameter - must be served by that
// template (or a more specific matching one) with the decoded values; a path that differs from every
// template in one non-ASCII character must not be served; FindPath agrees.
func checkNonASCII(e entry) {
	var gotOp string
	var gotParams map[string]string
	mw := func(req middleware.Request, next middleware.Next) (middleware.Response, error) {
		gotOp = req.OperationName
		gotParams = map[string]string{}
		for k, v := range req.Params {
			if s, ok := v.(string); ok {
				gotParams[k.Name] = s
			}
		}
		return middleware.Response{}, fmt.Errorf("stop")
	}
	n := len(e.templates)
	parsed := make([][]part, n)  // as written
	canon := make([][]part, n)   // non-ASCII bytes as upper-case escapes
	tailRunes := map[rune]bool{} // characters that directly follow a parameter somewhere in the set
	for i, t := range e.templates {
		parsed[i] = parseT(t)
		for j, p := range parsed[i] {
			cp := p
			cp.static = canonNonASCII(p.static)
			canon[i] = append(canon[i], cp)
			if p.param != "" && j+1 < len(parsed[i]) && parsed[i][j+1].static != "" {
				for _, r := range parsed[i][j+1].static {
					tailRunes[r] = true
					break
				}
			}
		}
	}
	// parameter values (as spelled in the request)
	type val struct {
		spelled string
		lead    bool // holds a character sharing its first byte with a tail character, but not that character
	}
	vals := []val{{"val", false}, {"v\u0436", false}, {"v%D0%B6", false}, {"v%d0%b6", false}, {"v%2Fw", false}}
	for r := range tailRunes {
		if r >= 0x80 && !tailRunes[r+1] {
			vals = append(vals, val{"v" + string(r+1), true}) // U+00E9 -> U+00EA, same first byte
		}
	}
	sort.Slice(vals, func(i, j int) bool { return vals[i].spelled < vals[j].spelled })
	srv, findPath := e.mk(mw, "")
	var evals int64
	judge := func(target string, ti int, lead bool, staticSpelling string, nearMiss bool) {
		u, err := url.ParseRequestURI(target)
		if err != nil {
			return
		}
		evals++
		norm, ok := refNormalize(canonNonASCII(target))
		if !ok {
			return
		}
		var strictM []int
		for i := range canon {
			if len(matches(canon[i], norm, nil)) > 0 {
				strictM = append(strictM, i)
			}
		}
		o := serve(srv, "GET", "http://x"+target, &gotOp, &gotParams)
		attrs := map[string]string{
			"static_text_spelling":              staticSpelling,
			"rawpath_set":                       fmt.Sprint(u.RawPath != ""),
			"value_shares_first_byte_with_tail": fmt.Sprint(lead),
		}
		k := kase{Templates: e.templates, Method: "GET", Path: target}
		k.Observed = fmt.Sprintf("status=%d op=%q args=%v panic=%q (URL.Path=%q RawPath=%q)", o.status, o.op, o.params, o.pan, u.Path, u.RawPath)
		viol := func(class, expected string) {
			a := map[string]string{"class": class}
			for kk, v := range attrs {
				a[kk] = v
			}
			k.Expected = expected
			drv.Violation(a, len(target)+10*len(e.templates), k)
		}
		switch {
		case o.pan != "":
			viol("router-panic", "no panic")
		case len(strictM) == 0:
			if o.reached != -1 {
				viol("S4-non-ascii-near-miss-served", "404: the path matches no template")
			}
		case nearMiss:
			// a near miss that happens to be an instance of another template: only consistency
			if o.reached >= 0 && !has2(strictM, o.reached) {
				viol("S1-non-ascii-template-with-args-differs-from-path", "a template that matches the path")
			}
		default:
			switch {
			case o.reached < 0:
				viol("S3-instance-of-non-ascii-template-not-served", fmt.Sprintf("template %s (or a more specific one)", e.templates[ti]))
			case !has2(strictM, o.reached):
				viol("S1-non-ascii-template-with-args-differs-from-path", "a template that matches the path")
			case o.reached != ti && !moreSpecificOrEqual(e.templates[ti], e.templates[o.reached]):
				viol("S3-less-specific-template-served/non-ascii", fmt.Sprintf("template %s (or a more specific one)", e.templates[ti]))
			default:
				// arguments: decoded forms of one strict match
				var obsArgs []string
				for _, p := range parsed[o.reached] {
					if p.param != "" {
						obsArgs = append(obsArgs, o.params[p.param])
					}
				}
				okArgs := false
				for _, cand := range matches(canon[o.reached], norm, nil) {
					dec := make([]string, len(cand))
					for i, c := range cand {
						dec[i], _ = url.PathUnescape(c)
					}
					if strings.Join(dec, "\x00") == strings.Join(obsArgs, "\x00") {
						okArgs = true
					}
				}
				if !okArgs {
					viol("S1-non-ascii-arguments-differ-from-path", "the decoded values of the request")
				}
			}
		}
		name, _, okF := findPath("GET", u)
		if okF != (o.reached != -1) || (okF && o.reached >= 0 && name != o.op) {
			viol("S6-FindPath-disagrees-with-ServeHTTP/non-ascii", fmt.Sprintf("FindPath ok=%v name=%q", okF, name))
		}
	}
	for ti, t := range e.templates {
		type sp struct{ text, how string }
		spell := []sp{{"", ""}}
		miss := map[string]bool{}
		rest := t
		addAlts := func(alts []sp) {
			var next []sp
			for _, s0 := range spell {
				for _, a := range alts {
					how := s0.how
					if a.how != "" && !strings.Contains(how, a.how) {
						how += a.how
					}
					next = append(next, sp{s0.text + a.text, how})
				}
			}
			spell = next
			if len(spell) > 4096 {
				spell = spell[:4096]
			}
		}
		pos := 0
		type missAt struct {
			at  int
			alt string
		}
		for rest != "" {
			switch {
			case rest[0] == '{':
				j := strings.IndexByte(rest, '}')
				var alts []sp
				for _, v := range vals {
					h := ""
					if v.lead {
						h = "L"
					}
					alts = append(alts, sp{v.spelled, h})
				}
				addAlts(alts)
				rest = rest[j+1:]
			case rest[0] >= 0x80:
				var r rune
				var size int
				for i, rr := range rest {
					if i == 0 {
						r = rr
						size = len(string(rr))
					}
					break
				}
				lit := rest[:size]
				up := canonNonASCII(lit)
				addAlts([]sp{{lit, "l"}, {up, "u"}, {strings.ToLower(up), "w"}})
				// near miss: this character replaced by its successor
				miss[t[:pos]+string(r+1)+t[pos+size:]] = true
				rest = rest[size:]
				pos += size
				continue
			default:
				addAlts([]sp{{rest[:1], ""}})
				rest = rest[1:]
			}
			pos = len(t) - len(rest)
		}
		for _, s0 := range spell {
			how := strings.ReplaceAll(s0.how, "L", "")
			name := map[string]string{"l": "literal", "u": "upper-case-escapes", "w": "lower-case-escapes"}[how]
			switch {
			case how == "":
				name = "literal" // no non-ASCII static text in this template
			case name == "":
				name = "mixed"
			}
			judge(s0.text, ti, strings.Contains(s0.how, "L"), name, false)
		}
		for m := range miss {
			// instantiate parameters of the near-miss template with a plain value
			ps := parseT(m)
			args := make([]string, nparams(ps))
			for i := range args {
				args[i] = "val"
			}
			target := inst(ps, args)
			judge(target, ti, false, "literal", true)
			judge(canonNonASCII(target), ti, false, "upper-case-escapes", true)
		}
	}
	drv.Eval(evals)
	drv.NontrivialN(evals)
	drv.Stat("non_ascii_requests", evals)
	drv.Stat("non_ascii_route_sets_driven", 1)
}

func has2(list []int, x int) bool {
	for _, y := range list {
		if y == x {
			return true
		}
	}
	return false
}

func main() {
	ch := make(chan entry, len(registry))
	var wg sync.WaitGroup
	for w := 0; w < runtime.NumCPU(); w++ {
		wg.Add(1)
		go func() {
			defer wg.Done()
			for e := range ch {
				escaped, nonASCII, styled := false, false, false
				for _, t := range e.templates {
					if strings.Contains(t, "{l_") || strings.Contains(t, "{m_") {
						styled = true
					}
					if strings.Contains(t, "%") {
						escaped = true
					}
					if hasNonASCII(t) {
						nonASCII = true
					}
				}
				switch {
				case styled:
					// label / matrix parameters: generated and compiled, not driven
					drv.Stat("route_sets_with_styled_parameters_compiled_only", 1)
				case escaped:
					checkEscaped(e)
				case nonASCII:
					checkNonASCII(e)
				default:
					checkEntry(e)
				}
			}
		}()
	}
	for _, e := range registry {
		ch <- e
	}
	close(ch)
	wg.Wait()
	drv.Flush()
}
