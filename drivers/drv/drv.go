// Package drv is the reporting side of a driver binary that runs inside the scratch module (next
// to regenerated code). It aggregates violations by (class, key attributes), keeps the smallest
// case of each group, and prints everything as JSON lines for the check binary to fold into its
// verdict (internal/regen.RunDriver).
package drv

import (
	"encoding/json"
	"fmt"
	"os"
	"sort"
	"strings"
	"sync"
)

type group struct {
	Attrs  map[string]string `json:"attrs"`
	Size   int               `json:"size"`
	Detail any               `json:"detail"`
	Count  int64             `json:"count"`
}

var (
	mu      sync.Mutex
	groups  = map[string]*group{}
	stats   = map[string]int64{}
	info    = map[string]any{}
	samples []any
	nontriv = map[string]struct{}{}
	ntN     int64
	evals   int64
)

// Violation records one failing case. attrs must contain "class"; all attrs together form the
// group key, so only put finding-relevant, low-cardinality attributes there; specifics go in detail.
func Violation(attrs map[string]string, size int, detail any) {
	keys := make([]string, 0, len(attrs))
	for k := range attrs {
		keys = append(keys, k)
	}
	sort.Strings(keys)
	var sb strings.Builder
	for _, k := range keys {
		sb.WriteString(k + "=" + attrs[k] + "\x00")
	}
	mu.Lock()
	defer mu.Unlock()
	g := groups[sb.String()]
	if g == nil {
		g = &group{Attrs: attrs, Size: 1 << 30}
		groups[sb.String()] = g
	}
	g.Count++
	if size < g.Size || (size == g.Size && fmt.Sprint(detail) < fmt.Sprint(g.Detail)) {
		g.Size, g.Detail = size, detail
	}
}

func Eval(n int64) { mu.Lock(); evals += n; mu.Unlock() }

func Stat(k string, n int64) { mu.Lock(); stats[k] += n; mu.Unlock() }

func Info(k string, v any) { mu.Lock(); info[k] = v; mu.Unlock() }

func Sample(v any) {
	mu.Lock()
	if len(samples) < 6 {
		samples = append(samples, v)
	}
	mu.Unlock()
}

func Nontrivial(key string) { mu.Lock(); nontriv[key] = struct{}{}; mu.Unlock() }

func NontrivialN(n int64) { mu.Lock(); ntN += n; mu.Unlock() }

// Fatal is a harness error in the driver (never a verdict).
func Fatal(format string, a ...any) {
	fmt.Fprintf(os.Stderr, "DRIVER-HARNESS-ERROR: "+format+"\n", a...)
	os.Exit(3)
}

// Flush prints the aggregated report; call once at the end of main.
func Flush() {
	mu.Lock()
	defer mu.Unlock()
	enc := json.NewEncoder(os.Stdout)
	for _, g := range groups {
		_ = enc.Encode(map[string]any{"kind": "violation", "attrs": g.Attrs, "size": g.Size, "detail": g.Detail, "count": g.Count})
	}
	_ = enc.Encode(map[string]any{"kind": "summary", "evals": evals, "nontrivial": int64(len(nontriv)) + ntN, "stats": stats, "info": info, "samples": samples})
}
