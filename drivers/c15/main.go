//go:build verifdriver

// Driver of C15: single (and pairwise) fault injection into valid requests of a regenerated server.
package main

import (
	"bytes"
	"context"
	"errors"
	"fmt"
	"io"
	"net/http"
	"net/http/httptest"
	"net/url"
	"os"
	"strings"

	ht "github.com/ogen-go/ogen/http"
	"github.com/ogen-go/ogen/middleware"

	"scratch/api"
	"scratch/drv"
)

type handler struct {
	called  *int
	outcome *string
}

func (h handler) PostF(ctx context.Context, req *api.PostFReq) error { *h.called++; return h.err() }
func (h handler) PutO(ctx context.Context, req api.PutOReq) error    { *h.called++; return h.err() }
func (h handler) PostM(ctx context.Context, req *api.PostMReq) error {
	*h.called++
	_, _ = io.ReadAll(req.F.File)
	return h.err()
}
func (h handler) PostV(ctx context.Context, req *api.V, p api.PostVParams) (api.PostVRes, error) {
	*h.called++
	if err := h.err(); err != nil {
		return nil, err
	}
	if *h.outcome == "nil" {
		return nil, nil // a handler that forgets its response: a handler failure, answered 500
	}
	if *h.outcome == "default" {
		return &api.PostVDefStatusCode{StatusCode: 418, Response: api.PostVDef{Msg: "teapot"}}, nil
	}
	return req, nil
}
func (h handler) GetSec(ctx context.Context) error  { *h.called++; return h.err() }
func (h handler) GetSec2(ctx context.Context) error { *h.called++; return h.err() }
func (h handler) err() error {
	switch *h.outcome {
	case "error":
		return errors.New("boom")
	case "notimpl":
		return ht.ErrNotImplemented
	}
	return nil
}

type sec struct{}

func (sec) HandleKey(ctx context.Context, op api.OperationName, t api.Key) (context.Context, error) {
	if t.APIKey == "good" {
		return ctx, nil
	}
	return ctx, errors.New("bad key")
}

func (sec) Key(ctx context.Context, op api.OperationName) (api.Key, error) {
	return api.Key{APIKey: "good"}, nil
}

func (sec) HandleK2(ctx context.Context, op api.OperationName, t api.K2) (context.Context, error) {
	if t.APIKey == "good2" {
		return ctx, nil
	}
	return ctx, errors.New("bad key")
}

func (sec) K2(ctx context.Context, op api.OperationName) (api.K2, error) {
	return api.K2{APIKey: "good2"}, nil
}

type capture struct {
	req  *http.Request
	body []byte
}

func (c *capture) Do(r *http.Request) (*http.Response, error) {
	c.req = r
	c.body = nil
	if r.Body != nil {
		c.body, _ = io.ReadAll(r.Body)
	}
	return nil, errors.New("captured")
}

type countingRecorder struct {
	*httptest.ResponseRecorder
	headerCalls      int
	headerAfterWrite bool
	wrote            bool
}

func (c *countingRecorder) WriteHeader(code int) {
	c.headerCalls++
	if c.wrote {
		c.headerAfterWrite = true
	}
	c.ResponseRecorder.WriteHeader(code)
}

func (c *countingRecorder) Write(b []byte) (int, error) {
	c.wrote = true
	return c.ResponseRecorder.Write(b)
}

type errReader struct {
	data []byte
	at   int
	pos  int
}

func (e *errReader) Read(p []byte) (int, error) {
	if e.pos >= e.at {
		return 0, errors.New("read fault")
	}
	n := copy(p, e.data[e.pos:e.at])
	e.pos += n
	return n, nil
}

// stages in the order the generated handler evaluates them
var stageOrder = map[string]int{"route": 0, "security": 1, "params": 2, "body": 3, "none": 9, "either": 5}

type fault struct {
	pos   string // the part of the request the fault rewrites; faults on the same part do not compose
	name  string
	stage string // route, security, params, body, none (still valid), either (benign: consistency only)
	apply func(r *http.Request, body io.Reader, raw []byte) (*http.Request, io.Reader)
}

func position(name string) string {
	for _, p := range []string{"method", "path", "rawpath", "query", "rawquery", "header", "cookie", "credential", "content-type"} {
		if strings.HasPrefix(name, p) {
			switch p {
			case "rawpath":
				return "path"
			case "rawquery":
				return "query"
			}
			return p
		}
	}
	return name
}

func clone(r *http.Request) *http.Request {
	u := *r.URL
	return &http.Request{Method: r.Method, URL: &u, Header: r.Header.Clone(), Host: r.Host, Proto: "HTTP/1.1", ProtoMajor: 1, ProtoMinor: 1, ContentLength: r.ContentLength, RequestURI: r.URL.RequestURI()}
}

type valid struct {
	name string
	req  *http.Request
	body []byte
}

type kase struct {
	Request  string   `json:"valid_request"`
	Faults   []string `json:"faults"`
	Handler  string   `json:"handler_outcome"`
	Status   int      `json:"status"`
	Called   int      `json:"handler_calls"`
	Expected string   `json:"expected"`
	Body     string   `json:"response_body"`
}

func main() {
	thorough := os.Getenv("VERIF_TIER") == "thorough"
	ctx := context.Background()
	called := 0
	outcome := "ok"
	plainSrv, err := api.NewServer(handler{&called, &outcome}, sec{})
	if err != nil {
		drv.Fatal("NewServer: %v", err)
	}
	// the same server with a middleware that passes everything on: requests and handler outcomes go
	// through middleware.HookMiddleware and the chain instead of the direct call
	mwSrv, err := api.NewServer(handler{&called, &outcome}, sec{}, api.WithMiddleware(func(req middleware.Request, next middleware.Next) (middleware.Response, error) {
		return next(req)
	}))
	if err != nil {
		drv.Fatal("NewServer: %v", err)
	}
	var srv http.Handler = plainSrv
	srvName := "plain"
	capt := &capture{}
	client, err := api.NewClient("http://x", sec{}, api.WithClient(capt))
	if err != nil {
		drv.Fatal("NewClient: %v", err)
	}
	var valids []valid
	grab := func(name string) {
		if capt.req == nil {
			drv.Fatal("client did not produce a request for %s", name)
		}
		// what a real transport would announce (the generated client leaves streaming bodies at 0 = unknown)
		capt.req.ContentLength = int64(len(capt.body))
		valids = append(valids, valid{name, capt.req, capt.body})
		capt.req = nil
	}
	_, _ = client.PostV(ctx, &api.V{S: "abc", N: 1.5, K: []api.V{{S: "k", N: 2}}}, api.PostVParams{ID: 7, Q: []string{"x", "y"}, Oq: api.NewOptInt(3), XH: "hh", Ck: api.NewOptString("c")})
	grab("postV")
	_ = client.PostF(ctx, &api.PostFReq{A: 1, B: api.NewOptString("b")})
	grab("postF")
	_ = client.PutO(ctx, &api.PutOReqApplicationJSON{1, 2})
	grab("putO-json")
	_ = client.PutO(ctx, &api.PutOReqTextPlain{Data: strings.NewReader("hello")})
	grab("putO-text")
	_ = client.PutO(ctx, &api.PutOReqEmptyBody{})
	grab("putO-empty")
	_ = client.PostM(ctx, &api.PostMReq{A: "abc", F: ht.MultipartFile{Name: "f.txt", File: strings.NewReader("file-content")}})
	grab("postM")
	_ = client.GetSec(ctx)
	grab("getSec")
	_ = client.GetSec2(ctx)
	grab("getSec2")
	if capt := valids[len(valids)-1].req; capt.Header.Get("X-Key") == "" || capt.URL.Query().Get("k2") == "" {
		// the client sends the first alternative it can satisfy; the faults below need both credentials on the wire
		q := capt.URL.Query()
		q.Set("k2", "good2")
		capt.URL.RawQuery = q.Encode()
		capt.Header.Set("X-Key", "good")
	}

	var evals, skipped int64
	unknownLength := false // the body length is not announced (chunked transfer): ContentLength -1
	run := func(v valid, fs []fault, hOutcome string) {
		evals++
		called = 0
		outcome = hOutcome
		r := clone(v.req)
		var body io.Reader
		if !(len(v.body) == 0 && v.name == "putO-empty") {
			body = bytes.NewReader(append([]byte(nil), v.body...))
		}
		names := []string{}
		stage := "none"
		for _, f := range fs {
			r, body = f.apply(r, body, append([]byte(nil), v.body...))
			if r == nil {
				evals--
				skipped++
				return // the fault cannot be expressed as a request net/http would deliver
			}
			names = append(names, f.name)
			if stageOrder[f.stage] < stageOrder[stage] {
				stage = f.stage
			}
		}
		// with several faults a benign one makes the whole verdict benign unless an earlier hard stage exists
		for _, f := range fs {
			if f.stage == "either" && stageOrder[stage] > stageOrder["either"] {
				stage = "either"
			}
		}
		if body != nil {
			r.Body = io.NopCloser(body)
			if unknownLength && r.ContentLength > 0 {
				r.ContentLength = -1
				names = append(names, "body length not announced")
			}
		} else {
			r.Body = http.NoBody
		}
		r = r.WithContext(ctx)
		rec := &countingRecorder{ResponseRecorder: httptest.NewRecorder()}
		var pan any
		func() {
			defer func() { pan = recover() }()
			srv.ServeHTTP(rec, r)
		}()
		code := rec.Code
		k := kase{v.name, names, hOutcome, code, called, "", strings.TrimSpace(rec.Body.String())}
		if len(k.Body) > 300 {
			k.Body = k.Body[:300]
		}
		report := func(class, expected string) {
			k.Expected = expected
			drv.Violation(map[string]string{"class": class, "stage": stage, "server": srvName}, len(strings.Join(names, ""))+10*len(names), k)
		}
		if pan != nil {
			k.Body = fmt.Sprint(pan)
			report("panic-escapes-ServeHTTP", "no panic")
			return
		}
		if rec.headerCalls > 1 || rec.headerAfterWrite {
			report("more-than-one-response-written", "exactly one WriteHeader, none after body bytes")
		}
		if rec.headerCalls == 0 && !rec.wrote {
			report("no-response-written", "exactly one response")
		}
		switch stage {
		case "route":
			if (code != 404 && code != 405) || called != 0 {
				report("routing-fault-not-answered-404-or-405", "404/405, handler not invoked")
			}
		case "security":
			if code != 401 || called != 0 {
				report("security-fault-not-answered-401", "401, handler not invoked")
			}
		case "params":
			if code != 400 || called != 0 {
				report("parameter-fault-not-answered-400", "400, handler not invoked")
			}
		case "body":
			if !(code == 400 || code == 415) || called != 0 {
				report("body-fault-not-answered-400-or-415", "400/415, handler not invoked")
			}
		case "none":
			want := map[string]int{"ok": 204, "error": 500, "default": 204, "notimpl": 501, "nil": 204}[hOutcome]
			if v.name == "postV" {
				want = map[string]int{"ok": 200, "error": 500, "default": 418, "notimpl": 501, "nil": 500}[hOutcome]
			}
			if called != 1 || code != want {
				report("valid-request-mishandled", fmt.Sprintf("status %d, handler invoked once", want))
			}
		default:
			if code >= 400 && code < 500 && called != 0 {
				report("4xx-answer-but-handler-ran", "a 4xx answer means the handler was not invoked")
			}
			if code < 400 && called != 1 {
				report("success-answer-without-handler", "a success answer means the handler ran once")
			}
			if code >= 500 && called == 0 && code != 501 {
				report("5xx-answer-for-a-request-fault", "request faults are answered 4xx")
			}
		}
	}
	for _, sv := range []struct {
		name string
		h    http.Handler
	}{{"plain", plainSrv}, {"pass-through middleware", mwSrv}} {
		srv, srvName = sv.h, sv.name
		for _, v := range valids {
			v := v
			var faults []fault
			mut := func(name, stage string, f func(r *http.Request)) {
				faults = append(faults, fault{position(name), name, stage, func(r *http.Request, body io.Reader, raw []byte) (*http.Request, io.Reader) { f(r); return r, body }})
			}
			bodyMut := func(name, stage string, f func(r *http.Request, raw []byte) io.Reader) {
				faults = append(faults, fault{"body", name, stage, func(r *http.Request, body io.Reader, raw []byte) (*http.Request, io.Reader) { return r, f(r, raw) }})
			}
			for _, m := range []string{"GET", "DELETE", strings.ToLower(v.req.Method), "", "PATCH"} {
				m := m
				if m == v.req.Method {
					continue // not a fault for this operation
				}
				mut("method="+m, "route", func(r *http.Request) { r.Method = m })
			}
			for _, p := range []string{"/", "/nope", v.req.URL.Path + "/", v.req.URL.Path + "/x", "/" + strings.Repeat("a", 70000), ""} {
				p := p
				mut("path="+p[:min(len(p), 12)], "route", func(r *http.Request) { r.URL.Path = p; r.URL.RawPath = "" })
			}
			for _, rp := range []string{"/%", "/%zz", "/v/%61%", v.req.URL.Path + "%2F", "/v/%37", "/%2f", v.req.URL.Path + "%"} {
				rp := rp
				mut("rawpath="+rp, "either", func(r *http.Request) {
					r.URL.RawPath = rp
					if un, err := url.PathUnescape(rp); err == nil {
						r.URL.Path = un
					}
				})
			}
			if v.name == "postV" {
				qf := func(name, stage string, m func(q url.Values)) {
					mut("query:"+name, stage, func(r *http.Request) {
						q := r.URL.Query()
						m(q)
						r.URL.RawQuery = q.Encode()
					})
				}
				qf("delete q", "params", func(q url.Values) { q.Del("q") })
				qf("empty q list", "params", func(q url.Values) { q["q"] = []string{} })
				qf("oq=abc", "params", func(q url.Values) { q.Set("oq", "abc") })
				qf("oq=1.5", "params", func(q url.Values) { q.Set("oq", "1.5") })
				qf("oq duplicated", "params", func(q url.Values) { q["oq"] = []string{"1", "2"} })
				qf("oq huge", "params", func(q url.Values) { q.Set("oq", strings.Repeat("9", 64)) })
				qf("oq empty", "either", func(q url.Values) { q.Set("oq", "") })
				qf("delete oq", "none", func(q url.Values) { q.Del("oq") })
				qf("unknown parameter", "none", func(q url.Values) { q.Set("zzz", "1") })
				qf("q 64KiB", "none", func(q url.Values) { q.Set("q", strings.Repeat("q", 65536)) })
				mut("rawquery=%zz", "either", func(r *http.Request) { r.URL.RawQuery = "q=%zz&oq=1" })
				mut("rawquery=a;b", "either", func(r *http.Request) { r.URL.RawQuery = "q=a;b" })
				mut("path id=abc", "params", func(r *http.Request) { r.URL.Path = "/v/abc" })
				mut("path id=0 (below minimum)", "params", func(r *http.Request) { r.URL.Path = "/v/0" })
				mut("path id empty", "either", func(r *http.Request) { r.URL.Path = "/v/" })
				mut("path id huge", "params", func(r *http.Request) { r.URL.Path = "/v/" + strings.Repeat("9", 40) })
				mut("path id=1.0", "params", func(r *http.Request) { r.URL.Path = "/v/1.0" })
				mut("header deleted", "params", func(r *http.Request) { r.Header.Del("X-H") })
				mut("header too short", "params", func(r *http.Request) { r.Header.Set("X-H", "h") })
				mut("header duplicated", "either", func(r *http.Request) { r.Header.Add("X-H", "zz") })
				mut("header 64KiB", "none", func(r *http.Request) { r.Header.Set("X-H", strings.Repeat("h", 65536)) })
				mut("header invalid UTF-8", "either", func(r *http.Request) { r.Header.Set("X-H", "\xff\xfe") })
				mut("cookie malformed escape", "params", func(r *http.Request) { r.Header.Set("Cookie", "ck=%zz") })
				mut("cookie deleted", "none", func(r *http.Request) { r.Header.Del("Cookie") })
				mut("cookie garbage", "either", func(r *http.Request) { r.Header.Set("Cookie", ";;;=;ck") })
				mut("credential missing", "security", func(r *http.Request) { r.Header.Del("X-Key") })
				mut("credential rejected", "security", func(r *http.Request) { r.Header.Set("X-Key", "evil") })
				mut("credential empty", "security", func(r *http.Request) { r.Header.Set("X-Key", "") })
			}
			setQ := func(r *http.Request, k, val string, del bool) {
				q := r.URL.Query()
				if del {
					q.Del(k)
				} else {
					q.Set(k, val)
				}
				r.URL.RawQuery = q.Encode()
			}
			switch v.name {
			case "getSec": // Key AND K2
				mut("credential Key missing", "security", func(r *http.Request) { r.Header.Del("X-Key") })
				mut("credential Key rejected", "security", func(r *http.Request) { r.Header.Set("X-Key", "evil") })
				mut("credential K2 missing", "security", func(r *http.Request) { setQ(r, "k2", "", true) })
				mut("credential K2 rejected", "security", func(r *http.Request) { setQ(r, "k2", "evil", false) })
				mut("credential K2 empty", "security", func(r *http.Request) { setQ(r, "k2", "", false) })
			case "getSec2": // K2 OR Key: one credential missing leaves the other alternative
				mut("credential Key missing", "none", func(r *http.Request) { r.Header.Del("X-Key") })
				mut("credential K2 missing", "none", func(r *http.Request) { setQ(r, "k2", "", true) })
				mut("credential both missing", "security", func(r *http.Request) { r.Header.Del("X-Key"); setQ(r, "k2", "", true) })
			}
			if len(v.body) > 0 {
				isJSON := strings.Contains(v.req.Header.Get("Content-Type"), "json")
				for _, ct := range []string{"", "text/html", "application/json; charset", ";;;", "APPLICATION/JSON", "application/xml", "multipart/form-data"} {
					ct := ct
					st := "body"
					if ct == "APPLICATION/JSON" || (ct == "application/json; charset" && isJSON) {
						st = "either"
					}
					mut("content-type="+ct, st, func(r *http.Request) {
						if ct == "" {
							r.Header.Del("Content-Type")
						} else {
							r.Header.Set("Content-Type", ct)
						}
					})
				}
				step := 1
				if len(v.body) > 400 {
					step = 7
				}
				for cut := 0; cut < len(v.body); cut += step {
					cut := cut
					st := "body"
					if v.name == "putO-text" || v.name == "postF" || v.name == "postM" {
						st = "either" // a prefix of text / a form may still be a valid body
					}
					if cut == 0 && strings.HasPrefix(v.name, "putO") {
						st = "either" // optional body: zero length means "no body"
					}
					bodyMut(fmt.Sprintf("truncate@%d", cut), st, func(r *http.Request, raw []byte) io.Reader {
						r.ContentLength = int64(cut)
						return bytes.NewReader(raw[:cut])
					})
					bodyMut(fmt.Sprintf("read-error@%d", cut), "either", func(r *http.Request, raw []byte) io.Reader {
						return &errReader{data: raw, at: cut}
					})
				}
				bodyMut("content-length larger than body", "either", func(r *http.Request, raw []byte) io.Reader {
					r.ContentLength = int64(len(raw) + 10)
					return bytes.NewReader(raw)
				})
				// an announced length is the peer's claim, not a bound on what arrives: nothing may size
				// memory from it
				for _, huge := range []int64{1 << 31, 1 << 62, 1<<63 - 1} {
					huge := huge
					bodyMut(fmt.Sprintf("content-length %d announced", huge), "either", func(r *http.Request, raw []byte) io.Reader {
						r.ContentLength = huge
						return bytes.NewReader(raw)
					})
				}
				bodyMut("content-length unknown", "none", func(r *http.Request, raw []byte) io.Reader {
					r.ContentLength = -1
					return bytes.NewReader(raw)
				})
				if isJSON {
					for _, tail := range []string{"x", "{}", "]", ",", " 1"} {
						tail := tail
						bodyMut("trailing "+tail, "body", func(r *http.Request, raw []byte) io.Reader {
							nb := append(raw, tail...)
							r.ContentLength = int64(len(nb))
							return bytes.NewReader(nb)
						})
					}
					bodyMut("trailing whitespace", "none", func(r *http.Request, raw []byte) io.Reader {
						nb := append(raw, " \n\t"...)
						r.ContentLength = int64(len(nb))
						return bytes.NewReader(nb)
					})
					for _, repl := range [][2]string{{`"abc"`, `1`}, {`1.5`, `"x"`}, {`1.5`, `0.3`}, {`"abc"`, `"ABC"`}, {`"s"`, `"zz"`}, {`{`, `{"extra":1,`}, {`"s":"abc"`, `"s":"abc","s":"abd"`}, {`1.5`, `null`}, {`[1,2]`, `[1,2,3,4]`}, {`[1,2]`, `[1,"a"]`}, {`[1,2]`, `{}`}, {`"k":[`, `"k":[null,`}, {`"n":1.5`, `"n":1.5e400`}, {`"abc"`, `"abc\ud800"`}} {
						repl := repl
						if !bytes.Contains(v.body, []byte(repl[0])) {
							continue
						}
						st := "body"
						if strings.Contains(repl[1], `"s":"abd"`) {
							st = "either" // duplicate member: no agreed meaning
						}
						bodyMut("json "+repl[0]+" -> "+repl[1], st, func(r *http.Request, raw []byte) io.Reader {
							nb := bytes.Replace(raw, []byte(repl[0]), []byte(repl[1]), 1)
							r.ContentLength = int64(len(nb))
							return bytes.NewReader(nb)
						})
					}
					bodyMut("100000-deep nesting", "body", func(r *http.Request, raw []byte) io.Reader {
						nb := []byte(strings.Repeat("[", 100000))
						r.ContentLength = int64(len(nb))
						return bytes.NewReader(nb)
					})
				}
				nilStage := "body"
				if strings.HasPrefix(v.name, "putO") {
					nilStage = "either"
				}
				bodyMut("nil body", nilStage, func(r *http.Request, raw []byte) io.Reader { r.ContentLength = 0; return nil })
			}
			// ---- text sweeps: every string up to a length over a hostile alphabet, at every textual
			// position of the request (consistency oracle: no panic, one response, 4xx <=> handler not
			// invoked, no 5xx for a request fault).  The hand-written menu above carries one malformed
			// escape per position; a seeded out-of-range read needed "valid escape, then a truncated one".
			var sweeps []fault
			sweepLen := 4
			if thorough {
				sweepLen = 5
			}
			words := func(alpha string, n int) []string {
				out := []string{""}
				cur := []string{""}
				for l := 0; l < n; l++ {
					var next []string
					for _, c := range cur {
						for i := 0; i < len(alpha); i++ {
							next = append(next, c+alpha[i:i+1])
						}
					}
					out = append(out, next...)
					cur = next
				}
				return out
			}
			sweep := func(pos, alpha string, n int, f func(r *http.Request, w string) bool) {
				for _, w := range words(alpha, n) {
					w := w
					sweeps = append(sweeps, fault{pos, fmt.Sprintf("sweep %s %q", pos, w), "either", func(r *http.Request, body io.Reader, raw []byte) (*http.Request, io.Reader) {
						if !f(r, w) {
							return nil, body
						}
						return r, body
					}})
				}
			}
			const esc = "%41z;= \"+,"
			if v.name == "postV" {
				sweep("cookie", esc, sweepLen, func(r *http.Request, w string) bool { r.Header.Set("Cookie", "ck="+w); return true })
				sweep("cookie-pair", "ck=;% 4\"", sweepLen+1, func(r *http.Request, w string) bool { r.Header.Set("Cookie", w); return true })
				sweep("rawquery-q", esc+"&", sweepLen, func(r *http.Request, w string) bool { r.URL.RawQuery = "q=" + w + "&oq=1"; return true })
				sweep("rawquery-oq", "%3120-+ e.", sweepLen, func(r *http.Request, w string) bool { r.URL.RawQuery = "q=a&oq=" + w; return true })
				sweep("rawquery", "qo=&%4;a", sweepLen+1, func(r *http.Request, w string) bool { r.URL.RawQuery = w; return true })
				sweep("rawpath", "%3721/.z", sweepLen+1, func(r *http.Request, w string) bool {
					// only what net/http would hand to a handler: the request target must parse
					u, err := url.ParseRequestURI("/v/" + w)
					if err != nil {
						return false
					}
					r.URL.Path, r.URL.RawPath = u.Path, u.RawPath
					return true
				})
				sweep("header", "h \t\xff,;\"%", sweepLen, func(r *http.Request, w string) bool { r.Header.Set("X-H", w); return true })
				sweep("credential", "ok ,%\x00", sweepLen, func(r *http.Request, w string) bool { r.Header.Set("X-Key", w); return true })
			}
			if len(v.body) > 0 {
				ct := v.req.Header.Get("Content-Type")
				if i := strings.IndexByte(ct, ';'); i >= 0 {
					ct = ct[:i]
				}
				sweep("content-type-suffix", "; =\"/,ac*", sweepLen, func(r *http.Request, w string) bool { r.Header.Set("Content-Type", ct+w); return true })
				sweep("content-type", "aj/;+* ", sweepLen, func(r *http.Request, w string) bool { r.Header.Set("Content-Type", w); return true })
			}
			bodySweep := func(pos, alpha string, n int) {
				for _, w := range words(alpha, n) {
					w := w
					sweeps = append(sweeps, fault{pos, fmt.Sprintf("sweep %s %q", pos, w), "either", func(r *http.Request, body io.Reader, raw []byte) (*http.Request, io.Reader) {
						r.ContentLength = int64(len(w))
						return r, strings.NewReader(w)
					}})
				}
			}
			switch v.name {
			case "putO-json":
				bodySweep("json-body", "[]1,\" {}-.e\\nu", sweepLen+1)
			case "postF":
				bodySweep("form-body", "ab=&%41+;", sweepLen+1)
			case "putO-text":
				bodySweep("text-body", "a\xff\x00\n", sweepLen)
			}
			for _, f := range sweeps {
				run(v, []fault{f}, "ok")
			}
			drv.Stat("sweep_requests_for_"+v.name, int64(len(sweeps)))
			run(v, nil, "ok")
			for _, ho := range []string{"error", "default", "notimpl", "nil"} {
				run(v, nil, ho)
			}
			for _, f := range faults {
				outs := []string{"ok"}
				if f.stage == "none" {
					outs = []string{"ok", "error", "default", "notimpl", "nil"}
				}
				for _, ho := range outs {
					run(v, []fault{f}, ho)
				}
			}
			// the same faults when the length of the body is not announced: every fault that does not
			// itself concern the body bytes or their length
			if len(v.body) > 0 {
				unknownLength = true
				run(v, nil, "ok")
				for _, f := range faults {
					if f.pos != "body" {
						run(v, []fault{f}, "ok")
					}
				}
				unknownLength = false
			}
			if thorough {
				for i, a := range faults {
					for _, b := range faults[i+1:] {
						if a.pos == b.pos || a.stage == b.stage || a.stage == "either" || b.stage == "either" {
							continue
						}
						// body faults that replace the reader do not compose with each other; different stages only
						run(v, []fault{a, b}, "ok")
					}
				}
			}
			drv.Stat("faults_for_"+v.name, int64(len(faults)))
		}
	}
	drv.Eval(evals)
	drv.NontrivialN(evals)
	drv.Stat("requests", evals)
	drv.Stat("sweep_words_not_deliverable_by_net_http", skipped)
	drv.Sample(map[string]any{"valid_request": "postV", "faults": []string{"truncate@17"}, "expected": "400/415, handler not invoked"})
	drv.Sample(map[string]any{"valid_request": "postV", "faults": []string{"credential rejected", "json 1.5 -> \"x\""}, "expected": "401 (earliest stage), handler not invoked"})
	drv.Flush()
}
