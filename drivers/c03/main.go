//go:build verifdriver

// Driver of C03: full product schema x instance pool on the regenerated server.
package main

import (
	"bytes"
	"context"
	_ "embed"
	"encoding/json"
	"flag"
	"fmt"
	"net/http"
	"net/http/httptest"
	"net/url"
	"os"
	"regexp"
	"runtime"
	"strconv"
	"strings"
	"sync"

	"github.com/ogen-go/ogen/middleware"

	"scratch/api"
	"scratch/drv"
	"scratch/refval"
)

//go:embed schemas.json
var schemasJSON []byte

type M = map[string]any

type entry struct {
	ID       int    `json:"id"`
	Kind     string `json:"kind"`
	Schema   M      `json:"schema"`
	Method   string `json:"method"`
	At       string `json:"at"`
	In       string `json:"in"`
	Style    string `json:"style"`
	Explode  bool   `json:"explode"`
	Required bool   `json:"required"`
}

// members of an object-shaped parameter instance, in the order they are written
type member struct{ name, text string }

// objInstances: every subset of {p, q} with valid and invalid texts per member (no member at all is
// the absent parameter and is sent separately).
func objInstances() [][]member {
	ps := []string{"", "0", "5", "6", "x"}
	qs := []string{"", "a", "ab", "abc"}
	var out [][]member
	for _, p := range ps {
		for _, q := range qs {
			var ms []member
			if p != "" {
				ms = append(ms, member{"p", p})
			}
			if q != "" {
				ms = append(ms, member{"q", q})
			}
			if len(ms) > 0 {
				out = append(out, ms)
				if len(ms) == 2 {
					out = append(out, []member{ms[1], ms[0]})
				}
			}
		}
	}
	return out
}

// renderObj: the request that carries the members in the given cell (OpenAPI 3.0.3 style table).
func renderObj(e entry, ms []member) (rawurl string, hdr http.Header) {
	hdr = http.Header{}
	at := fmt.Sprintf("http://x/o%d", e.ID)
	var flat, kv []string
	for _, m := range ms {
		flat = append(flat, m.name, m.text)
		kv = append(kv, m.name+"="+m.text)
	}
	switch e.In {
	case "query":
		switch {
		case e.Style == "deepObject":
			var qs []string
			for _, m := range ms {
				qs = append(qs, "v%5B"+m.name+"%5D="+m.text)
			}
			return at + "?" + strings.Join(qs, "&"), hdr
		case e.Explode:
			return at + "?" + strings.Join(kv, "&"), hdr
		default:
			return at + "?v=" + strings.Join(flat, ","), hdr
		}
	case "header":
		if e.Explode {
			hdr.Set("V", strings.Join(kv, ","))
		} else {
			hdr.Set("V", strings.Join(flat, ","))
		}
		return at, hdr
	case "cookie":
		hdr.Set("Cookie", "v="+strings.Join(flat, ","))
		return at, hdr
	default: // path
		if e.Explode {
			return at + "/" + strings.Join(kv, ","), hdr
		}
		return at + "/" + strings.Join(flat, ","), hdr
	}
}

var pool = []string{`null`, `true`, `false`, `0`, `1`, `2`, `3`, `4`, `5`, `6`, `10`, `-1`, `-2`, `-5`, `0.5`, `1.5`, `2.5`, `-0.5`, `-1.5`, `1.0`, `2e0`, `0.25`, `0.75`, `1e2`, `2.0000001`, `9007199254740993`,
	`""`, `"a"`, `"b"`, `"ab"`, `"ba"`, `"abc"`, `"aa"`, `"bab"`, `"é"`, `"éé"`, `"ééé"`, `"aé"`, `"1"`, `"true"`, `"null"`, `" a"`, `"a\nb"`, `"ab\n"`,
	`[]`, `[0]`, `[1]`, `[6]`, `[-1]`, `[0,1]`, `[1,1]`, `[0,1,2]`, `[1,1.0]`, `["a"]`, `["a","b"]`, `["a","a"]`, `["a","b","a"]`, `["abc"]`, `[""]`, `[true]`, `[true,false]`, `[true,true]`, `[null]`, `[null,null]`, `["a",null]`, `[0.5]`, `[0.5,0.5]`, `[0.5,1]`, `[1,"a"]`, `[[]]`, `[[0]]`, `[[0,1]]`, `[[0],[0]]`, `[[[0]]]`, `[[["a"]]]`, `[{}]`, `[{"p":1}]`, `[{"p":9}]`, `[{"p":"a"}]`, `[{"p":1},{"p":2},{"p":3}]`, `[{"p":1,"x":1}]`,
	`{}`, `{"p":0}`, `{"p":5}`, `{"p":6}`, `{"p":"a"}`, `{"p":"abc"}`, `{"p":true}`, `{"p":null}`, `{"p":0.5}`, `{"q":"a"}`, `{"q":""}`, `{"q":"abc"}`, `{"q":true}`, `{"q":null}`, `{"q":1}`, `{"q":0.5}`,
	`{"p":0,"q":"a"}`, `{"p":"a","q":"a"}`, `{"p":true,"q":true}`, `{"p":true,"q":"a"}`, `{"p":0,"q":"a","z":true}`, `{"p":0,"z":1}`, `{"z":1}`, `{"z":"x"}`, `{"z":-1}`, `{"z":true}`, `{"a":1,"b":2}`, `{"a":1,"b":2,"c":3}`, `{"a":-1}`, `{"a":"x"}`, `{"a":true}`, `{"a":[1]}`, `{"a":[]}`, `{"a":{"p":1}}`, `{"a":{}}`, `{"a":{"p":1},"b":{"p":2}}`,
	`{"p":{"q":1}}`, `{"p":{"q":9}}`, `{"p":{"q":"a"}}`, `{"p":{"q":1,"x":2}}`, `{"p":{}}`, `{"p":[]}`, `{"p":[1]}`, `{"p":[1,1]}`, `{"p":[9]}`, `{"p":["a"]}`, `{"p":["a","b"]}`, `{"p":["abc"]}`, `{"p":[""]}`, `{"p":[true]}`, `{"p":[true,true]}`, `{"p":[1,2,3]}`,
	`{"v":1}`, `{"v":1,"kids":[]}`, `{"v":1,"kids":[{"v":2}]}`, `{"v":1,"kids":[{"v":9}]}`, `{"v":1,"kids":[{"v":2},{"v":3},{"v":4}]}`, `{"v":1,"kids":[{"v":2,"kids":[{"v":3,"x":1}]}]}`, `{"kids":[]}`, `{"v":1,"kids":null}`,
	`{"kind":"cat","p":1}`, `{"kind":"dog","q":"a"}`, `{"kind":"cat","q":"a"}`, `{"kind":"cat","p":9}`, `{"kind":"bird","p":1}`, `{"p":1,"kind":"cat"}`, `{"kind":"dog","q":"abc"}`, `{"kind":"cat"}`, `{"kind":1,"p":1}`,
	`{"f0":1,"f1":1,"f2":1,"f3":1,"f4":1,"f5":1,"f6":1,"f7":1,"f8":1}`, `{"f0":1,"f1":1,"f2":1,"f3":1,"f4":1,"f5":1,"f6":1,"f7":1}`, `{"f1":1,"f2":1,"f3":1,"f4":1,"f5":1,"f6":1,"f7":1,"f8":1}`, `{"f8":1}`, `{"f0":1,"f1":1,"f2":1,"f3":1,"f4":1,"f5":1,"f6":1,"f8":1}`, `{"f0":1,"f1":1,"f2":1,"f3":1,"f4":1,"f5":1,"f6":1,"f7":1,"f8":"x"}`,
}

// texts for parameter operations
var paramTexts = []string{"0", "1", "2", "3", "4", "5", "6", "10", "-1", "-2", "-5", "0.5", "1.5", "2.5", "-0.5", "-1.5", "1.0", "2e0", "0.25", "0.75", "1e2", "true", "false", "a", "b", "ab", "ba", "abc", "aa", "bab", "é", "éé", "ééé", "aé", "x", "1a", "null"}

type kase struct {
	Kind     string `json:"kind"`
	Schema   M      `json:"schema"`
	Instance string `json:"instance"`
	Want     string `json:"reference_verdict"`
	Status   int    `json:"status"`
	Handler  bool   `json:"handler_reached"`
	Body     string `json:"response_body"`
}

var bg = context.Background()

var numberLiteral = regexp.MustCompile(`^-?(0|[1-9][0-9]*)(\.[0-9]+)?([eE][+-]?[0-9]+)?$`)

type server struct {
	h       http.Handler
	handled *bool
}

func newServer() server {
	handled := new(bool)
	mw := func(req middleware.Request, next middleware.Next) (middleware.Response, error) {
		*handled = true
		return next(req)
	}
	srv, err := api.NewServer(api.UnimplementedHandler{}, api.WithMiddleware(mw))
	if err != nil {
		drv.Fatal("NewServer: %v", err)
	}
	return server{srv, handled}
}

func (s server) do(method, rawurl string, hdr http.Header, body string) (status int, handled bool, respBody string, pan any) {
	u, err := url.Parse(rawurl)
	if err != nil {
		return -1, false, "", nil
	}
	req := &http.Request{Method: method, URL: u, Proto: "HTTP/1.1", ProtoMajor: 1, ProtoMinor: 1, Header: hdr, Host: "x", RequestURI: u.RequestURI()}
	if body != "" || method == "POST" {
		req.Body = readCloser{strings.NewReader(body)}
		req.ContentLength = int64(len(body))
	} else {
		req.Body = http.NoBody
	}
	req = req.WithContext(bg)
	rec := httptest.NewRecorder()
	*s.handled = false
	func() {
		defer func() { pan = recover() }()
		s.h.ServeHTTP(rec, req)
	}()
	return rec.Code, *s.handled, strings.TrimSpace(rec.Body.String()), pan
}

type readCloser struct{ *strings.Reader }

func (readCloser) Close() error { return nil }

func schemaKind(s M) string {
	for _, k := range []string{"oneOf", "anyOf", "allOf", "$ref"} {
		if _, ok := s[k]; ok {
			return k
		}
	}
	t, _ := s["type"].(string)
	if s["nullable"] == true {
		t += "+nullable"
	}
	return t
}

func main() {
	pairsOut := flag.String("pairs", "", "write (schema, instance, reference verdict) for the python cross-check")
	onlySchema := flag.String("only-schema", "", "replay: schema JSON")
	onlyKind := flag.String("only-kind", "", "replay: kind")
	onlyInst := flag.String("only-instance", "", "replay: instance")
	flag.Parse()
	var reg struct {
		Entries    []entry `json:"entries"`
		Components M       `json:"components"`
	}
	d := json.NewDecoder(bytes.NewReader(schemasJSON))
	d.UseNumber()
	if err := d.Decode(&reg); err != nil {
		drv.Fatal("schemas.json: %v", err)
	}
	vd := &refval.Validator{Components: reg.Components}
	type pairRec struct {
		ID        int      `json:"id"`
		Schema    M        `json:"schema"`
		Instances [][2]any `json:"instances"`
	}
	var pairMu sync.Mutex
	var pairs []pairRec
	ch := make(chan entry, len(reg.Entries))
	var wg sync.WaitGroup
	for w := 0; w < runtime.NumCPU(); w++ {
		wg.Add(1)
		go func() {
			defer wg.Done()
			srv := newServer()
			for e := range ch {
				var evals, nontriv, amb, validN, invalidN, derived int64
				rec := pairRec{ID: e.ID, Schema: e.Schema}
				if e.Kind == "objparam" {
					checkObjParam(srv, vd, e)
					continue
				}
				texts := pool
				if e.Kind != "body" {
					texts = paramTexts
				}
				// schema-directed candidates (bounds, lengths, counts, multiples, member variations) on top of the universal pool
				have := map[string]bool{}
				for _, t := range texts {
					have[t] = true
				}
				texts = append([]string{}, texts...)
				for _, c := range vd.Candidates(e.Schema, 4) {
					var t string
					if e.Kind == "body" {
						b, err := json.Marshal(c)
						if err != nil {
							continue
						}
						t = string(b)
					} else {
						switch x := c.(type) {
						case json.Number:
							t = string(x)
						case string:
							t = x
						case bool:
							t = strconv.FormatBool(x)
						default:
							continue
						}
						if t == "" || strings.ContainsAny(t, "\n\r") {
							continue
						}
					}
					if !have[t] {
						have[t] = true
						texts = append(texts, t)
						derived++
					}
				}
				if *onlyInst != "" {
					texts = []string{*onlyInst}
				}
				for _, inst := range texts {
					evals++
					var want, ambiguous bool
					var status int
					var handled bool
					var respBody string
					var pan any
					switch e.Kind {
					case "body":
						v, err := refval.Decode(inst)
						if err != nil {
							drv.Fatal("pool instance %q: %v", inst, err)
						}
						want, ambiguous = vd.Valid(e.Schema, v)
						if vd.MixedVariantMembers(e.Schema, v) || vd.DiscriminatorDisagrees(e.Schema, v, want) || vd.SeveralVariantsMatch(e.Schema, v) || (want && vd.MemberPointsAtAnotherVariant(e.Schema, v)) {
							ambiguous = true
						}
						if !ambiguous {
							rec.Instances = append(rec.Instances, [2]any{inst, want})
						}
						status, handled, respBody, pan = srv.do("POST", fmt.Sprintf("http://x/b%d", e.ID), http.Header{"Content-Type": {"application/json"}}, inst)
					default:
						// the text form of a parameter: numbers/booleans are their JSON literal, strings are raw
						var v any
						switch e.Schema["type"] {
						case "integer", "number":
							if numberLiteral.MatchString(inst) {
								v = json.Number(inst)
							}
							if v == nil {
								want, ambiguous = false, false
							} else {
								want, ambiguous = vd.Valid(e.Schema, v)
							}
						case "boolean":
							want = inst == "true" || inst == "false"
							// other spellings strconv.ParseBool accepts (1, t, TRUE, ...) are a text-form
							// question, not a schema question: outside the oracle
							if _, err := strconv.ParseBool(inst); err == nil && !want {
								ambiguous = true
							}
						default:
							want, ambiguous = vd.Valid(e.Schema, inst)
						}
						switch e.Kind {
						case "query":
							method, at := "GET", fmt.Sprintf("/q%d", e.ID)
							if e.At != "" {
								method, at = e.Method, e.At
							}
							status, handled, respBody, pan = srv.do(method, fmt.Sprintf("http://x%s?v=%s", at, url.QueryEscape(inst)), http.Header{}, "")
						case "path":
							status, handled, respBody, pan = srv.do("GET", fmt.Sprintf("http://x/p%d/%s", e.ID, url.PathEscape(inst)), http.Header{}, "")
						case "header":
							status, handled, respBody, pan = srv.do("GET", fmt.Sprintf("http://x/h%d", e.ID), http.Header{"V": {inst}}, "")
						}
					}
					if ambiguous {
						amb++
						continue
					}
					nontriv++
					if want {
						validN++
					} else {
						invalidN++
					}
					accepted := status == 501
					cl := ""
					switch {
					case pan != nil:
						cl = "server-panic"
						respBody = fmt.Sprint(pan)
					case accepted != handled:
						cl = "status-and-handler-flag-disagree"
					case accepted && !want:
						cl = "invalid-instance-reached-the-handler"
					case !accepted && want:
						cl = "valid-instance-refused"
					case !accepted && (status < 400 || status > 499):
						cl = "refusal-is-not-4xx"
					}
					if cl != "" {
						sj, _ := json.Marshal(e.Schema)
						attrs := map[string]string{"class": cl + "/" + e.Kind + "/" + schemaKind(e.Schema), "verdict": cl, "in": e.Kind, "schema_kind": schemaKind(e.Schema)}
						// what the schema combines (matchers of recorded findings name the combination)
						for _, trait := range vd.Traits(e.Schema) {
							attrs[trait] = "true"
						}
						if strings.Contains(respBody, "unable to detect sum type variant") {
							attrs["refusal"] = "no-member-to-detect-the-variant-by"
						}
						if strings.Contains(respBody, "multiple oneOf matches") {
							attrs["refusal"] = "several-variants-matched-by-member"
						}
						if vs := append(refsOf(e.Schema["oneOf"]), refsOf(e.Schema["anyOf"])...); len(vs) > 0 {
							attrs["variants"] = strings.Join(vs, ",")
						}
						drv.Violation(attrs,
							len(sj)+len(inst), kase{e.Kind, e.Schema, inst, fmt.Sprint("valid=", want), status, handled, respBody})
					}
				}
				drv.Eval(evals)
				drv.NontrivialN(nontriv)
				drv.Stat("ambiguous_pairs_outside_oracle", amb)
				drv.Stat("schema_directed_instances", derived)
				drv.Stat("pairs_reference_valid", validN)
				drv.Stat("pairs_reference_invalid", invalidN)
				drv.Stat(e.Kind+"_operations", 1)
				if len(rec.Instances) > 0 {
					pairMu.Lock()
					pairs = append(pairs, rec)
					pairMu.Unlock()
				}
				if e.ID%97 == 3 {
					sj, _ := json.Marshal(e.Schema)
					drv.Sample(map[string]any{"in": e.Kind, "schema": json.RawMessage(sj), "instance_example": texts[len(texts)/3]})
				}
			}
		}()
	}
	for _, e := range reg.Entries {
		if *onlySchema != "" {
			sj, _ := json.Marshal(e.Schema)
			var a, b any
			_ = json.Unmarshal(sj, &a)
			_ = json.Unmarshal([]byte(*onlySchema), &b)
			ja, _ := json.Marshal(a)
			jb, _ := json.Marshal(b)
			if !bytes.Equal(ja, jb) || e.Kind != *onlyKind {
				continue
			}
		}
		ch <- e
	}
	close(ch)
	wg.Wait()
	if *pairsOut != "" {
		b, _ := json.Marshal(M{"components": reg.Components, "pairs": pairs})
		_ = os.WriteFile(*pairsOut, b, 0o644)
	}
	drv.Flush()
}

// checkObjParam: an object-shaped parameter in one cell, every subset of its members and no member.
func checkObjParam(srv server, vd *refval.Validator, e entry) {
	var evals int64
	cell := fmt.Sprintf("%s/%s/explode=%v", e.In, e.Style, e.Explode)
	judge := func(ms []member, want bool, inst string) {
		evals++
		u, hdr := renderObj(e, ms)
		if ms == nil {
			u, hdr = fmt.Sprintf("http://x/o%d", e.ID), http.Header{}
		}
		status, handled, respBody, pan := srv.do("GET", u, hdr, "")
		accepted := status == 501
		cl := ""
		switch {
		case pan != nil:
			cl = "server-panic"
			respBody = fmt.Sprint(pan)
		case accepted != handled:
			cl = "status-and-handler-flag-disagree"
		case accepted && !want:
			cl = "invalid-instance-reached-the-handler"
		case !accepted && want:
			cl = "valid-instance-refused"
		case !accepted && (status < 400 || status > 499):
			cl = "refusal-is-not-4xx"
		}
		if cl != "" {
			sj, _ := json.Marshal(e.Schema)
			drv.Violation(map[string]string{"class": cl + "/object-parameter/" + cell, "verdict": cl, "in": e.In, "cell": cell, "parameter_required": fmt.Sprint(e.Required), "schema_kind": "object-parameter"},
				len(sj)+len(inst), kase{"objparam " + cell + fmt.Sprintf(" required=%v", e.Required), e.Schema, inst, fmt.Sprint("valid=", want), status, handled, respBody})
		}
	}
	if e.In != "path" {
		judge(nil, !e.Required, "(parameter absent)")
	}
	for _, ms := range objInstances() {
		obj := M{}
		for _, m := range ms {
			if m.name == "p" {
				if numberLiteral.MatchString(m.text) {
					obj["p"] = json.Number(m.text)
				} else {
					obj["p"] = m.text // not a number: wrong type
				}
			} else {
				obj[m.name] = m.text
			}
		}
		want, ambiguous := vd.Valid(e.Schema, obj)
		if ambiguous {
			continue
		}
		b, _ := json.Marshal(obj)
		judge(ms, want, string(b))
	}
	drv.Eval(evals)
	drv.NontrivialN(evals)
	drv.Stat("object_parameter_requests", evals)
	drv.Stat("object_parameter_operations", 1)
}

// refsOf: names of the referenced variants of a sum, in order.
func refsOf(x any) []string {
	var out []string
	l, _ := x.([]any)
	for _, v := range l {
		if m, ok := v.(map[string]any); ok {
			if ref, ok := m["$ref"].(string); ok {
				out = append(out, ref[strings.LastIndex(ref, "/")+1:])
			}
		}
	}
	return out
}
