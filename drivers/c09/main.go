//go:build verifdriver

// Driver of C09: outcome vectors on the regenerated server, credential equality through the client.
package main

import (
	"context"
	"encoding/json"
	"flag"
	"fmt"
	"net/http"
	"net/http/httptest"
	"net/url"
	"reflect"
	"sort"
	"strings"

	"github.com/ogen-go/ogen/middleware"

	"scratch/api"
	"scratch/drv"
)

type scheme struct {
	Name string `json:"name"`
	Kind string `json:"kind"`
	Par  string `json:"par"`
}

type alt struct {
	Schemes []int      `json:"schemes"`
	Scopes  [][]string `json:"scopes"`
}

type opDesc struct {
	ID       string `json:"id"`
	Alts     []alt  `json:"alts"`
	Inherits bool   `json:"inherits_global"`
}

type direct struct {
	srv  http.Handler
	code *int
}

func (d direct) Do(r *http.Request) (*http.Response, error) {
	rec := httptest.NewRecorder()
	d.srv.ServeHTTP(rec, r)
	*d.code = rec.Code
	return rec.Result(), nil
}

type kase struct {
	Op       string            `json:"operation"`
	Alts     [][]string        `json:"alternatives"`
	Vector   []string          `json:"vector"`
	Schemes  []string          `json:"schemes_of_vector"`
	Status   int               `json:"status"`
	Handled  bool              `json:"handler_invoked"`
	Want     string            `json:"model"`
	Given    map[string]string `json:"credentials_given,omitempty"`
	Seen     map[string]string `json:"credentials_seen,omitempty"`
	Scopes   []string          `json:"scopes_seen,omitempty"`
	WantScop []string          `json:"scopes_of_operation,omitempty"`
}

var outcomes = []string{"absent", "ok", "skip", "bad"}

func isAuthz(k string) bool { return k == "basic" || k == "bearer" || k == "oauth2" }

func main() {
	onlyOp := flag.String("only-op", "", "replay: one operation")
	flag.Parse()
	var spec struct {
		Ops     []opDesc `json:"ops"`
		Schemes []scheme `json:"schemes"`
		Variant string   `json:"variant"`
	}
	if err := json.Unmarshal([]byte(api.VerifSpecJSON), &spec); err != nil {
		drv.Fatal("spec: %v", err)
	}
	sec := &api.VerifSec{}
	handled := false
	mw := func(req middleware.Request, next middleware.Next) (middleware.Response, error) {
		handled = true
		return next(req)
	}
	srv, err := api.NewServer(api.VerifHandler{}, sec, api.WithMiddleware(mw))
	if err != nil {
		drv.Fatal("NewServer: %v", err)
	}
	code := 0
	client, err := api.NewClient("http://x", sec, api.WithClient(direct{srv, &code}))
	if err != nil {
		drv.Fatal("NewClient: %v", err)
	}
	cv := reflect.ValueOf(client)
	ctx := reflect.ValueOf(context.Background())
	reset := func() {
		sec.Give, sec.Seen, sec.SeenScopes, sec.SeenOp, sec.Calls = map[string]string{}, map[string]string{}, map[string][]string{}, map[string]string{}, 0
		handled, code = false, 0
	}
	cred := func(kind, outcome string) string {
		if kind == "basic" {
			return outcome + "\x00pw:" + outcome
		}
		return outcome + "-token"
	}
	present := func(req *http.Request, q url.Values, s scheme, v string) {
		switch s.Kind {
		case "hdr":
			req.Header.Set(s.Par, v)
		case "qry":
			q.Set(s.Par, v)
		case "ck":
			req.AddCookie(&http.Cookie{Name: s.Par, Value: v})
		case "basic":
			u, p, _ := strings.Cut(v, "\x00")
			req.SetBasicAuth(u, p)
		default:
			req.Header.Set("Authorization", "Bearer "+v)
		}
	}
	var evals, nontriv, hardWithSat int64
	for _, op := range spec.Ops {
		if *onlyOp != "" && op.ID != *onlyOp {
			continue
		}
		used := map[int]bool{}
		var altNames [][]string
		scopesOf := map[int][]string{}
		dead := make([]bool, len(op.Alts)) // alternatives with a scheme the generator cannot implement: never satisfiable
		live := map[int]bool{}             // schemes of the other alternatives
		for ai, a := range op.Alts {
			for _, s := range a.Schemes {
				if spec.Schemes[s].Kind == "unsupported" {
					dead[ai] = true
				}
			}
			if !dead[ai] {
				for _, s := range a.Schemes {
					live[s] = true
				}
			}
		}
		// schemes of an alternative are visited in name order; the supported ones before the first
		// unimplemented one are known to the generator when it gives the alternative up
		leftover := false
		for _, a := range op.Alts {
			firstDead := ""
			for _, s := range a.Schemes {
				if n := spec.Schemes[s].Name; spec.Schemes[s].Kind == "unsupported" && (firstDead == "" || n < firstDead) {
					firstDead = n
				}
			}
			for _, s := range a.Schemes {
				if firstDead != "" && spec.Schemes[s].Kind != "unsupported" && spec.Schemes[s].Name < firstDead {
					leftover = true
				}
			}
		}
		allDead := len(op.Alts) > 0
		for _, d := range dead {
			allDead = allDead && d
		}
		for _, a := range op.Alts {
			var names []string
			for j, s := range a.Schemes {
				if spec.Schemes[s].Kind != "unsupported" {
					used[s] = true
				}
				names = append(names, spec.Schemes[s].Name)
				if a.Scopes != nil && j < len(a.Scopes) && a.Scopes[j] != nil {
					scopesOf[s] = append(scopesOf[s], a.Scopes[j]...)
				}
			}
			altNames = append(altNames, names)
		}
		var idx []int
		for s := range used {
			idx = append(idx, s)
		}
		sort.Ints(idx)
		var idxNames []string
		for _, s := range idx {
			idxNames = append(idxNames, spec.Schemes[s].Name)
		}
		var vectors [][]string
		if len(idx) <= 4 {
			n := 1
			for range idx {
				n *= 4
			}
			for v := 0; v < n; v++ {
				vec := make([]string, len(idx))
				x := v
				for i := range idx {
					vec[i] = outcomes[x%4]
					x /= 4
				}
				vectors = append(vectors, vec)
			}
		} else {
			if len(idx) <= 11 {
				// every accepted/absent subset
				for m := 0; m < 1<<len(idx); m++ {
					vec := make([]string, len(idx))
					for j := range vec {
						vec[j] = "absent"
						if m&(1<<j) != 0 {
							vec[j] = "ok"
						}
					}
					vectors = append(vectors, vec)
				}
			} else {
				// every vector with at most 3 accepted schemes, and every vector with at most 2 not accepted
				for _, pr := range [][2]string{{"absent", "ok"}, {"ok", "absent"}, {"ok", "skip"}} {
					lim := 3
					if pr[0] == "ok" {
						lim = 2
					}
					var rec func(from, left int, vec []string)
					rec = func(from, left int, vec []string) {
						vectors = append(vectors, append([]string{}, vec...))
						if left == 0 {
							return
						}
						for j := from; j < len(vec); j++ {
							vec[j] = pr[1]
							rec(j+1, left-1, vec)
							vec[j] = pr[0]
						}
					}
					vec := make([]string, len(idx))
					for j := range vec {
						vec[j] = pr[0]
					}
					rec(0, lim, vec)
				}
			}
			for _, baseO := range []string{"absent", "ok", "skip"} {
				for i := range idx {
					for _, o := range outcomes {
						vec := make([]string, len(idx))
						for j := range vec {
							vec[j] = baseO
						}
						vec[i] = o
						vectors = append(vectors, vec)
					}
				}
			}
			for _, lo := range []int{6, 7, 14, 15} {
				for _, o1 := range outcomes {
					for _, o2 := range outcomes {
						for _, o3 := range outcomes {
							vec := make([]string, len(idx))
							for j := range vec {
								vec[j] = "absent"
							}
							for j, s := range idx {
								switch s {
								case lo:
									vec[j] = o1
								case lo + 1:
									vec[j] = o2
								case lo + 2:
									vec[j] = o3
								}
							}
							vectors = append(vectors, vec)
						}
					}
				}
			}
		}
		for _, vec := range vectors {
			state := map[int]string{}
			authz := 0
			anyPresented := false
			for i, s := range idx {
				state[s] = vec[i]
				if vec[i] != "absent" {
					anyPresented = true
					if isAuthz(spec.Schemes[s].Kind) {
						authz++
					}
				}
			}
			// schemes that read the same credential (two bearer schemes: one Authorization header)
			// cannot be presented independently: their outcomes are tied
			tied, distinctAuthz := true, map[string]bool{}
			for _, s := range idx {
				if !isAuthz(spec.Schemes[s].Kind) {
					continue
				}
				ch := spec.Schemes[s].Kind
				if ch == "oauth2" {
					ch = "bearer"
				}
				if state[s] != "absent" {
					distinctAuthz[ch] = true
				}
				for _, s2 := range idx {
					k2 := spec.Schemes[s2].Kind
					if k2 == "oauth2" {
						k2 = "bearer"
					}
					if s2 != s && k2 == ch && state[s2] != state[s] {
						tied = false
					}
				}
			}
			if !tied || len(distinctAuthz) > 1 {
				continue
			}
			_ = authz
			evals++
			if anyPresented {
				nontriv++
			}
			reset()
			req := httptest.NewRequest("GET", "http://x/"+op.ID, nil)
			q := req.URL.Query()
			for _, s := range idx {
				if state[s] != "absent" {
					present(req, q, spec.Schemes[s], cred(spec.Schemes[s].Kind, state[s]))
				}
			}
			req.URL.RawQuery = q.Encode()
			rec := httptest.NewRecorder()
			var pan any
			func() {
				defer func() { pan = recover() }()
				srv.ServeHTTP(rec, req)
			}()
			code = rec.Code
			anyBad, badOnlyDead, sat := false, false, len(op.Alts) == 0
			for _, s := range idx {
				if state[s] == "bad" {
					if live[s] {
						anyBad = true
					} else {
						badOnlyDead = true
					}
				}
			}
			for ai, a := range op.Alts {
				all := !dead[ai]
				for _, s := range a.Schemes {
					if state[s] != "ok" {
						all = false
					}
				}
				if all {
					sat = true
				}
			}
			if anyBad && sat {
				hardWithSat++
			}
			want := sat && !anyBad
			k := kase{Op: op.ID, Alts: altNames, Vector: vec, Schemes: idxNames, Status: code, Handled: handled, Want: fmt.Sprintf("satisfied=%v hard_reject=%v => handler=%v", sat, anyBad, want)}
			size := len(idx)*4 + len(op.Alts)
			report := func(class string) {
				drv.Violation(map[string]string{"class": class}, size, k)
			}
			if allDead {
				k.Want += " (every alternative needs a scheme the generator does not implement)"
			}
			switch {
			case pan != nil:
				k.Want = fmt.Sprint("panic: ", pan)
				report("server-panic")
			case want && badOnlyDead:
				// a hard reject from a scheme that only unimplementable alternatives name: whether the
				// server still consults it is not fixed by the property
			case handled && allDead:
				drv.Violation(map[string]string{"class": "handler-invoked-although-no-alternative-is-satisfied", "structure": "every-alternative-needs-an-unimplemented-scheme", "supported_scheme_seen_before_the_unimplemented_one": fmt.Sprint(leftover), "presented": fmt.Sprint(anyPresented)}, size, k)
			case handled && !want && anyBad:
				report("handler-invoked-despite-hard-reject")
			case handled && !want:
				report("handler-invoked-although-no-alternative-is-satisfied")
			case !handled && want:
				report("refused-although-an-alternative-is-satisfied")
			}
			if !handled && code != 401 && pan == nil {
				report(fmt.Sprintf("refused-with-status-%d-instead-of-401", code))
			}
			if handled && code != 501 {
				report(fmt.Sprintf("handler-invoked-but-status-%d", code))
			}
			// what the SecurityHandler saw is what was presented, for the operation it was asked about
			for name, v := range sec.Seen {
				var kind string
				var si int
				for i, s := range spec.Schemes {
					if s.Name == name {
						kind, si = s.Kind, i
					}
				}
				if v != cred(kind, state[si]) {
					k.Seen = sec.Seen
					report("server-extracted-a-different-credential")
				}
				if !strings.EqualFold(sec.SeenOp[name], op.ID) {
					k.Seen = map[string]string{"operation_name_passed": sec.SeenOp[name]}
					report("security-handler-called-with-another-operation-name")
				}
				if kind == "oauth2" {
					ws := append([]string{}, scopesOf[si]...)
					gs := append([]string{}, sec.SeenScopes[name]...)
					sort.Strings(ws)
					sort.Strings(gs)
					if strings.Join(ws, ",") != strings.Join(gs, ",") {
						k.Scopes, k.WantScop = gs, ws
						report("oauth2-scopes-differ-from-the-operation's")
					}
				}
			}
		}
	}

	// ----- client half: credential equality
	core := []string{"ok", "ok.b-c_d~e", "okABCxyz0189", "ok+/=", "ok=="}
	extended := []string{"ok with space", "ok;semi", "ok\"quote", "ok,comma", "ok%41", "ok%", "okünï", "ok&x=y", "ok#frag", "ok\\back", "ok\ttab"}
	for _, op := range spec.Ops {
		if *onlyOp != "" && op.ID != *onlyOp {
			continue
		}
		if len(op.Alts) != 1 || len(op.Alts[0].Schemes) != 1 {
			continue
		}
		si := op.Alts[0].Schemes[0]
		s := spec.Schemes[si]
		if s.Kind == "unsupported" {
			continue
		}
		m := cv.MethodByName(strings.ToUpper(op.ID[:1]) + op.ID[1:])
		if !m.IsValid() {
			drv.Fatal("client has no method for %s", op.ID)
		}
		try := func(v, class string) {
			evals++
			nontriv++
			reset()
			sec.Give[s.Name] = v
			var pan any
			var callErr error
			func() {
				defer func() { pan = recover() }()
				out := m.Call([]reflect.Value{ctx})
				if e, ok := out[len(out)-1].Interface().(error); ok {
					callErr = e
				}
			}()
			k := kase{Op: op.ID, Schemes: []string{s.Name}, Status: code, Handled: handled, Given: map[string]string{s.Name: v}, Seen: sec.Seen}
			seen, was := sec.Seen[s.Name]
			attrs := map[string]string{"kind": s.Kind, "value_class": class}
			switch {
			case pan != nil:
				attrs["class"] = "client-or-server-panic"
				k.Want = fmt.Sprint(pan)
				drv.Violation(attrs, len(v), k)
			case was && seen != v:
				attrs["class"] = "credential-altered-between-client-and-server/" + s.Kind + "/" + class
				drv.Violation(attrs, len(v), k)
			case !was && class == "core" && callErr != nil && code == 0:
				attrs["class"] = "core-credential-refused-by-client/" + s.Kind
				k.Want = callErr.Error()
				drv.Violation(attrs, len(v), k)
			case !was && class == "core":
				attrs["class"] = "core-credential-never-reached-the-security-handler/" + s.Kind
				drv.Violation(attrs, len(v), k)
			case !was:
				drv.Stat("extended_credentials_refused_or_dropped_"+s.Kind, 1)
			}
			if was && !handled {
				attrs["class"] = "accepted-credential-but-handler-not-invoked/" + s.Kind
				drv.Violation(attrs, len(v), k)
			}
		}
		mk := func(v string) string {
			if s.Kind == "basic" {
				return v + "\x00pw:" + v // password with a colon
			}
			return v
		}
		for _, v := range core {
			try(mk(v), "core")
		}
		for _, v := range extended {
			try(mk(v), "extended")
		}
		if s.Kind == "basic" {
			try("ok\x00", "core") // empty password
			try("okü\x00pä", "extended")
		}
	}
	// multi-scheme operations through the client: every scheme of the first alternative is delivered
	for _, op := range spec.Ops {
		if *onlyOp != "" && op.ID != *onlyOp {
			continue
		}
		if len(op.Alts) == 0 {
			continue
		}
		m := cv.MethodByName(strings.ToUpper(op.ID[:1]) + op.ID[1:])
		for ai, a := range op.Alts {
			authz, unsupported := 0, false
			for _, s := range a.Schemes {
				if isAuthz(spec.Schemes[s].Kind) {
					authz++
				}
				if spec.Schemes[s].Kind == "unsupported" {
					unsupported = true
				}
			}
			if authz > 1 || unsupported {
				continue
			}
			evals++
			nontriv++
			reset()
			for _, s := range a.Schemes {
				sec.Give[spec.Schemes[s].Name] = cred(spec.Schemes[s].Kind, "ok")
			}
			func() {
				defer func() { recover() }()
				m.Call([]reflect.Value{ctx})
			}()
			k := kase{Op: op.ID, Vector: []string{fmt.Sprintf("client provides exactly alternative %d", ai)}, Status: code, Handled: handled, Given: sec.Give, Seen: sec.Seen}
			if !handled {
				drv.Violation(map[string]string{"class": "client-with-credentials-for-one-alternative-is-refused"}, len(a.Schemes), k)
			}
			for _, s := range a.Schemes {
				n := spec.Schemes[s].Name
				if handled && sec.Seen[n] != sec.Give[n] {
					drv.Violation(map[string]string{"class": "credential-altered-between-client-and-server/multi"}, len(a.Schemes), k)
				}
			}
		}
	}
	drv.Eval(evals)
	drv.NontrivialN(nontriv)
	drv.Stat("hard_reject_vectors_with_satisfied_alternative", hardWithSat)
	drv.Sample(map[string]any{"operation": "op200", "alternatives": "sets of schemes over S00(header) S01(query) S02(cookie)", "vector_example": []string{"ok", "skip", "bad"}})
	drv.Sample(map[string]any{"operation": "basic", "credential": "ok.b-c_d~e / pw:ok.b-c_d~e", "path": "Client -> in-process transport -> Server -> SecurityHandler"})
	drv.Flush()
}
