//go:build verifdriver

// Driver of C19: exhaustive preemption-bounded exploration of concurrent calls through one
// regenerated client/server pair under the controlled scheduler; free-running mode for -race.
package main

import (
	"bytes"
	"context"
	"encoding/json"
	"errors"
	"flag"
	"fmt"
	ht "github.com/ogen-go/ogen/http"
	"github.com/ogen-go/ogen/middleware"
	"io"
	"net/http"
	"net/http/httptest"
	"net/textproto"
	"net/url"
	"os"
	"sort"
	"strings"
	"sync"

	vs "verifsched"

	"scratch/api"
	"scratch/drv"
)

// what the handler received, per logical thread (free mode: per goroutine via context)
type ctxKey struct{}

type slot struct{ got, wire string }

type handler struct{}

func note(ctx context.Context, format string, a ...any) {
	if s, ok := ctx.Value(ctxKey{}).(*slot); ok {
		s.got = fmt.Sprintf(format, a...)
	}
}

func (handler) PostV(ctx context.Context, req *api.V) (api.PostVRes, error) {
	vs.Point("handler.PostV")
	vs.Observe("handler PostV s=%q", req.S)
	note(ctx, "PostV{s=%q t=%v n=%v}", req.S, req.T, req.N)
	if req.S == "teapot" {
		return &api.PostVDefStatusCode{StatusCode: 418, Response: api.PostVDef{Msg: "teapot " + req.S}}, nil
	}
	out := *req
	return &out, nil
}

func (handler) GetE(ctx context.Context, p api.GetEParams) (string, error) {
	vs.Point("handler.GetE")
	vs.Observe("handler GetE id=%q", p.ID)
	note(ctx, "GetE{id=%q q=%d h=%v ck=%v}", p.ID, p.Q, p.XH, p.Ck)
	return fmt.Sprintf("%s/%d", p.ID, p.Q), nil
}

func (handler) PostF(ctx context.Context, req *api.PostFReq) (string, error) {
	vs.Point("handler.PostF")
	vs.Observe("handler PostF a=%d", req.A)
	note(ctx, "PostF{a=%d b=%v}", req.A, req.B)
	return fmt.Sprintf("f%d", req.A), nil
}

func (handler) PostO(ctx context.Context, req api.PostOReq) (api.PostOOK, error) {
	vs.Point("handler.PostO")
	b, err := io.ReadAll(req.Data)
	vs.Observe("handler PostO %d bytes", len(b))
	note(ctx, "PostO{%q err=%v}", b, err)
	return api.PostOOK{Data: bytes.NewReader(append([]byte("echo:"), b...))}, nil
}

func (handler) GetH(ctx context.Context, p api.GetHParams) (api.GetHRes, error) {
	vs.Point("handler.GetH")
	vs.Observe("handler GetH id=%q", p.ID)
	note(ctx, "GetH{id=%q l=%q}", p.ID, p.L)
	switch p.ID {
	case "boom":
		return nil, errors.New("handler failed for " + p.ID)
	case "teapot":
		return &api.GetH4XXStatusCode{StatusCode: 418, Response: api.GetH4XX{Code: len(p.L)}}, nil
	}
	return &api.GetHOKHeaders{XA: api.NewOptString("a-" + p.ID), XL: append([]string{p.ID}, p.L...), Response: "h:" + p.ID}, nil
}

func (handler) PostM(ctx context.Context, req *api.PostMReq) (string, error) {
	vs.Point("handler.PostM")
	b, err := io.ReadAll(req.F.File)
	vs.Observe("handler PostM a=%q", req.A)
	note(ctx, "PostM{a=%q file=%q name=%q type=%q err=%v}", req.A, b, req.F.Name, req.F.Header.Get("Content-Type"), err)
	return fmt.Sprintf("m:%s:%d", req.A, len(b)), nil
}

func (handler) PostP(ctx context.Context, req *api.P) (*api.P, error) {
	vs.Point("handler.PostP")
	b, _ := json.Marshal(req)
	vs.Observe("handler PostP %d members", len(req.Pattern0Props)+len(req.Pattern1Props))
	note(ctx, "PostP{%s}", b)
	return req, nil
}

func (handler) PostT(ctx context.Context, req api.PostTReq) (api.PostTOK, error) {
	vs.Point("handler.PostT")
	b, err := io.ReadAll(req.Data)
	vs.Observe("handler PostT %d bytes", len(b))
	note(ctx, "PostT{%q err=%v}", b, err)
	return api.PostTOK{Data: strings.NewReader("text:" + string(b))}, nil
}

// security: the key travels in the call's context; "bad" is refused
type keyCtx struct{}

type sec struct{}

func (sec) HandleK(ctx context.Context, op api.OperationName, t api.K) (context.Context, error) {
	vs.Point("security.HandleK")
	if !strings.HasPrefix(t.APIKey, "key-") {
		return ctx, errors.New("refused key " + t.APIKey)
	}
	return ctx, nil
}

func (sec) K(ctx context.Context, op api.OperationName) (api.K, error) {
	k, _ := ctx.Value(keyCtx{}).(string)
	return api.K{APIKey: k}, nil
}

type yieldReader struct {
	r    io.Reader
	name string
}

func (y *yieldReader) Read(p []byte) (int, error) {
	vs.Point("read:" + y.name)
	if len(p) > 7 {
		p = p[:7] // short reads: more scheduling points, like a slow network
	}
	return y.r.Read(p)
}
func (y *yieldReader) Close() error { return nil }

type yieldWriter struct{ *httptest.ResponseRecorder }

func (w yieldWriter) Write(b []byte) (int, error) {
	vs.Point("resp.Write")
	return w.ResponseRecorder.Write(b)
}
func (w yieldWriter) WriteHeader(c int) {
	vs.Point("resp.WriteHeader")
	w.ResponseRecorder.WriteHeader(c)
}

type transport struct{ srv http.Handler }

func (t transport) Do(req *http.Request) (*http.Response, error) {
	vs.Point("roundtrip")
	if req.Body != nil && req.Body != http.NoBody {
		if req.ContentLength == 0 {
			req.ContentLength = -1
		}
		req.Body = &yieldReader{req.Body, "reqbody"}
	}
	rec := yieldWriter{httptest.NewRecorder()}
	t.srv.ServeHTTP(rec, req)
	vs.Point("roundtrip:after")
	res := rec.Result()
	body, _ := io.ReadAll(res.Body)
	// the response as it is on the wire is part of the call's outcome (the generated client does
	// not surface every error body)
	if s, ok := req.Context().Value(ctxKey{}).(*slot); ok {
		s.wire = fmt.Sprintf("%d %q", res.StatusCode, body)
	}
	res.Body = &yieldReader{bytes.NewReader(body), "respbody"}
	return res, nil
}

type call struct {
	name string
	do   func(ctx context.Context, c *api.Client) string
}

func show(v any, err error) string {
	if err != nil {
		return "error: " + err.Error()
	}
	b, _ := json.Marshal(v)
	return fmt.Sprintf("%T %s", v, b)
}

var menu = []call{
	{"postV ok", func(ctx context.Context, c *api.Client) string {
		r, err := c.PostV(ctx, &api.V{S: "abc", N: 1.5, T: api.NewOptString("zz")})
		return show(r, err)
	}},
	{"postV ok long", func(ctx context.Context, c *api.Client) string {
		r, err := c.PostV(ctx, &api.V{S: "qqqqqqqqqqqqqqqqqqqqqqqqqqqqqqqqqqqqqqqqqqqq", N: 2})
		return show(r, err)
	}},
	{"postV invalid", func(ctx context.Context, c *api.Client) string {
		r, err := c.PostV(ctx, &api.V{S: "xbad", N: 0.25})
		return show(r, err)
	}},
	{"postV default response", func(ctx context.Context, c *api.Client) string {
		r, err := c.PostV(ctx, &api.V{S: "teapot", N: 0})
		return show(r, err)
	}},
	{"getE ok", func(ctx context.Context, c *api.Client) string {
		r, err := c.GetE(ctx, api.GetEParams{ID: "abc", Q: 7, XH: api.NewOptString("hdr"), Ck: api.NewOptString("cookie")})
		return show(r, err)
	}},
	{"getE invalid", func(ctx context.Context, c *api.Client) string {
		r, err := c.GetE(ctx, api.GetEParams{ID: "zzz", Q: 7})
		return show(r, err)
	}},
	{"postF form", func(ctx context.Context, c *api.Client) string {
		r, err := c.PostF(ctx, &api.PostFReq{A: 42, B: api.NewOptString("b&c=d")})
		return show(r, err)
	}},
	{"postO stream", func(ctx context.Context, c *api.Client) string {
		r, err := c.PostO(ctx, api.PostOReq{Data: strings.NewReader("0123456789abcdefghij")})
		if err != nil {
			return "error: " + err.Error()
		}
		b, _ := io.ReadAll(r.Data)
		return fmt.Sprintf("PostOOK %q", b)
	}},
	{"getH ok", func(ctx context.Context, c *api.Client) string {
		r, err := c.GetH(context.WithValue(ctx, keyCtx{}, "key-one"), api.GetHParams{ID: "first", L: []string{"x", "y"}})
		return show(r, err)
	}},
	{"getH ok other", func(ctx context.Context, c *api.Client) string {
		r, err := c.GetH(context.WithValue(ctx, keyCtx{}, "key-two"), api.GetHParams{ID: "second-and-longer", L: []string{"z"}})
		return show(r, err)
	}},
	{"getH handler error", func(ctx context.Context, c *api.Client) string {
		r, err := c.GetH(context.WithValue(ctx, keyCtx{}, "key-one"), api.GetHParams{ID: "boom"})
		return show(r, err)
	}},
	{"getH pattern response", func(ctx context.Context, c *api.Client) string {
		r, err := c.GetH(context.WithValue(ctx, keyCtx{}, "key-one"), api.GetHParams{ID: "teapot", L: []string{"p", "q", "r"}})
		return show(r, err)
	}},
	{"getH unauthorized", func(ctx context.Context, c *api.Client) string {
		r, err := c.GetH(context.WithValue(ctx, keyCtx{}, "bad"), api.GetHParams{ID: "nokey"})
		return show(r, err)
	}},
	{"postM multipart", func(ctx context.Context, c *api.Client) string {
		r, err := c.PostM(ctx, &api.PostMReq{A: "field", F: ht.MultipartFile{Name: "f.txt", File: strings.NewReader("file-content-0123456789")}})
		return show(r, err)
	}},
	{"postM caller's part header", func(ctx context.Context, c *api.Client) string {
		// the caller's header of a file part: private to the call under the scheduler, one map shared
		// by all goroutines in the free-running race pass (read-only use must stay read-only)
		hdr := textproto.MIMEHeader{"Content-Type": {"text/x-verif"}}
		if vs.Free {
			hdr = sharedPartHeader
		}
		r, err := c.PostM(ctx, &api.PostMReq{A: "hdr", F: ht.MultipartFile{Name: "h.txt", File: strings.NewReader("with-header"), Header: hdr}})
		out := show(r, err)
		if !vs.Free && (len(hdr) != 1 || len(hdr["Content-Type"]) != 1 || hdr["Content-Type"][0] != "text/x-verif") {
			out += fmt.Sprintf(" INPUT-MODIFIED: the caller's header is now %v", hdr)
		}
		return out
	}},
	{"postM invalid", func(ctx context.Context, c *api.Client) string {
		r, err := c.PostM(ctx, &api.PostMReq{A: "much-too-long-a-field", F: ht.MultipartFile{Name: "g.txt", File: strings.NewReader("other")}})
		return show(r, err)
	}},
	// member names matched by patterns (the decoder hands the raw name bytes to the compiled pattern);
	// one member per map: the encoder writes a map in Go's own iteration order, which no seam controls:
	// names the backtracking-engine pattern accepts, names it refuses, names for the RE2 pattern
	{"postP names for the backtracking pattern", func(ctx context.Context, c *api.Client) string {
		r, err := c.PostP(ctx, &api.P{ID: api.NewOptString("one"), Pattern0Props: api.PPattern0{"cdefgh": 2}})
		return show(r, err)
	}},
	{"postP other names, one refused by the backtracking pattern", func(ctx context.Context, c *api.Client) string {
		r, err := c.PostP(ctx, &api.P{ID: api.NewOptString("two"), Pattern0Props: api.PPattern0{"xyzzzz": 3}, Pattern1Props: api.PPattern1{"123": "n"}})
		return show(r, err)
	}},
	// per-request options that take something by reference: the caller's server URL (private to the
	// call under the scheduler and compared before / after; one value shared by all goroutines in the
	// free-running race pass).  One URL without and one with a trailing slash.
	{"getE with the caller's server URL", func(ctx context.Context, c *api.Client) string {
		u := &url.URL{Scheme: "http", Host: "x"}
		if vs.Free {
			u = sharedServerURL
		}
		before := *u
		r, err := c.GetE(ctx, api.GetEParams{ID: "abcd", Q: 9}, api.WithServerURL(u))
		out := show(r, err)
		if !vs.Free && *u != before {
			out += fmt.Sprintf(" INPUT-MODIFIED: the caller's URL is now %+v", *u)
		}
		return out
	}},
	{"getE with the caller's server URL ending in a slash", func(ctx context.Context, c *api.Client) string {
		u := &url.URL{Scheme: "http", Host: "x", Path: "/"}
		if vs.Free {
			u = sharedServerURLSlash
		}
		before := *u
		r, err := c.GetE(ctx, api.GetEParams{ID: "abcde", Q: 10}, api.WithServerURL(u))
		out := show(r, err)
		if !vs.Free && *u != before {
			out += fmt.Sprintf(" INPUT-MODIFIED: the caller's URL is now %+v", *u)
		}
		return out
	}},
	{"postT text", func(ctx context.Context, c *api.Client) string {
		r, err := c.PostT(ctx, api.PostTReq{Data: strings.NewReader("plain text body")})
		if err != nil {
			return "error: " + err.Error()
		}
		b, _ := io.ReadAll(r.Data)
		return fmt.Sprintf("PostTOK %q", b)
	}},
}

var sharedPartHeader = textproto.MIMEHeader{"Content-Type": {"text/x-verif"}}

var (
	sharedServerURL      = &url.URL{Scheme: "http", Host: "x"}
	sharedServerURLSlash = &url.URL{Scheme: "http", Host: "x", Path: "/"}
)

type kase struct {
	Threads    [][]string `json:"threads_and_their_calls"`
	Bound      int        `json:"preemption_bound"`
	Schedule   []int      `json:"schedule"`
	Preempts   int        `json:"preemptions"`
	Violation  string     `json:"violation"`
	Points     []string   `json:"last_scheduling_points"`
	Events     []string   `json:"observations"`
	Reproduced int        `json:"reproduced_out_of_5"`
	Combo      [][]int    `json:"combo"`
	DropPools  bool       `json:"pools_dropped_first"`
}

func main() {
	shard := flag.String("shard", "0/1", "i/n")
	free := flag.Bool("free", false, "free-running mode (race pass)")
	goroutines := flag.Int("goroutines", 32, "")
	calls := flag.Int("calls", 60, "")
	replay := flag.String("replay", "", "replay artefact")
	flag.Parse()
	thorough := os.Getenv("VERIF_TIER") == "thorough"
	// two pass-through middlewares (the generated option chains them with middleware.ChainMiddlewares
	// only when there are several), each with a scheduling point before and after the rest of the chain
	mw := func(name string) middleware.Middleware {
		return func(req middleware.Request, next middleware.Next) (middleware.Response, error) {
			vs.Point("middleware:" + name + ":in")
			resp, err := next(req)
			vs.Point("middleware:" + name + ":out")
			return resp, err
		}
	}
	srv, err := api.NewServer(handler{}, sec{}, api.WithMiddleware(mw("outer"), mw("inner")))
	if err != nil {
		drv.Fatal("NewServer: %v", err)
	}
	client, err := api.NewClient("http://x", sec{}, api.WithClient(transport{srv}))
	if err != nil {
		drv.Fatal("NewClient: %v", err)
	}
	runCall := func(ci int) string {
		s := &slot{}
		ctx := context.WithValue(context.Background(), ctxKey{}, s)
		// a panic inside a call (e.g. a request finished by another request's handler closure) is an
		// outcome of that call, not a crash of the explorer
		out := func() (out string) {
			defer func() {
				if p := recover(); p != nil {
					out = fmt.Sprintf("PANIC in the call: %v", p)
				}
			}()
			return menu[ci].do(ctx, client)
		}()
		return "handler saw " + s.got + " | wire " + s.wire + " | caller got " + out
	}
	// sequential reference outcomes: each call run alone
	ref := make([]string, len(menu))
	for i := range menu {
		ref[i] = runCall(i)
		if again := runCall(i); again != ref[i] {
			drv.Fatal("call %q is not deterministic when run alone:\n%s\n%s", menu[i].name, ref[i], again)
		}
	}
	for i := range menu {
		if strings.Contains(ref[i], "INPUT-MODIFIED") {
			// an input the caller may share between concurrent calls was written to
			drv.Violation(map[string]string{"class": "call-writes-to-an-input-the-caller-may-share-between-calls"}, 1, kase{Threads: [][]string{{menu[i].name}}, Violation: ref[i], Reproduced: 5, Combo: [][]int{{i}}})
		}
	}
	if *free {
		vs.Free = true
		var wg sync.WaitGroup
		var bad sync.Map
		for g := 0; g < *goroutines; g++ {
			wg.Add(1)
			go func(g int) {
				defer wg.Done()
				for i := 0; i < *calls; i++ {
					ci := (g*7 + i) % len(menu)
					if got := runCall(ci); got != ref[ci] {
						bad.Store(fmt.Sprintf("MISMATCH %s: %s  (alone: %s)", menu[ci].name, got, ref[ci]), true)
					}
				}
			}(g)
		}
		wg.Wait()
		n := 0
		bad.Range(func(k, _ any) bool { fmt.Println(k); n++; return n < 10 })
		if n > 0 {
			os.Exit(1)
		}
		fmt.Println("free-running pass ok")
		return
	}

	var si, sn int
	fmt.Sscanf(*shard, "%d/%d", &si, &sn)
	// combos: assignment of call lists to threads
	type combo struct {
		threads [][]int
		bound   int
		drop    bool
	}
	var combos []combo
	var multisets func(k, start int, cur []int, out *[][]int)
	multisets = func(k, start int, cur []int, out *[][]int) {
		if len(cur) == k {
			*out = append(*out, append([]int{}, cur...))
			return
		}
		for i := start; i < len(menu); i++ {
			multisets(k, i, append(cur, i), out)
		}
	}
	var pairs [][]int
	multisets(2, 0, nil, &pairs)
	for _, p := range pairs {
		combos = append(combos, combo{[][]int{{p[0]}, {p[1]}}, 2, false})
	}
	// environment deviation: the pools drop everything before the calls start (sync.Pool may)
	for _, p := range pairs {
		if p[0] != p[1] {
			continue
		}
		combos = append(combos, combo{[][]int{{p[0]}, {p[1]}}, 2, true})
	}
	if thorough {
		// three threads: every multiset of 3 calls of a 12-call core of one call per mechanism, and every
		// other call next to two calls of a four-call sub-core (all 1 771 multisets of the 21-call menu
		// ran for over half an hour)
		core3 := map[int]bool{}
		for i, c := range menu {
			switch c.name {
			case "postV ok", "postV invalid", "getE ok", "getE invalid", "postF form", "postO stream", "getH ok", "getH unauthorized", "postM multipart",
				"postP names for the backtracking pattern", "postP other names, one refused by the backtracking pattern", "getE with the caller's server URL":
				core3[i] = true
			}
		}
		var triples [][]int
		multisets(3, 0, nil, &triples)
		for _, t := range triples {
			outside := 0
			for _, i := range t {
				if !core3[i] {
					outside++
				}
			}
			// a call outside the core runs next to two calls of a four-call sub-core only
			small := 0
			for _, i := range t {
				switch menu[i].name {
				case "postV ok", "postV invalid", "getE ok", "postF form":
					small++
				}
			}
			if outside > 1 || (outside == 1 && small < 2) {
				continue
			}
			combos = append(combos, combo{[][]int{{t[0]}, {t[1]}, {t[2]}}, 2, false})
		}
		// two calls per thread (reuse of pooled objects after a completed call): over one call per
		// operation kind, to keep the product bounded
		core := map[int]bool{}
		for i, c := range menu {
			switch c.name {
			case "postV ok", "postV invalid", "postV default response", "getE ok", "postF form", "getH ok", "getH handler error", "postM multipart":
				core[i] = true
			}
		}
		for _, a := range pairs {
			for _, b := range pairs {
				if !(core[a[0]] && core[a[1]] && core[b[0]] && core[b[1]]) {
					continue
				}
				if a[0] <= b[0] {
					combos = append(combos, combo{[][]int{{a[0], a[1]}, {b[0], b[1]}}, 2, false})
				}
			}
		}
		for _, p := range pairs {
			combos = append(combos, combo{[][]int{{p[0]}, {p[1]}}, 3, false})
		}
	}
	if *replay != "" {
		b, err := os.ReadFile(*replay)
		if err != nil {
			drv.Fatal("%v", err)
		}
		var art struct {
			Case kase `json:"case"`
		}
		if err := json.Unmarshal(b, &art); err != nil {
			drv.Fatal("%v", err)
		}
		combos = []combo{{art.Case.Combo, art.Case.Bound, art.Case.DropPools}}
		si, sn = 0, 1
	}
	names := func(c combo) [][]string {
		var out [][]string
		for _, t := range c.threads {
			var l []string
			for _, ci := range t {
				l = append(l, menu[ci].name)
			}
			out = append(out, l)
		}
		return out
	}
	var runs, states, trans, points, capped int64
	outcomesMax := 0
	for idx, c := range combos {
		if idx%sn != si {
			continue
		}
		c := c
		results := make([][]string, len(c.threads))
		body := func() {
			if c.drop {
				vs.DropPooled()
			}
			for i := range results {
				results[i] = make([]string, len(c.threads[i]))
			}
			done := 0
			for ti := range c.threads {
				ti := ti
				vs.Spawn(func() {
					for k, ci := range c.threads[ti] {
						results[ti][k] = runCall(ci)
					}
					done++
				})
			}
			vs.Block("join", func() bool { return done == len(c.threads) })
		}
		check := func(s *vs.Sched) (string, string) {
			var order []string
			for _, e := range s.Events {
				if strings.Contains(e, "handler") {
					order = append(order, e[:2])
				}
			}
			for ti, t := range c.threads {
				for k, ci := range t {
					if results[ti][k] != ref[ci] {
						return fmt.Sprintf("thread %d call %q: outcome differs from the call run alone:\n  concurrent: %s\n  alone:      %s", ti, menu[ci].name, results[ti][k], ref[ci]), strings.Join(order, "")
					}
				}
			}
			return "", strings.Join(order, "")
		}
		maxRuns := 400000
		st := vs.Explore(body, check, c.bound, maxRuns)
		if st.NonDet != "" {
			drv.Fatal("the harness is not deterministic for %v: %s", names(c), st.NonDet)
		}
		runs += int64(st.Runs)
		states += int64(st.States)
		trans += int64(st.Transitions)
		points += int64(st.Points)
		if st.Capped {
			capped++
		}
		if len(st.Outcomes) > outcomesMax {
			outcomesMax = len(st.Outcomes)
		}
		if len(st.Outcomes) < 2 && len(c.threads) > 1 {
			drv.Stat("combos_with_a_single_observed_handler_order", 1)
		}
		for _, v := range st.Violations {
			if v.Reproduced < 5 {
				drv.Fatal("a violating schedule did not reproduce every time (%d/5): harness non-determinism: %s", v.Reproduced, v.Msg)
			}
			cls := "concurrent-call-outcome-differs-from-sequential"
			if strings.Contains(v.Msg, "deadlock") || strings.Contains(v.Msg, "horizon") {
				cls = "deadlock-or-livelock"
			}
			drv.Violation(map[string]string{"class": cls}, len(v.Choices), kase{names(c), c.bound, v.Choices, v.Preemptions, v.Msg, v.Labels, v.Events, v.Reproduced, c.threads, c.drop})
		}
		if idx%29 == 3 {
			drv.Sample(map[string]any{"threads_and_their_calls": names(c), "preemption_bound": c.bound, "schedules": st.Runs, "states": st.States, "distinct_handler_orders": len(st.Outcomes), "first_schedule_points": len(st.FirstSchedule)})
		}
	}
	drv.Eval(runs)
	drv.NontrivialN(states)
	drv.Stat("schedules", runs)
	drv.Stat("states", states)
	drv.Stat("transitions", trans)
	drv.Stat("scheduling_points_executed", points)
	drv.Stat("combos_capped_by_the_schedule_limit", capped)
	drv.Stat("combos", int64(len(combos))/int64(sn)+1)
	drv.Info("max_distinct_handler_orders_in_one_combo", outcomesMax)
	keys := make([]string, 0, len(ref))
	for i, r := range ref {
		keys = append(keys, menu[i].name+" => "+r)
	}
	sort.Strings(keys)
	drv.Info("sequential_reference_outcomes", keys)
	drv.Flush()
}
