//go:build verifdriver

// Driver of C01: parameter matrix (params.go, reflective) and media/response exchanges (media.go).
package main

import (
	"flag"
	"net/http"
	"net/http/httptest"

	"scratch/drv"
)

// direct is the in-process transport: it calls Server.ServeHTTP and mimics http.Transport where
// the generated code depends on it (a non-nil body with ContentLength 0 means "unknown length").
type direct struct {
	srv  http.Handler
	last **http.Request // when set: the request of the last call (parameter operations: no body)
}

func (d direct) Do(r *http.Request) (*http.Response, error) {
	if r.Body != nil && r.Body != http.NoBody && r.ContentLength == 0 {
		r.ContentLength = -1
	}
	if d.last != nil {
		*d.last = r.Clone(r.Context())
	}
	rec := httptest.NewRecorder()
	d.srv.ServeHTTP(rec, r)
	return rec.Result(), nil
}

func main() {
	cfg := flag.String("config", "", "feature configuration (informational)")
	flag.Parse()
	drv.Info("features", *cfg)
	runParams()
	runMedia()
	drv.Flush()
}
