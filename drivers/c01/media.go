//go:build verifdriver

package main

import (
	"bytes"
	"context"
	"fmt"
	"io"
	"math"
	"os"
	"reflect"
	"strings"
	"time"

	ht "github.com/ogen-go/ogen/http"
	"github.com/ogen-go/ogen/middleware"

	"scratch/drv"
	api "scratch/mapi"
)

type handler struct {
	gotJSON   *api.V
	gotForm   *api.PostFormReq
	gotMP     *api.PostMultipartReq
	gotMPFile []byte
	gotText   []byte
	gotOctet  []byte
	gotOpt    api.OptV
	gotAny    any
	respJSON  api.PostJSONRes
	calls     int
}

func (h *handler) PostJSON(ctx context.Context, req *api.V) (api.PostJSONRes, error) {
	h.calls++
	h.gotJSON = req
	return h.respJSON, nil
}
func (h *handler) PostForm(ctx context.Context, req *api.PostFormReq) error {
	h.calls++
	h.gotForm = req
	return nil
}
func (h *handler) PostMultipart(ctx context.Context, req *api.PostMultipartReq) error {
	h.calls++
	h.gotMP = req
	h.gotMPFile, _ = io.ReadAll(req.F.File)
	return nil
}
func (h *handler) PostFormX(ctx context.Context, req *api.PostFormXReq) error {
	h.gotAny = req
	h.calls++
	return nil
}

func (h *handler) PostMultiX(ctx context.Context, req *api.PostMultiXReq) error {
	h.gotAny = req
	h.calls++
	return nil
}

func (h *handler) PostText(ctx context.Context, req api.PostTextReq) (api.PostTextOK, error) {
	h.calls++
	h.gotText, _ = io.ReadAll(req)
	return api.PostTextOK{Data: bytes.NewReader(h.gotText)}, nil
}
func (h *handler) PostOctet(ctx context.Context, req api.PostOctetReq) (api.PostOctetOK, error) {
	h.calls++
	h.gotOctet, _ = io.ReadAll(req)
	return api.PostOctetOK{Data: bytes.NewReader(h.gotOctet)}, nil
}
func (h *handler) PostOpt(ctx context.Context, req api.OptV) (bool, error) {
	h.calls++
	h.gotOpt = req
	return req.Set, nil
}

type mkase struct {
	Exchange string `json:"exchange"`
	Sent     string `json:"sent"`
	Got      string `json:"received,omitempty"`
	Error    string `json:"error,omitempty"`
}

func short(s string) string {
	if len(s) > 400 {
		return s[:400] + "..."
	}
	return s
}

func mreport(class, exchange, sent, got, err string) {
	drv.Violation(map[string]string{"class": "media/" + class, "kind": class}, len(sent), mkase{exchange, short(sent), short(got), short(err)})
}

func eqV(a, b *api.V) bool {
	if a == nil || b == nil {
		return a == b
	}
	x, y := *a, *b
	if x.T.Set && y.T.Set && x.T.Value.Equal(y.T.Value) {
		x.T, y.T = api.OptDateTime{}, api.OptDateTime{}
	}
	if x.Dt.Set && y.Dt.Set && x.Dt.Value.Equal(y.Dt.Value) {
		x.Dt, y.Dt = api.OptDate{}, api.OptDate{}
	}
	// a nil slice/map inside a wrapper that already carries nullness is the empty one
	if x.Na.Set && y.Na.Set && !x.Na.Null && !y.Na.Null && len(x.Na.Value) == 0 && len(y.Na.Value) == 0 {
		x.Na, y.Na = api.OptNilStringArray{}, api.OptNilStringArray{}
	}
	if x.M.Set && y.M.Set && len(x.M.Value) == 0 && len(y.M.Value) == 0 {
		x.M, y.M = api.OptVM{}, api.OptVM{}
	}
	kx, ky := x.K, y.K
	x.K, y.K = nil, nil
	return reflect.DeepEqual(x, y) && eqV(kx, ky)
}

func withDefaults(v api.V) api.V {
	if !v.I.Set {
		v.I = api.NewOptInt(7)
	}
	if !v.D.Set {
		v.D = api.NewOptString("dflt")
	}
	if v.K != nil {
		k := withDefaults(*v.K)
		v.K = &k
	}
	return v
}

func runMedia() {
	ctx := context.Background()
	h := &handler{}
	var mwBody any
	var mwOp string
	mw := func(req middleware.Request, next middleware.Next) (middleware.Response, error) {
		mwBody, mwOp = req.Body, req.OperationName
		return next(req)
	}
	srv, err := api.NewServer(h, api.WithMiddleware(mw))
	if err != nil {
		drv.Fatal("NewServer: %v", err)
	}
	c, err := api.NewClient("http://x", api.WithClient(direct{srv: srv}))
	if err != nil {
		drv.Fatal("NewClient: %v", err)
	}
	var total int64
	strsV := []string{"", "a", "é\"\\\n\x00😀", strings.Repeat("x", 70000), " ", "</script>\u2028"}
	var vs []api.V
	vs = append(vs, api.V{S: "s"})
	for _, s := range strsV {
		vs = append(vs, api.V{S: s})
		vs = append(vs, api.V{S: "s", On: api.NewOptNilString(s)}, api.V{S: "s", D: api.NewOptString(s)})
		vs = append(vs, api.V{S: "s", M: api.NewOptVM(api.VM{s: s})})
		vs = append(vs, api.V{S: "s", U: api.NewOptVU(api.NewStringVU(s))})
		vs = append(vs, api.V{S: "s", Na: api.NewOptNilStringArray([]string{s, "z"})})
	}
	for _, f := range []float64{0, math.Copysign(0, -1), 0.5, 0.1, 1e-11, 1e21, 123456789.123456789, math.MaxFloat64, 5e-324, 1.0 / 3} {
		vs = append(vs, api.V{S: "s", N: api.NewOptFloat64(f)})
	}
	for _, i := range []int{0, 1, -1, math.MaxInt64, math.MinInt64, 7} {
		vs = append(vs, api.V{S: "s", I: api.NewOptInt(i)}, api.V{S: "s", A: []int{i}}, api.V{S: "s", U: api.NewOptVU(api.NewIntVU(i))})
	}
	vs = append(vs,
		api.V{S: "s", A: []int{}}, api.V{S: "s", A: nil}, api.V{S: "s", A: []int{1, 2, 3}},
		api.V{S: "s", Na: api.OptNilStringArray{Set: true, Null: true}}, api.V{S: "s", Na: api.NewOptNilStringArray([]string{})}, api.V{S: "s", Na: api.NewOptNilStringArray(nil)},
		api.V{S: "s", On: api.OptNilString{Set: true, Null: true}},
		api.V{S: "s", M: api.NewOptVM(api.VM{})}, api.V{S: "s", M: api.NewOptVM(nil)}, api.V{S: "s", M: api.NewOptVM(api.VM{"a": "1", "b": "2", "": "3"})},
		api.V{S: "s", U: api.NewOptVU(api.NewBoolVU(true))}, api.V{S: "s", U: api.NewOptVU(api.NewBoolVU(false))},
		api.V{S: "s", T: api.NewOptDateTime(time.Date(2020, 2, 29, 23, 59, 59, 0, time.UTC))},
		api.V{S: "s", T: api.NewOptDateTime(time.Date(1, 1, 1, 0, 0, 0, 0, time.FixedZone("", 5*3600+1800)))},
		api.V{S: "s", T: api.NewOptDateTime(time.Date(9999, 12, 31, 23, 59, 59, 0, time.UTC))},
		api.V{S: "s", Dt: api.NewOptDate(time.Date(2020, 2, 29, 0, 0, 0, 0, time.UTC))},
		api.V{S: "s", K: &api.V{S: "k", K: &api.V{S: "kk", I: api.NewOptInt(1)}}},
	)
	// durations of both signs on every unit boundary
	for _, d := range []time.Duration{0, 1, 999, time.Microsecond, 42 * time.Microsecond, time.Millisecond, 500 * time.Millisecond, time.Second - 1, time.Second, 90 * time.Second, time.Hour + time.Nanosecond, 1<<63 - 1} {
		vs = append(vs, api.V{S: "s", Du: api.NewOptDuration(d)}, api.V{S: "s", Du: api.NewOptDuration(-d)})
	}
	responses := []api.PostJSONRes{
		&api.VHeaders{XS: "hs", Response: api.V{S: "r"}},
		&api.VHeaders{XS: "a b;c,d", XN: api.NewOptInt(-5), XL: []string{"x", "y z"}, Response: api.V{S: "r", N: api.NewOptFloat64(0.1), I: api.NewOptInt(7), D: api.NewOptString("dflt")}},
		&api.VHeaders{XS: "é", XL: []string{}, Response: api.V{S: ""}},
		&api.PostJSONCreated{}, &api.PostJSONCreated{XS: api.NewOptString("v")},
		&api.E4StatusCode{StatusCode: 400, Response: api.E4{Code: 1}}, &api.E4StatusCode{StatusCode: 418, Response: api.E4{Code: -1}}, &api.E4StatusCode{StatusCode: 499, Response: api.E4{}},
		&api.EStatusCode{StatusCode: 500, Response: api.E{Msg: "m"}}, &api.EStatusCode{StatusCode: 302, Response: api.E{Msg: ""}}, &api.EStatusCode{StatusCode: 599, Response: api.E{Msg: "x"}},
	}
	for i, v := range vs {
		for j, resp := range responses {
			if i > 3 && j > 0 && !(i%7 == j%7) {
				continue
			}
			total++
			v := v
			h.gotJSON, h.respJSON, h.calls = nil, resp, 0
			mwBody, mwOp = nil, ""
			sent := fmt.Sprintf("V#%d %+v response#%d %T", i, v, j, resp)
			var got api.PostJSONRes
			var err error
			var pan any
			func() {
				defer func() { pan = recover() }()
				got, err = c.PostJSON(ctx, &v)
			}()
			if pan != nil {
				mreport("panic", "PostJSON", sent, "", fmt.Sprint(pan))
				continue
			}
			if err != nil {
				// a nil slice/map inside a set, non-null wrapper is not a core value: refusing it
				// (client-side validation, when enabled) is an error, not a silent change
				nonCore := (v.Na.Set && !v.Na.Null && v.Na.Value == nil) || (v.M.Set && v.M.Value == nil)
				if h.calls == 0 && nonCore {
					drv.Stat("non_core_values_refused", 1)
				} else if h.calls == 0 {
					mreport("json-request-not-delivered", "PostJSON", sent, "", err.Error())
				} else {
					mreport("response-not-delivered", "PostJSON", sent, "", err.Error())
				}
				continue
			}
			want := withDefaults(v)
			if !eqV(h.gotJSON, &want) {
				mreport("json-body-changed", "PostJSON", sent, fmt.Sprintf("%+v", *h.gotJSON), "")
			}
			if b, ok := mwBody.(*api.V); !ok || !eqV(b, h.gotJSON) || mwOp != "PostJSON" {
				mreport("middleware-body-differs-from-handler-argument", "PostJSON", sent, fmt.Sprintf("%+v (operation %q)", mwBody, mwOp), "")
			}
			wr := resp
			if vh, ok := resp.(*api.VHeaders); ok {
				cp := *vh
				cp.Response = withDefaults(vh.Response)
				wr = &cp
			}
			switch {
			case reflect.TypeOf(got) != reflect.TypeOf(wr):
				mreport("response-variant-changed", "PostJSON", sent, fmt.Sprintf("%T %+v", got, got), "")
			default:
				if gv, ok := got.(*api.VHeaders); ok {
					w := wr.(*api.VHeaders)
					if !(gv.XS == w.XS && gv.XN == w.XN && eqV(&gv.Response, &w.Response)) {
						mreport("response-changed", "PostJSON", fmt.Sprintf("%+v", *w), fmt.Sprintf("%+v", *gv), "")
					}
					if !(reflect.DeepEqual(gv.XL, w.XL) || len(gv.XL)+len(w.XL) == 0) {
						vc := "other"
						if len(w.XL) == 0 {
							vc = "empty-array"
						}
						drv.Violation(map[string]string{"class": "media/response-header-array-changed", "kind": "response-header-array-changed", "value_class": vc}, len(w.XL),
							mkase{"PostJSON", fmt.Sprintf("X-L %q", w.XL), fmt.Sprintf("X-L %q", gv.XL), ""})
					}
				} else if !reflect.DeepEqual(got, wr) {
					mreport("response-changed", "PostJSON", fmt.Sprintf("%+v", reflect.ValueOf(wr).Elem().Interface()), fmt.Sprintf("%+v", reflect.ValueOf(got).Elem().Interface()), "")
				}
			}
		}
	}
	total += runFormFields(c, h)
	// ---- form
	for _, f := range []api.PostFormReq{
		{A: 1}, {A: -1, B: api.NewOptString("")}, {A: math.MaxInt64, B: api.NewOptString("a&b=c d+e%é\n")}, {A: 0, C: []string{"x"}}, {A: 0, C: []string{"x,y", "", "&"}}, {A: 0, C: []string{}},
		{A: 0, D: api.NewOptFloat64(0.5)}, {A: 0, D: api.NewOptFloat64(1e-11)}, {A: 0, D: api.NewOptFloat64(1.0 / 3)}, {A: math.MinInt64, B: api.NewOptString("%zz"), C: []string{"a", "b"}, D: api.NewOptFloat64(math.MaxFloat64)},
	} {
		total++
		f := f
		h.gotForm, h.calls = nil, 0
		err := c.PostForm(ctx, &f)
		sent := fmt.Sprintf("%+v", f)
		if err != nil {
			mreport("form-request-not-delivered", "PostForm", sent, "", err.Error())
			continue
		}
		w, g := f, *h.gotForm
		if len(w.C) == 0 {
			w.C = nil
		}
		if len(g.C) == 0 {
			g.C = nil
		}
		if !reflect.DeepEqual(g, w) {
			mreport("form-body-changed", "PostForm", sent, fmt.Sprintf("%+v", *h.gotForm), "")
		}
	}
	// ---- multipart
	for _, fileData := range [][]byte{{}, []byte("hello"), bytes.Repeat([]byte{0, 255, '\r', '\n', '-'}, 5000)} {
		for _, a := range []string{"", "a", "é\r\n--x", strings.Repeat("z", 100000)} {
			for _, name := range []string{"f.txt", "a\"b\\c.txt", "é.bin", "a b;c.txt"} {
				total++
				h.gotMP, h.calls = nil, 0
				req := &api.PostMultipartReq{A: a, N: api.NewOptInt(3), F: ht.MultipartFile{Name: name, File: bytes.NewReader(fileData)}}
				err := c.PostMultipart(ctx, req)
				sent := fmt.Sprintf("a=%.30q n=3 file=%dB name=%q", a, len(fileData), name)
				if err != nil {
					mreport("multipart-request-not-delivered", "PostMultipart", sent, "", err.Error())
					continue
				}
				if h.gotMP.A != a || h.gotMP.N != req.N || !bytes.Equal(h.gotMPFile, fileData) {
					mreport("multipart-body-changed", "PostMultipart", sent, fmt.Sprintf("a=%.30q n=%v file=%dB", h.gotMP.A, h.gotMP.N, len(h.gotMPFile)), "")
				}
				if h.gotMP.F.Name != name {
					mreport("multipart-file-name-changed", "PostMultipart", sent, h.gotMP.F.Name, "")
				}
			}
		}
	}
	// ---- text / octet stream
	for _, data := range [][]byte{{}, []byte("a"), []byte("é\x00\r\n\xff"), bytes.Repeat([]byte("0123456789"), 100000)} {
		total += 2
		h.gotText, h.gotOctet = nil, nil
		r, err := c.PostText(ctx, api.PostTextReq{Data: bytes.NewReader(data)})
		if err != nil {
			mreport("text-not-delivered", "PostText", fmt.Sprintf("%dB", len(data)), "", err.Error())
		} else {
			back, _ := io.ReadAll(r)
			if !bytes.Equal(h.gotText, data) || !bytes.Equal(back, data) {
				mreport("text-changed", "PostText", fmt.Sprintf("%dB", len(data)), fmt.Sprintf("handler %dB, echoed back %dB", len(h.gotText), len(back)), "")
			}
		}
		r2, err := c.PostOctet(ctx, api.PostOctetReq{Data: bytes.NewReader(data)})
		if err != nil {
			mreport("octet-stream-not-delivered", "PostOctet", fmt.Sprintf("%dB", len(data)), "", err.Error())
		} else {
			back, _ := io.ReadAll(r2)
			if !bytes.Equal(h.gotOctet, data) || !bytes.Equal(back, data) {
				mreport("octet-stream-changed", "PostOctet", fmt.Sprintf("%dB", len(data)), fmt.Sprintf("handler %dB, echoed back %dB", len(h.gotOctet), len(back)), "")
			}
		}
	}
	// ---- large values: one member per media type grown past the sizes at which buffers and caps of
	// the HTTP stack change behaviour (64 KiB, 1 MiB, 10 MiB - net/http's own form cap -, 32 MiB - the
	// multipart memory threshold); delivered whole or refused, never shortened
	sizes := []int{64<<10 + 1, 1<<20 + 1, 10<<20 - 16, 10<<20 + 16, 12 << 20}
	if os.Getenv("VERIF_TIER") == "thorough" {
		sizes = append(sizes, 32<<20+16, 40<<20)
	}
	for _, n := range sizes {
		big := strings.Repeat("y", n-3) + "end"
		sentN := fmt.Sprintf("one member of %d bytes", n)
		lenOr := func(s *string) string {
			if s == nil {
				return "nothing"
			}
			return fmt.Sprintf("%d bytes", len(*s))
		}
		total += 5
		// urlencoded form member (an optional member behind it must arrive too)
		h.gotForm, h.calls = nil, 0
		f := api.PostFormReq{A: 7, B: api.NewOptString(big), C: []string{"tail"}, D: api.NewOptFloat64(0.5)}
		if err := c.PostForm(ctx, &f); err != nil {
			if h.calls != 0 {
				mreport("error-reported-but-handler-ran", "PostForm", sentN, "", err.Error())
			}
		} else if h.gotForm == nil || h.gotForm.B.Value != big || len(h.gotForm.C) != 1 || h.gotForm.D != f.D || h.gotForm.A != 7 {
			got := "nothing"
			if h.gotForm != nil {
				got = fmt.Sprintf("a=%d b=%d bytes c=%q d=%v", h.gotForm.A, len(h.gotForm.B.Value), h.gotForm.C, h.gotForm.D)
			}
			mreport("large-form-member-changed", "PostForm", sentN+" then c=[tail] d=0.5", got, "")
		}
		// JSON member
		h.gotJSON, h.respJSON, h.calls = nil, responses[0], 0
		v := vs[0]
		v.S = big
		if _, err := c.PostJSON(ctx, &v); err != nil {
			if h.calls != 0 {
				mreport("error-reported-but-handler-ran", "PostJSON", sentN, "", err.Error())
			}
		} else if h.gotJSON == nil || h.gotJSON.S != big {
			var gs *string
			if h.gotJSON != nil {
				gs = &h.gotJSON.S
			}
			mreport("large-json-member-changed", "PostJSON", sentN, lenOr(gs), "")
		}
		// multipart field and file
		h.gotMP, h.calls = nil, 0
		req := &api.PostMultipartReq{A: big, N: api.NewOptInt(3), F: ht.MultipartFile{Name: "big.bin", File: strings.NewReader(big)}}
		if err := c.PostMultipart(ctx, req); err != nil {
			if h.calls != 0 {
				mreport("error-reported-but-handler-ran", "PostMultipart", sentN, "", err.Error())
			}
		} else if h.gotMP == nil || h.gotMP.A != big || string(h.gotMPFile) != big || h.gotMP.N != req.N {
			got := "nothing"
			if h.gotMP != nil {
				got = fmt.Sprintf("a=%d bytes file=%d bytes n=%v", len(h.gotMP.A), len(h.gotMPFile), h.gotMP.N)
			}
			mreport("large-multipart-member-changed", "PostMultipart", sentN+" as field and as file", got, "")
		}
		// text and octet stream
		h.gotText, h.gotOctet = nil, nil
		if r, err := c.PostText(ctx, api.PostTextReq{Data: strings.NewReader(big)}); err == nil {
			back, _ := io.ReadAll(r)
			if string(h.gotText) != big || string(back) != big {
				mreport("text-changed", "PostText", sentN, fmt.Sprintf("handler %dB, echoed back %dB", len(h.gotText), len(back)), "")
			}
		}
		if r, err := c.PostOctet(ctx, api.PostOctetReq{Data: strings.NewReader(big)}); err == nil {
			back, _ := io.ReadAll(r)
			if string(h.gotOctet) != big || string(back) != big {
				mreport("octet-stream-changed", "PostOctet", sentN, fmt.Sprintf("handler %dB, echoed back %dB", len(h.gotOctet), len(back)), "")
			}
		}
	}
	// ---- optional body
	for _, o := range []api.OptV{{}, api.NewOptV(api.V{S: "s"}), api.NewOptV(api.V{S: "", A: []int{1}})} {
		total++
		h.gotOpt = api.OptV{Set: true}
		r, err := c.PostOpt(ctx, o)
		if err != nil {
			mreport("optional-body-not-delivered", "PostOpt", fmt.Sprintf("%+v", o), "", err.Error())
			continue
		}
		w := o
		if w.Set {
			w.Value = withDefaults(w.Value)
		}
		if r != o.Set || h.gotOpt.Set != w.Set || (w.Set && !eqV(&h.gotOpt.Value, &w.Value)) {
			mreport("optional-body-changed", "PostOpt", fmt.Sprintf("%+v", o), fmt.Sprintf("%+v", h.gotOpt), "")
		}
	}
	drv.Eval(total)
	drv.NontrivialN(total)
	drv.Stat("media_and_response_exchanges", total)
	drv.Sample(map[string]any{"exchange": "PostJSON", "body": "V{S:\"s\", Na: OptNil{Set, Null}}", "scripted_response": "E4StatusCode{418, {Code:-1}} (4XX pattern)"})
}

// runFormFields: every member of a urlencoded / multipart body (strings, numbers, booleans, enums,
// formats, arrays and objects under every `encoding` style), one member at a time over the same
// candidate values as the parameter cells, on a valid base.
func runFormFields(c *api.Client, h *handler) int64 {
	ctx := reflect.ValueOf(context.Background())
	cv := reflect.ValueOf(c)
	alpha := []string{"a", ",", ".", ";", "=", "|", " ", "%", "/", "&", "+", "?", "#", "\"", "\\", "[", "]", "é", "\r\n", "-"}
	var total int64
	for _, op := range []struct {
		name, media string
		typ         reflect.Type
	}{{"PostFormX", "application/x-www-form-urlencoded", reflect.TypeOf(api.PostFormXReq{})}, {"PostMultiX", "multipart/form-data", reflect.TypeOf(api.PostMultiXReq{})}} {
		m := cv.MethodByName(op.name)
		if !m.IsValid() {
			drv.Fatal("client has no method %s", op.name)
		}
		for fi := 0; fi < op.typ.NumField(); fi++ {
			ft := op.typ.Field(fi)
			base := ft.Type
			opt := isOptWrapper(base)
			if opt {
				vf, _ := base.FieldByName("Value")
				base = vf.Type
			}
			cl := cell{Loc: "body", Style: ft.Name, Shape: "string", Required: !opt}
			switch ft.Name {
			case "E":
				cl.Shape = "enum"
				cl.Schema = map[string]any{"enum": []any{"a", "b c", "d,e"}}
			case "Dt":
				cl.Shape = "date-time"
			}
			cands := candidates(base, cl, alpha)
			if opt {
				for i := range cands {
					x := reflect.New(ft.Type).Elem()
					x.FieldByName("Value").Set(cands[i].v)
					x.FieldByName("Set").SetBool(true)
					cands[i].v = x
				}
				cands = append(cands, cand{reflect.New(ft.Type).Elem(), true, "<absent>", "absent"})
			}
			for _, cd := range cands {
				total++
				req := reflect.New(op.typ)
				req.Elem().FieldByName("S").SetString("base")
				req.Elem().FieldByName("I").SetInt(1)
				req.Elem().Field(fi).Set(cd.v)
				h.gotAny, h.calls = nil, 0
				var callErr error
				var pan any
				func() {
					defer func() { pan = recover() }()
					out := m.Call([]reflect.Value{ctx, req})
					if !out[0].IsNil() {
						callErr = out[0].Interface().(error)
					}
				}()
				k := mkase{op.name, fmt.Sprintf("%s = %s", ft.Name, cd.desc), "", ""}
				report := func(kind string) {
					drv.Violation(map[string]string{"class": "media/body-member-" + kind + "/" + op.name + "/" + ft.Name, "kind": "body-member-" + kind, "media": op.media, "member": ft.Name, "value_class": cd.class}, len(cd.desc), k)
				}
				switch {
				case pan != nil:
					k.Error = fmt.Sprint(pan)
					report("panic")
				case callErr != nil:
					k.Error = callErr.Error()
					if len(k.Error) > 300 {
						k.Error = k.Error[:300]
					}
					if h.calls != 0 {
						report("error-reported-but-handler-ran")
					}
					if cd.core {
						report("core-value-not-delivered")
					}
				case h.calls != 1 || h.gotAny == nil:
					report("no-error-but-handler-not-invoked-once")
				default:
					got := reflect.ValueOf(h.gotAny).Elem()
					k.Got = fmt.Sprintf("%#v", got.Field(fi).Interface())
					for fj := 0; fj < op.typ.NumField(); fj++ {
						if fj != fi && !deepEq(got.Field(fj), req.Elem().Field(fj)) {
							k.Got = fmt.Sprintf("member %s arrived as %#v", op.typ.Field(fj).Name, got.Field(fj).Interface())
							report("other-member-changed")
						}
					}
					if !deepEq(got.Field(fi), cd.v) {
						if cd.class == "empty-object" && opt {
							if setF := got.Field(fi).FieldByName("Set"); setF.IsValid() && !setF.Bool() {
								break
							}
						}
						if cd.core {
							report("core-value-changed")
						} else {
							report("different-value-delivered")
						}
					}
				}
			}
		}
	}
	drv.Stat("body_member_calls", total)
	return total
}
