//go:build verifdriver

package main

import (
	"context"
	"encoding/json"
	"fmt"
	"math"
	"net/http"
	"net/http/httptest"
	"net/netip"
	"net/url"
	"reflect"
	"strings"
	"time"

	"github.com/google/uuid"
	"github.com/ogen-go/ogen/middleware"

	"scratch/drv"
	api "scratch/papi"
)

type cell struct {
	Loc      string         `json:"in"`
	Style    string         `json:"style"`
	Explode  bool           `json:"explode"`
	Shape    string         `json:"shape"`
	Required bool           `json:"required"`
	Default  any            `json:"default"`
	Schema   map[string]any `json:"schema"`
	Multi    []cell         `json:"multi"`
}

func (c cell) String() string {
	mode := "required"
	if !c.Required {
		mode = "optional"
	}
	if c.Default != nil {
		mode = "default"
	}
	return fmt.Sprintf("%s/%s/explode=%v/%s/%s", c.Loc, c.Style, c.Explode, c.Shape, mode)
}

func strs(alpha []string, n int) []string {
	out := []string{""}
	prev := []string{""}
	for i := 0; i < n; i++ {
		var next []string
		for _, p := range prev {
			for _, a := range alpha {
				next = append(next, p+a)
			}
		}
		out = append(out, next...)
		prev = next
	}
	return out
}

func coreStr(s string) bool {
	return s != "" && !strings.ContainsAny(s, ",.;=|[]") && strings.TrimSpace(s) == s && !strings.ContainsAny(s, "\x00\n\r")
}

var (
	timeT = reflect.TypeOf(time.Time{})
	uuidT = reflect.TypeOf(uuid.UUID{})
	addrT = reflect.TypeOf(netip.Addr{})
	urlT  = reflect.TypeOf(url.URL{})
)

type cand struct {
	v     reflect.Value
	core  bool
	desc  string
	class string // value class for finding matchers
}

func isOptWrapper(t reflect.Type) bool {
	if t.Kind() != reflect.Struct || !strings.HasPrefix(t.Name(), "Opt") {
		return false
	}
	_, a := t.FieldByName("Value")
	_, b := t.FieldByName("Set")
	return a && b
}

func candidates(base reflect.Type, c cell, alpha []string) []cand {
	s2, s1 := strs(alpha, 2), strs(alpha, 1)
	var out []cand
	add := func(v any, core bool, class string) {
		out = append(out, cand{reflect.ValueOf(v).Convert(base), core, fmt.Sprintf("%#v", v), class})
	}
	switch {
	case base == timeT:
		if c.Shape == "date" {
			for _, t := range []time.Time{time.Date(2020, 2, 29, 0, 0, 0, 0, time.UTC), time.Date(1, 1, 1, 0, 0, 0, 0, time.UTC), time.Date(9999, 12, 31, 0, 0, 0, 0, time.UTC)} {
				out = append(out, cand{reflect.ValueOf(t), true, t.Format(time.RFC3339), "date"})
			}
		} else {
			for _, t := range []time.Time{time.Date(2020, 2, 29, 23, 59, 59, 0, time.UTC), time.Date(1, 1, 1, 0, 0, 0, 0, time.FixedZone("", 19800)), time.Date(9999, 12, 31, 23, 59, 59, 0, time.FixedZone("", -8*3600)), time.Date(2021, 3, 4, 5, 6, 7, 0, time.FixedZone("", 14*3600))} {
				out = append(out, cand{reflect.ValueOf(t), true, t.Format(time.RFC3339), "date-time"})
			}
		}
	case base == uuidT:
		for _, u := range []uuid.UUID{uuid.MustParse("123e4567-e89b-12d3-a456-426614174000"), {}, uuid.MustParse("ffffffff-ffff-ffff-ffff-ffffffffffff")} {
			out = append(out, cand{reflect.ValueOf(u), true, u.String(), "uuid"})
		}
	case base == addrT:
		for _, a := range []string{"1.2.3.4", "255.255.255.255", "0.0.0.0"} {
			out = append(out, cand{reflect.ValueOf(netip.MustParseAddr(a)), true, a, "ip"})
		}
	case base == urlT:
		for _, us := range []string{"https://example.com/a", "https://u:p@h:8080/p%20q?a=b&c=%20#frag", "http://h/?q=a,b;c", "urn:x:y"} {
			u, _ := url.Parse(us)
			out = append(out, cand{reflect.ValueOf(*u), true, us, "url"})
		}
	case base.Kind() == reflect.String && c.Shape == "enum":
		for _, e := range c.Schema["enum"].([]any) {
			es := e.(string)
			out = append(out, cand{reflect.ValueOf(es).Convert(base), coreStr(es), fmt.Sprintf("%q", es), "enum"})
		}
	case base.Kind() == reflect.String:
		for _, s := range s2 {
			out = append(out, cand{reflect.ValueOf(s).Convert(base), s != "" && strings.TrimSpace(s) == s && !strings.ContainsAny(s, "\n\r\x00"), fmt.Sprintf("%q", s), "string"})
		}
		for _, s := range []string{"%2C", "a\nb", strings.Repeat("x", 5000), "a%zz", "日本"} {
			out = append(out, cand{reflect.ValueOf(s).Convert(base), !strings.Contains(s, "\n"), fmt.Sprintf("%.20q", s), "string"})
		}
	case base.Kind() == reflect.Int32:
		for _, n := range []int32{0, 1, -1, math.MaxInt32, math.MinInt32, 1234567} {
			add(n, true, "int")
		}
	case base.Kind() == reflect.Int64 || base.Kind() == reflect.Int:
		for _, n := range []int64{0, 1, -1, math.MaxInt64, math.MinInt64, 1234567890123, 1<<53 + 1} {
			add(n, true, "int")
		}
	case base.Kind() == reflect.Float32:
		for _, f := range []float32{0, 1, -1, 0.5, 0.1, 1e-11, 1e21, math.MaxFloat32, 1e-45, 1.0 / 3, 16777217} {
			add(f, true, "float")
		}
	case base.Kind() == reflect.Float64:
		for _, f := range []float64{0, math.Copysign(0, -1), 1, -1, 0.5, 0.1, 1e-11, 1e21, 123456789.123456789, math.MaxFloat64, 5e-324, 1.0 / 3, 1e300} {
			add(f, true, "float")
		}
	case base.Kind() == reflect.Bool:
		add(true, true, "bool")
		add(false, true, "bool")
	case base.Kind() == reflect.Slice && base.Elem().Kind() == reflect.String:
		mk := func(items ...string) cand {
			core := len(items) > 0
			for _, it := range items {
				core = core && coreStr(it)
			}
			class := "strings"
			switch {
			case len(items) == 0:
				class = "empty-array"
			case len(items) == 1 && items[0] == "":
				class = "array-of-one-empty-string"
			}
			return cand{reflect.ValueOf(append([]string{}, items...)), core, fmt.Sprintf("%q", items), class}
		}
		out = append(out, cand{reflect.Zero(base), false, "nil", "empty-array"}, mk())
		for _, a := range s2 {
			out = append(out, mk(a))
		}
		for _, a := range s1 {
			for _, b := range s1 {
				out = append(out, mk(a, b))
			}
		}
		out = append(out, mk("a", "b", "c"), mk("a", "", "c"), mk("", ""))
	case base.Kind() == reflect.Slice:
		mk := func(items ...int) cand {
			sl := reflect.MakeSlice(base, len(items), len(items))
			for i, it := range items {
				sl.Index(i).SetInt(int64(it))
			}
			class := "ints"
			if len(items) == 0 {
				class = "empty-array"
			}
			return cand{sl, len(items) > 0, fmt.Sprint(items), class}
		}
		out = append(out, cand{reflect.Zero(base), false, "nil", "empty-array"}, mk(), mk(0), mk(-1), mk(1, 2), mk(math.MaxInt32, math.MinInt32, 0), mk(7, 7))
	case base.Kind() == reflect.Map:
		out = append(out, cand{reflect.Zero(base), false, "nil-map", "empty-object"}, cand{reflect.MakeMap(base), false, "empty-map", "empty-object"})
		for _, k := range []string{"a", "b", "a,b", "a=b", "a.b", "a;b", "é", ""} {
			for _, v := range s1 {
				m := reflect.MakeMap(base)
				m.SetMapIndex(reflect.ValueOf(k), reflect.ValueOf(v))
				out = append(out, cand{m, coreStr(k) && coreStr(v), fmt.Sprintf("{%q:%q}", k, v), "map"})
			}
		}
		m := reflect.MakeMap(base)
		m.SetMapIndex(reflect.ValueOf("a"), reflect.ValueOf("x"))
		m.SetMapIndex(reflect.ValueOf("b"), reflect.ValueOf("y z"))
		out = append(out, cand{m, true, `{"a":"x","b":"y z"}`, "map"})
	case base.Kind() == reflect.Struct:
		vals := append([]string{"<unset>"}, s1...)
		for _, a := range vals {
			for _, b := range vals {
				x := reflect.New(base).Elem()
				core := a != "<unset>" || b != "<unset>"
				class := "object"
				if !core {
					class = "empty-object"
				}
				for name, v := range map[string]string{"A": a, "B": b} {
					if v == "<unset>" {
						continue
					}
					f := x.FieldByName(name)
					f.FieldByName("Value").SetString(v)
					f.FieldByName("Set").SetBool(true)
					core = core && coreStr(v)
				}
				out = append(out, cand{x, core, fmt.Sprintf("{a:%q b:%q}", a, b), class})
			}
		}
	default:
		drv.Fatal("unhandled parameter type %s", base)
	}
	return out
}

func deepEq(a, b reflect.Value) bool {
	if a.Type() != b.Type() {
		return false
	}
	switch a.Type() {
	case timeT:
		return a.Interface().(time.Time).Equal(b.Interface().(time.Time))
	case urlT:
		ua, ub := a.Interface().(url.URL), b.Interface().(url.URL)
		return ua.String() == ub.String()
	case addrT, uuidT:
		return a.Interface() == b.Interface()
	}
	switch a.Kind() {
	case reflect.Slice, reflect.Map:
		if a.Len() == 0 && b.Len() == 0 {
			return true
		}
		return reflect.DeepEqual(a.Interface(), b.Interface())
	case reflect.Struct:
		for i := 0; i < a.NumField(); i++ {
			if a.Type().Field(i).IsExported() && !deepEq(a.Field(i), b.Field(i)) {
				return false
			}
		}
		return true
	case reflect.Float32, reflect.Float64:
		return a.Float() == b.Float()
	}
	return reflect.DeepEqual(a.Interface(), b.Interface())
}

type pkase struct {
	Cell   string `json:"cell"`
	Op     string `json:"operation"`
	Value  string `json:"value"`
	Got    string `json:"handler_received,omitempty"`
	Error  string `json:"error,omitempty"`
	Detail string `json:"detail,omitempty"`
}

func runParams() {
	h := &api.VerifHandler{}
	var mwParams map[middleware.ParameterKey]any
	var mwOp string
	mw := func(req middleware.Request, next middleware.Next) (middleware.Response, error) {
		mwParams, mwOp = req.Params, req.OperationName
		return next(req)
	}
	srv, err := api.NewServer(h, api.WithMiddleware(mw))
	if err != nil {
		drv.Fatal("NewServer: %v", err)
	}
	var lastReq *http.Request
	client, err := api.NewClient("http://x", api.WithClient(direct{srv, &lastReq}))
	if err != nil {
		drv.Fatal("NewClient: %v", err)
	}
	cv := reflect.ValueOf(client)
	ctx := reflect.ValueOf(context.Background())
	alpha := []string{"a", ",", ".", ";", "=", "|", " ", "%", "/", "&", "+", "?", "#", "\"", "\\", "[", "]", "é"}
	var respelled int64
	var evals, nontriv int64
	for _, op := range api.VerifOps {
		var c cell
		if err := json.Unmarshal([]byte(op.Cell), &c); err != nil {
			drv.Fatal("cell: %v", err)
		}
		if c.Multi != nil {
			e, n := runMulti(op, c, cv, ctx, h, alpha)
			evals += e
			nontriv += n
			continue
		}
		ft, ok := op.Params.FieldByName("P")
		if !ok {
			drv.Fatal("%s has no field P", op.Params)
		}
		base := ft.Type
		opt := isOptWrapper(base)
		if opt {
			vf, _ := base.FieldByName("Value")
			base = vf.Type
		}
		cands := candidates(base, c, alpha)
		if opt {
			for i := range cands {
				x := reflect.New(ft.Type).Elem()
				x.FieldByName("Value").Set(cands[i].v)
				x.FieldByName("Set").SetBool(true)
				cands[i].v = x
			}
			cands = append(cands, cand{reflect.New(ft.Type).Elem(), true, "<absent>", "absent"})
		} else if !c.Required && (base.Kind() == reflect.Slice || base.Kind() == reflect.Map) {
			// optional collections use nil as "absent": already among the candidates
		}
		m := cv.MethodByName(op.Name)
		if !m.IsValid() {
			drv.Fatal("client has no method %s", op.Name)
		}
		for _, cd := range cands {
			evals++
			nontriv++
			params := reflect.New(op.Params).Elem()
			params.FieldByName("P").Set(cd.v)
			h.Got, h.Calls = nil, 0
			mwParams, mwOp = nil, ""
			var callErr error
			var pan any
			func() {
				defer func() { pan = recover() }()
				out := m.Call([]reflect.Value{ctx, params})
				if !out[0].IsNil() {
					callErr = out[0].Interface().(error)
				}
			}()
			k := pkase{Cell: c.String(), Op: op.Name, Value: cd.desc}
			report := func(class string) {
				drv.Violation(map[string]string{"class": "param/" + class + "/" + c.String(), "kind": class, "in": c.Loc, "style": c.Style, "explode": fmt.Sprint(c.Explode), "shape": c.Shape, "value_class": cd.class}, len(cd.desc), k)
			}
			switch {
			case pan != nil:
				k.Error = fmt.Sprint(pan)
				report("panic")
			case callErr != nil:
				k.Error = callErr.Error()
				if len(k.Error) > 300 {
					k.Error = k.Error[:300]
				}
				if h.Calls != 0 {
					report("error-reported-but-handler-ran")
				}
				if cd.core {
					report("core-value-not-delivered")
				}
			default:
				if h.Calls != 1 {
					report("no-error-but-handler-not-invoked-once")
					break
				}
				got := reflect.ValueOf(h.Got).FieldByName("P")
				want := cd.v
				if cd.desc == "<absent>" && c.Default != nil {
					// absent with a schema default arrives as the default
					want = reflect.New(ft.Type).Elem()
					want.FieldByName("Set").SetBool(true)
					dv := defaultValue(base, c.Default)
					want.FieldByName("Value").Set(dv)
				}
				k.Got = fmt.Sprintf("%#v", got.Interface())
				if !deepEq(got, want) {
					// an optional exploded object with no member set has no serialization at all: identified with absent
					if cd.class == "empty-object" && !c.Required && got.Kind() == reflect.Struct {
						if setF := got.FieldByName("Set"); setF.IsValid() && !setF.Bool() {
							break
						}
					}
					if cd.core {
						report("core-value-changed")
					} else {
						report("different-value-delivered")
					}
				}
				// equivalent spellings of the request path (RFC 3986 6.2.2: hex digits of an escape in
				// the other case, an unreserved character escaped needlessly) deliver the same arguments
				if c.Loc == "path" && lastReq != nil {
					// "" stands for the URL a net/http server builds from the request line (RawPath is
					// kept only when it is not the default encoding of the path)
					for _, v := range append([]string{""}, respellPath(lastReq.URL.EscapedPath())...) {
						respelled++
						r2 := lastReq.Clone(context.Background())
						u2 := *lastReq.URL
						if v == "" {
							pu, err := url.ParseRequestURI(lastReq.URL.RequestURI())
							if err != nil {
								continue
							}
							u2.Path, u2.RawPath = pu.Path, pu.RawPath
							v = "(as parsed from the request line) " + pu.EscapedPath()
						} else {
							un, err := url.PathUnescape(v)
							if err != nil || un != lastReq.URL.Path {
								drv.Fatal("respelling %q of %q is not equivalent", v, lastReq.URL.EscapedPath())
							}
							u2.RawPath = v
						}
						r2.URL = &u2
						h.Got, h.Calls = nil, 0
						rec := httptest.NewRecorder()
						var pan2 any
						func() {
							defer func() { pan2 = recover() }()
							srv.ServeHTTP(rec, r2)
						}()
						same := pan2 == nil && h.Calls == 1 && deepEq(reflect.ValueOf(h.Got).FieldByName("P"), got)
						if !same {
							k.Detail = fmt.Sprintf("path %q delivered %s; equivalent spelling %q: status %d, handler calls %d, panic %v", lastReq.URL.EscapedPath(), k.Got, v, rec.Code, h.Calls, pan2)
							if h.Calls == 1 {
								k.Detail += fmt.Sprintf(", delivered %#v", reflect.ValueOf(h.Got).FieldByName("P").Interface())
							}
							report("equivalent-path-spelling-delivers-something-else")
							break
						}
					}
				}
				// middleware saw the same arguments as the handler
				found := false
				for pk, pv := range mwParams {
					if pk.Name == "p" {
						found = true
						if !deepEq(reflect.ValueOf(pv), got) {
							k.Detail = fmt.Sprintf("middleware saw %+v", pv)
							report("middleware-params-differ-from-handler-arguments")
						}
					}
				}
				if !found || !strings.EqualFold(mwOp, op.Name) {
					k.Detail = fmt.Sprintf("middleware operation %q params %v", mwOp, mwParams)
					report("middleware-did-not-see-the-parameter")
				}
			}
		}
	}
	drv.Eval(evals)
	drv.NontrivialN(nontriv)
	drv.Stat("parameter_calls", evals)
	drv.Stat("respelled_path_requests", respelled)
	drv.Sample(map[string]any{"operation": "GET /cN/{p} path/matrix/explode=true/object/required", "value": `{a:"x y" b:"é"}`, "route": "Client.CN -> in-process transport -> Server -> middleware -> handler"})
}

func defaultValue(base reflect.Type, d any) reflect.Value {
	switch {
	case base == timeT:
		t, _ := time.Parse(time.RFC3339, d.(string))
		return reflect.ValueOf(t)
	case base == uuidT:
		return reflect.ValueOf(uuid.MustParse(d.(string)))
	}
	v := reflect.ValueOf(d)
	if f, ok := d.(float64); ok && base.Kind() != reflect.Float64 && base.Kind() != reflect.Float32 {
		return reflect.ValueOf(int64(f)).Convert(base)
	}
	return v.Convert(base)
}

// runMulti drives an operation with several parameters: each parameter takes three core values of its
// own (chosen so that no two parameters of the call carry the same items), all combinations; every
// parameter must arrive as sent.
func runMulti(op api.VerifOp, c cell, cv, ctx reflect.Value, h *api.VerifHandler, alpha []string) (evals, nontriv int64) {
	n := len(c.Multi)
	choices := make([][]cand, n)
	fields := make([]reflect.StructField, n)
	for i, mc := range c.Multi {
		ft, ok := op.Params.FieldByName(fmt.Sprintf("P%d", i))
		if !ok {
			drv.Fatal("%s has no field P%d", op.Params, i)
		}
		fields[i] = ft
		base := ft.Type
		opt := isOptWrapper(base)
		if opt {
			vf, _ := base.FieldByName("Value")
			base = vf.Type
		}
		var core []cand
		for _, cd := range candidates(base, mc, alpha) {
			if cd.core && (cd.class == "strings" || cd.class == "ints" || cd.class == "object" || cd.class == "map" || cd.class == "string" || cd.class == "") {
				core = append(core, cd)
			}
		}
		if len(core) == 0 {
			drv.Fatal("no core candidates for %s of %s", ft.Name, op.Name)
		}
		// the longest values first (several items), then spread by parameter index
		for k := 0; k < 3; k++ {
			cd := core[(len(core)-1-i-7*k+10*len(core))%len(core)]
			if opt {
				x := reflect.New(ft.Type).Elem()
				x.FieldByName("Value").Set(cd.v)
				x.FieldByName("Set").SetBool(true)
				cd.v = x
			}
			choices[i] = append(choices[i], cd)
		}
		if opt || (!mc.Required && (base.Kind() == reflect.Slice || base.Kind() == reflect.Map)) {
			choices[i] = append(choices[i], cand{reflect.New(ft.Type).Elem(), true, "<absent>", "absent"})
		}
	}
	m := cv.MethodByName(op.Name)
	idx := make([]int, n)
	for {
		params := reflect.New(op.Params).Elem()
		var desc []string
		for i := range idx {
			params.FieldByName(fields[i].Name).Set(choices[i][idx[i]].v)
			desc = append(desc, fields[i].Name+"="+choices[i][idx[i]].desc)
		}
		evals++
		nontriv++
		h.Got, h.Calls = nil, 0
		var callErr error
		var pan any
		func() {
			defer func() { pan = recover() }()
			out := m.Call([]reflect.Value{ctx, params})
			if !out[0].IsNil() {
				callErr = out[0].Interface().(error)
			}
		}()
		k := pkase{Cell: "several parameters in one operation", Op: op.Name, Value: strings.Join(desc, " ")}
		report := func(class string) {
			var locs []string
			for _, mc := range c.Multi {
				locs = append(locs, mc.String())
			}
			k.Detail = strings.Join(locs, " + ")
			drv.Violation(map[string]string{"class": "param/several/" + class, "kind": class, "operation": op.Name}, len(k.Value), k)
		}
		switch {
		case pan != nil:
			k.Error = fmt.Sprint(pan)
			report("panic")
		case callErr != nil:
			k.Error = callErr.Error()
			report("core-values-not-delivered")
		case h.Calls != 1:
			report("no-error-but-handler-not-invoked-once")
		default:
			got := reflect.ValueOf(h.Got)
			for i := range idx {
				g, w := got.FieldByName(fields[i].Name), choices[i][idx[i]].v
				if !deepEq(g, w) {
					// an optional exploded object with no member set has no serialization: identified with absent
					k.Got = fmt.Sprintf("%s arrived as %#v", fields[i].Name, g.Interface())
					report("a-parameter-arrived-changed")
					break
				}
			}
		}
		// next combination
		j := 0
		for ; j < n; j++ {
			idx[j]++
			if idx[j] < len(choices[j]) {
				break
			}
			idx[j] = 0
		}
		if j == n {
			break
		}
	}
	return
}

// respellPath: spellings of an escaped path that RFC 3986 6.2.2 calls equivalent to it - every escape
// with its hex digits in the other case, the first and the last unreserved character escaped needlessly
// (lower- and upper-case hex), and both at once.
func respellPath(p string) []string {
	flip := func(s string) string {
		b := []byte(s)
		for i := 0; i+2 < len(b); i++ {
			if b[i] == '%' {
				for j := i + 1; j <= i+2; j++ {
					switch {
					case b[j] >= 'A' && b[j] <= 'F':
						b[j] += 'a' - 'A'
					case b[j] >= 'a' && b[j] <= 'f':
						b[j] -= 'a' - 'A'
					}
				}
				i += 2
			}
		}
		return string(b)
	}
	unres := func(c byte) bool {
		return c >= 'a' && c <= 'z' || c >= 'A' && c <= 'Z' || c >= '0' && c <= '9' || c == '-' || c == '_' || c == '.' || c == '~'
	}
	var pos []int
	for i := 0; i < len(p); i++ {
		if p[i] == '%' {
			i += 2
			continue
		}
		if unres(p[i]) {
			pos = append(pos, i)
		}
	}
	escAt := func(s string, i int, format string) string { return s[:i] + fmt.Sprintf(format, s[i]) + s[i+1:] }
	set := map[string]bool{}
	var out []string
	add := func(v string) {
		if v != p && !set[v] {
			set[v] = true
			out = append(out, v)
		}
	}
	add(flip(p))
	if len(pos) > 0 {
		first, last := pos[0], pos[len(pos)-1]
		add(escAt(p, first, "%%%02x"))
		add(escAt(p, last, "%%%02X"))
		add(flip(escAt(p, last, "%%%02X")))
	}
	return out
}
