// C04 — JSON encoding of generated types round-trips and conforms to the schema.
//
// Stage 1: every schema S of the grammar (C03's, plus format-typed leaves and defaults) becomes a
// root object R = {v: S (required), o: S (optional), n: S + nullable (optional)}; types are
// regenerated; glue emitted from the IR lists root types, sum variants and enum values.
// Stage 2 (drivers/c04): schema-directed enumeration of Go values of every root type (Go-first),
// and of valid JSON instances decoded into them (JSON-first); oracles of DESIGN.md C04.
package main

import (
	"encoding/json"
	"fmt"
	"sort"
	"strings"

	"github.com/ogen-go/ogen/gen/ir"

	"verif/internal/grammar"
	"verif/internal/regen"
	"verif/internal/vf"
)

type M = grammar.M

func main() {
	r := vf.Start("C04", "exploration")
	schemas, _, comps := grammar.Schemas(r.Thorough())
	// format-typed leaves, defaults, maps, nested optionals
	for _, f := range []M{
		{"type": "integer", "format": "int32"}, {"type": "integer", "format": "int64"}, {"type": "integer", "format": "uint8"}, {"type": "integer", "format": "int16"},
		{"type": "number", "format": "float"}, {"type": "number", "format": "double"},
		{"type": "string", "format": "uuid"}, {"type": "string", "format": "date"}, {"type": "string", "format": "date-time"}, {"type": "string", "format": "time"},
		{"type": "string", "format": "duration"}, {"type": "string", "format": "ipv4"}, {"type": "string", "format": "ipv6"}, {"type": "string", "format": "ip"},
		{"type": "string", "format": "uri"}, {"type": "string", "format": "byte"}, {"type": "string", "format": "int64"}, {"type": "string", "format": "float64"},
		{"type": "integer", "format": "unix"}, {"type": "integer", "format": "unix-milli"}, {"type": "string", "format": "unix-nano"}, {"type": "string", "format": "mac"},
		{"type": "string", "default": "dflt"}, {"type": "integer", "default": 7}, {"type": "boolean", "default": true}, {"type": "number", "default": 0.5},
		{"type": "array", "items": M{"type": "string", "format": "date-time"}}, {"type": "array", "items": M{"type": "string", "format": "uuid"}, "uniqueItems": true},
		{"type": "object", "additionalProperties": M{"type": "string", "format": "date"}},
		{"type": "object", "additionalProperties": M{"type": "array", "items": M{"type": "integer"}}},
		{"type": "object", "properties": M{"p": M{"type": "string", "default": "x"}, "q": M{"type": "integer", "nullable": true}}, "additionalProperties": M{"type": "boolean"}},
		{"type": "object", "properties": M{"p": M{"type": "object", "properties": M{"q": M{"type": "array", "items": M{"type": "string"}, "nullable": true}}}}},
		{"type": "array", "items": M{"type": "string", "nullable": true}}, {"type": "array", "items": M{"type": "array", "items": M{"type": "string"}}},
	} {
		schemas = append(schemas, f)
	}
	// the whole format table of gen/schema_gen_primitive.go (a seeded change to the string-encoded
	// unsigned codecs was missed while only string/int64 was present)
	seenFmt := map[string]bool{}
	for _, s := range schemas {
		if f, ok := s["format"].(string); ok && len(s) == 2 {
			seenFmt[fmt.Sprint(s["type"], "/", f)] = true
		}
	}
	fmtTable := map[string][]string{
		"integer": {"int8", "int16", "int32", "int64", "uint", "uint8", "uint16", "uint32", "uint64", "unix", "unix-seconds", "unix-nano", "unix-micro", "unix-milli"},
		"number":  {"float", "double", "int32", "int64"},
		"string": {"byte", "base64", "date-time", "date", "time", "duration", "uuid", "mac", "ip", "ipv4", "ipv6", "uri", "password", "email", "hostname",
			"int", "int8", "int16", "int32", "int64", "uint", "uint8", "uint16", "uint32", "uint64", "unix", "unix-seconds", "unix-nano", "unix-micro", "unix-milli", "float32", "float64"},
	}
	for _, typ := range []string{"integer", "number", "string"} {
		for _, f := range fmtTable[typ] {
			if !seenFmt[typ+"/"+f] {
				schemas = append(schemas, M{"type": typ, "format": f})
			}
		}
	}
	// every format as a variant of a sum told apart by JSON type, next to a variant of another JSON
	// type: the case a variant is decoded under is decided from its JSON representation (a string for
	// the stringified numbers), in more than one place of the generator
	for _, typ := range []string{"integer", "number", "string"} {
		for _, f := range fmtTable[typ] {
			schemas = append(schemas, M{"oneOf": []any{M{"type": typ, "format": f}, M{"type": "boolean"}}})
		}
	}
	schemas = append(schemas,
		M{"oneOf": []any{M{"type": "string", "format": "int64"}, M{"type": "number"}}},
		M{"anyOf": []any{M{"type": "string", "format": "float64"}, M{"type": "integer"}, M{"type": "boolean"}}},
		M{"oneOf": []any{M{"type": "string", "format": "uuid"}, M{"type": "integer", "format": "int32"}, M{"type": "array", "items": M{"type": "string", "format": "date"}}}},
	)
	roots := M{}
	for k, v := range comps {
		roots[k] = v
	}
	var rootNames []string
	rootSchema := map[string]M{}
	for i, s := range schemas {
		if _, typeless := s["type"]; !typeless && s["oneOf"] == nil && s["anyOf"] == nil && s["allOf"] == nil && s["$ref"] == nil {
			continue
		}
		name := fmt.Sprintf("R%d", i)
		props := M{"v": s, "o": s}
		if s["$ref"] == nil && s["oneOf"] == nil && s["anyOf"] == nil && s["allOf"] == nil {
			props["n"] = grammar.Merge(s, M{"nullable": true})
		}
		root := M{"type": "object", "required": []string{"v"}, "properties": props}
		roots[name] = root
		rootSchema[name] = root
		rootNames = append(rootNames, name)
	}
	// named components: a schema that is a component of its own becomes a named Go type (an alias
	// of a slice / map / primitive, or a struct) with its own Encode / Decode, which an inline schema
	// never exercises; each is driven directly and as a required / optional member through $ref
	// (a seeded change to the encoder of aliases of nullable arrays was missed without them)
	named := 0
	for i, s := range schemas {
		typ, _ := s["type"].(string)
		if typ == "" || s["$ref"] != nil {
			continue
		}
		if f, _ := s["format"].(string); f != "" && f != "byte" && f != "base64" && typ == "string" {
			continue // named aliases of time / uuid / ip / url types: the value builder works on the library types
		}
		if typ != "array" && typ != "object" && i%2 == 1 {
			continue // every second primitive leaf
		}
		variants := []M{s}
		if s["nullable"] == nil && (typ == "array" || typ == "object" || i%4 == 0) {
			variants = append(variants, grammar.Merge(s, M{"nullable": true}))
		}
		for vi, v := range variants {
			cn := fmt.Sprintf("N%d%c", i, 'a'+vi)
			roots[cn] = v
			rootSchema[cn] = v
			rootNames = append(rootNames, cn)
			rn := "R" + cn
			root := M{"type": "object", "required": []string{"v"}, "properties": M{"v": M{"$ref": "#/components/schemas/" + cn}, "o": M{"$ref": "#/components/schemas/" + cn}}}
			roots[rn] = root
			// the reference validator sees the member schemas inlined
			rootSchema[rn] = M{"type": "object", "required": []string{"v"}, "properties": M{"v": v, "o": v}}
			rootNames = append(rootNames, rn)
			named++
		}
	}
	paths := M{}
	for _, n := range rootNames {
		paths["/"+n] = M{"post": M{"operationId": "op" + n, "requestBody": M{"required": true, "content": M{"application/json": M{"schema": M{"$ref": "#/components/schemas/" + n}}}}, "responses": M{"200": M{"description": "ok"}}}}
	}
	spec := M{"openapi": "3.0.3", "info": M{"title": "t", "version": "1"}, "paths": paths, "components": M{"schemas": roots}}
	data, _ := json.Marshal(spec)

	sc := regen.NewScratch(r)
	defer sc.Close()
	opts := regen.Features("paths/server", "ogen/unimplemented")
	opts.Generator.IgnoreNotImplemented = []string{"all"}
	g, err := regen.Generate(data, opts, sc.Path("api"), "api")
	if err != nil {
		if strings.HasPrefix(err.Error(), "PANIC") {
			r.Violation(map[string]string{"class": "generator-panic-on-grammar-spec"}, 0, M{"error": err.Error()})
			r.Finish("generation panicked")
		}
		vf.Fatal("the C04 spec does not generate: %v", err)
	}
	types := g.Types()
	var names []string
	for n := range types {
		names = append(names, n)
	}
	sort.Strings(names)
	var tb, sums, enums strings.Builder
	tb.WriteString("package api\n\nimport \"reflect\"\n\n// VerifTypes: generated types with JSON codecs.\nvar VerifTypes = map[string]reflect.Type{\n")
	generated := 0
	for _, n := range names {
		t := types[n]
		if !t.HasFeature("json") || t.IsInterface() {
			continue
		}
		switch t.Kind {
		case ir.KindStruct, ir.KindMap, ir.KindAlias, ir.KindEnum, ir.KindSum, ir.KindGeneric:
			fmt.Fprintf(&tb, "\t%q: reflect.TypeOf((*%s)(nil)).Elem(),\n", n, t.Go())
		}
		if t.Kind == ir.KindSum {
			fmt.Fprintf(&sums, "\t%q: {", n)
			for _, v := range t.SumOf {
				fmt.Fprintf(&sums, "{string(%s%s), %q}, ", v.Name, t.Name, v.Name)
			}
			sums.WriteString("},\n")
		}
		if t.Kind == ir.KindEnum {
			fmt.Fprintf(&enums, "\t%q: {", n)
			for _, v := range t.EnumVariants {
				fmt.Fprintf(&enums, "%s, ", v.Name)
			}
			enums.WriteString("},\n")
		}
	}
	tb.WriteString("}\n\n// VerifSums: sum type -> (type constant, field name).\nvar VerifSums = map[string][][2]string{\n" + sums.String() + "}\n\n")
	tb.WriteString("// VerifEnums: enum type -> values.\nvar VerifEnums = map[string][]any{\n" + enums.String() + "}\n")
	sc.Write("api/verif_glue.go", []byte(tb.String()))
	var kept []string
	for _, n := range rootNames {
		if _, ok := types[n]; ok {
			kept = append(kept, n)
			generated++
		}
	}
	reg := M{"roots": kept, "schemas": rootSchema, "components": roots}
	rb, _ := json.Marshal(reg)
	sc.CopyDriver("c04", "driver", "refval", "internal/jsonref")
	sc.Write("driver/roots.json", rb)
	sc.BuildChecked(r, "driver", "driver.bin")
	var args []string
	if r.Replay != "" {
		var c struct {
			Root string `json:"root"`
		}
		r.ReplayCase(&c)
		args = []string{"--only-root", c.Root}
	}
	sum := sc.RunDriver(r, "driver.bin", nil, args...)
	r.Set("schemas", len(schemas))
	r.Set("named_component_types", named)
	r.Set("root_types_generated", generated)
	r.Set("root_types_not_generated", len(rootNames)-generated)
	for k, v := range sum.Stats {
		r.Set(k, v)
	}
	r.Assume("oracles: internal/jsonref (well-formedness, semantic equality of JSON texts) and drivers/refval (validity against the source schema); both are this repository's reference models",
		"identified by the oracle: nil and empty maps; a nil slice/map inside a wrapper that already carries nullness (OptNil...{Set:true}); an unset optional member whose schema has a default decodes as that default",
		"outside the domain: integer+number sums (overlapping JSON), values the reference validator calls ambiguous (numbers beyond 2^53, non-dyadic multipleOf)")
	r.Finish("types: for every schema S of the grammar (C03's + 34 format/default/map leaves) a root object {v: S required, o: S optional, n: S nullable optional} regenerated with the generator under check. Go-first: schema-directed enumeration of values of each root type by reflection (Opt/Nil/OptNil wrappers in all states, nil vs empty vs 1-3 element slices incl. duplicates, every sum variant, every enum value, boundary numbers, escape-heavy / Unicode / NUL strings, format values at resolution), single-field variation over a valid base (pairs of fields in thorough); every value passing its own Validate(): Encode is well-formed JSON, valid under the reference validator for the source schema, Decode succeeds and deep-equals (absent/null/present, nil/empty, variant), Encode.Decode.Encode is a byte fixpoint. JSON-first: every pool instance valid for the root schema is decoded, validated, re-encoded and compared semantically. non-trivial = distinct (root type, value) that passed validation.")
}
