// C14 — checked-in generated packages are exactly what the current generator produces.
//
// Finite and complete: every //go:generate directive of internal/integration/generate.go and
// examples/generate.go whose input is present and non-empty is re-run with the cmd/ogen (and
// cmd/jschemagen, tools/mkformattest) built from the tree under check, into a scratch target, and
// compared byte for byte with the checked-in files.
package main

import (
	"bytes"
	"fmt"
	"os"
	"os/exec"
	"path/filepath"
	"regexp"
	"runtime"
	"sort"
	"strings"
	"sync"

	"verif/internal/regen"
	"verif/internal/vf"
)

var genName = regexp.MustCompile(`^(oas|openapi).*_gen(_test)?\.go$`)

type directive struct {
	Base   string   `json:"dir"`
	Tool   string   `json:"tool"`
	Args   []string `json:"args"`
	Target string   `json:"target"`
	Input  string   `json:"input"`
	Line   string   `json:"directive"`
}

type kase struct {
	Directive directive `json:"directive"`
	OnlyFresh []string  `json:"only_in_fresh_output,omitempty"`
	OnlyRepo  []string  `json:"only_in_repository,omitempty"`
	Differ    []string  `json:"files_that_differ,omitempty"`
	Error     string    `json:"error,omitempty"`
	FirstDiff string    `json:"first_difference,omitempty"`
}

func build(repo, pkg, out string) {
	cmd := exec.Command("go", "build", "-o", out, pkg)
	cmd.Dir = repo
	cmd.Env = append(os.Environ(), "GOFLAGS=-mod=mod", "GOPROXY=off", "GOSUMDB=off", "GOTOOLCHAIN=local")
	if b, err := cmd.CombinedOutput(); err != nil {
		vf.Fatal("go build %s: %v\n%s", pkg, err, b)
	}
}

func firstDiff(a, b []byte) string {
	la, lb := bytes.Split(a, []byte("\n")), bytes.Split(b, []byte("\n"))
	for i := 0; i < len(la) && i < len(lb); i++ {
		if !bytes.Equal(la[i], lb[i]) {
			return fmt.Sprintf("line %d: repository %q / fresh %q", i+1, trunc(string(la[i])), trunc(string(lb[i])))
		}
	}
	return fmt.Sprintf("length: repository %d lines / fresh %d lines", len(la), len(lb))
}

func trunc(s string) string {
	if len(s) > 160 {
		return s[:160] + "..."
	}
	return s
}

func main() {
	r := vf.Start("C14", "exploration")
	update := os.Getenv("VERIF_C14_UPDATE") != "" // maintenance only: refresh /repo after a template fix
	sc := regen.NewScratch(r)
	defer sc.Close()
	tools := map[string]string{"cmd/ogen": sc.Path("ogen.bin"), "cmd/jschemagen": sc.Path("jschemagen.bin"), "tools/mkformattest": sc.Path("mkformattest.bin")}
	for pkg, out := range tools {
		build(r.Repo, "./"+pkg, out)
	}
	var ds []directive
	skipped := []string{}
	re := regexp.MustCompile(`^//go:generate go run (\S+) (.*)$`)
	pkgOf := map[string]string{}
	for _, base := range []string{"internal/integration", "examples"} {
		b, err := os.ReadFile(filepath.Join(r.Repo, base, "generate.go"))
		if err != nil {
			vf.Fatal("%v", err)
		}
		if m := regexp.MustCompile(`(?m)^package (\w+)`).FindSubmatch(b); m != nil {
			pkgOf[base] = string(m[1])
		}
		for _, line := range strings.Split(string(b), "\n") {
			m := re.FindStringSubmatch(strings.TrimSpace(line))
			if m == nil {
				continue
			}
			var tool string
			for k := range tools {
				if strings.HasSuffix(m[1], k) {
					tool = k
				}
			}
			if tool == "" {
				vf.Fatal("unknown generator in directive: %s", line)
			}
			d := directive{Base: base, Tool: tool, Args: strings.Fields(m[2]), Line: strings.TrimSpace(line)}
			for i, a := range d.Args {
				if (a == "--target" || a == "-target" || a == "--output") && i+1 < len(d.Args) {
					d.Target = d.Args[i+1]
				}
			}
			if tool != "tools/mkformattest" {
				d.Input = d.Args[len(d.Args)-1]
				st, err := os.Stat(filepath.Join(r.Repo, base, d.Input))
				if err != nil || st.Size() == 0 {
					skipped = append(skipped, d.Target+" (input "+d.Input+" missing or empty)")
					continue
				}
			}
			ds = append(ds, d)
		}
	}
	if len(ds) < 10 {
		vf.Fatal("only %d directives found", len(ds))
	}
	var wg sync.WaitGroup
	sem := make(chan struct{}, runtime.NumCPU())
	var mu sync.Mutex
	files := 0
	for i, d := range ds {
		wg.Add(1)
		sem <- struct{}{}
		go func(i int, d directive) {
			defer wg.Done()
			defer func() { <-sem }()
			k := kase{Directive: d}
			out := sc.Path(fmt.Sprintf("out/%d", i))
			_ = os.MkdirAll(out, 0o755)
			single := d.Tool != "cmd/ogen" // jschemagen / mkformattest write one file
			freshTarget := out
			if single {
				freshTarget = filepath.Join(out, filepath.Base(d.Target))
			}
			var args []string
			for j, a := range d.Args {
				switch {
				case j > 0 && (d.Args[j-1] == "--target" || d.Args[j-1] == "-target" || d.Args[j-1] == "--output"):
					args = append(args, freshTarget)
				case a == "-v":
				default:
					args = append(args, a)
				}
			}
			cmd := exec.Command(tools[d.Tool], args...)
			cmd.Dir = filepath.Join(r.Repo, d.Base)
			// what `go generate` itself provides to the directive
			cmd.Env = append(os.Environ(), "GOPACKAGE="+pkgOf[d.Base], "GOFILE=generate.go")
			if b, err := cmd.CombinedOutput(); err != nil {
				k.Error = fmt.Sprintf("%v: %s", err, trunc(string(b)))
				r.Violation(map[string]string{"class": "generator-fails-on-checked-in-input", "target": d.Target}, len(d.Target), k)
				return
			}
			repoDir := filepath.Join(r.Repo, d.Base, d.Target)
			fresh := map[string][]byte{}
			have := map[string][]byte{}
			if single {
				b, _ := os.ReadFile(freshTarget)
				fresh[filepath.Base(d.Target)] = b
				if hb, err := os.ReadFile(repoDir); err == nil {
					have[filepath.Base(d.Target)] = hb
				}
				repoDir = filepath.Dir(repoDir)
			} else {
				ents, _ := os.ReadDir(out)
				for _, e := range ents {
					b, _ := os.ReadFile(filepath.Join(out, e.Name()))
					fresh[e.Name()] = b
				}
				ents, _ = os.ReadDir(repoDir)
				for _, e := range ents {
					if !e.IsDir() && genName.MatchString(e.Name()) {
						b, _ := os.ReadFile(filepath.Join(repoDir, e.Name()))
						have[e.Name()] = b
					}
				}
			}
			for n, b := range fresh {
				hb, ok := have[n]
				switch {
				case !ok:
					k.OnlyFresh = append(k.OnlyFresh, n)
				case !bytes.Equal(b, hb):
					k.Differ = append(k.Differ, n)
					if k.FirstDiff == "" {
						k.FirstDiff = n + " " + firstDiff(hb, b)
					}
				}
				if update && (!ok || !bytes.Equal(b, hb)) {
					_ = os.WriteFile(filepath.Join(repoDir, n), b, 0o644)
				}
			}
			for n := range have {
				if _, ok := fresh[n]; !ok {
					k.OnlyRepo = append(k.OnlyRepo, n)
					if update {
						_ = os.Remove(filepath.Join(repoDir, n))
					}
				}
			}
			sort.Strings(k.OnlyFresh)
			sort.Strings(k.OnlyRepo)
			sort.Strings(k.Differ)
			mu.Lock()
			files += len(fresh)
			mu.Unlock()
			r.Eval(1)
			r.Nontrivial(d.Base + "/" + d.Target)
			if len(k.OnlyFresh)+len(k.OnlyRepo)+len(k.Differ) > 0 {
				r.Violation(map[string]string{"class": "checked-in-package-differs-from-fresh-output/" + d.Target, "target": d.Target}, len(k.Differ), k)
			}
			if i%13 == 0 {
				r.Sample(map[string]any{"directive": d.Line, "files_compared": len(fresh)})
			}
		}(i, d)
	}
	wg.Wait()
	r.Set("directives", len(ds))
	r.Set("directives_skipped", skipped)
	r.Set("files_compared", files)
	r.Assume("directives whose input spec is an emptied file in this sandbox (ex_k8s) are skipped and listed",
		"generators are built from the working tree with GOTOOLCHAIN=local and run with the directive's exact flags and working directory; only the target is redirected to a scratch directory")
	r.Finish("finite, complete enumeration: every //go:generate directive (cmd/ogen, cmd/jschemagen, tools/mkformattest) of internal/integration/generate.go and examples/generate.go with a present, non-empty input; oracle = same set of generated file names and byte-identical contents. distinct non-trivial = directive (each regenerates a different package).")
}
