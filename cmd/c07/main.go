// C07 — $ref is transparent (referencing equals inlining) and reference cycles terminate.
//
// For every base document (reference graphs over every component kind: single refs, chains,
// shared targets under different names / paths / operations, targets in other files, chains
// through files, back references) every subset of its reference sites (all 2^r for r <= 10, all
// subsets of size <= 2 and >= r-1 above) is inlined by an independent inliner working on the raw
// document tree; parser.Parse results must be equal modulo Ref and location fields, generation
// must succeed for both. Cycles of every kind and chains around the depth limit must terminate
// with the prescribed outcome. Parse(Expand(api)) must equal api.
package main

import (
	"encoding/json"
	"fmt"
	"github.com/ogen-go/ogen/gen/ir"
	"net/url"
	"os"
	"path"
	"reflect"
	"regexp"
	"runtime"
	"runtime/debug"
	"sort"
	"strconv"
	"strings"
	"sync"
	"time"

	"github.com/go-faster/yaml"
	"github.com/ogen-go/ogen"
	"github.com/ogen-go/ogen/gen"
	"github.com/ogen-go/ogen/gen/genfs"
	"github.com/ogen-go/ogen/jsonschema"
	"github.com/ogen-go/ogen/openapi/parser"

	"verif/internal/vf"
)

type M = map[string]any

// ---------- structural dump of *openapi.API, ignoring Ref and location fields ----------

func dump(v reflect.Value, sb *strings.Builder, seen map[uintptr]int, depth int) {
	if depth > 80 {
		sb.WriteString("<deep>")
		return
	}
	if !v.IsValid() {
		sb.WriteString("<invalid>")
		return
	}
	t := v.Type()
	tn := t.String()
	if strings.HasPrefix(tn, "location.") || tn == "jsonpointer.RefKey" || strings.Contains(tn, "yaml.Node") {
		return
	}
	if v.CanInterface() && (strings.Contains(tn, "egexp") || strings.Contains(tn, "big.Rat")) {
		if v.Kind() == reflect.Pointer && v.IsNil() {
			sb.WriteString("nil")
			return
		}
		if s, ok := v.Interface().(fmt.Stringer); ok {
			sb.WriteString(s.String())
			return
		}
	}
	switch v.Kind() {
	case reflect.Pointer:
		if v.IsNil() {
			sb.WriteString("nil")
			return
		}
		if id, ok := seen[v.Pointer()]; ok {
			fmt.Fprintf(sb, "<cycle#%d>", id)
			return
		}
		seen[v.Pointer()] = len(seen)
		sb.WriteString("&")
		dump(v.Elem(), sb, seen, depth+1)
		delete(seen, v.Pointer())
	case reflect.Interface:
		if v.IsNil() {
			sb.WriteString("nil")
			return
		}
		dump(v.Elem(), sb, seen, depth+1)
	case reflect.Struct:
		sb.WriteString(t.Name() + "{")
		for i := 0; i < v.NumField(); i++ {
			f := t.Field(i)
			if f.Name == "Ref" || f.Name == "Pointer" || f.Name == "Locator" || !f.IsExported() {
				continue
			}
			sb.WriteString(f.Name + ":")
			dump(v.Field(i), sb, seen, depth+1)
			sb.WriteString(",")
		}
		sb.WriteString("}")
	case reflect.Slice, reflect.Array:
		if v.Kind() == reflect.Slice && v.IsNil() {
			sb.WriteString("[]")
			return
		}
		if t.Elem().Kind() == reflect.Uint8 {
			fmt.Fprintf(sb, "%q", v.Bytes())
			return
		}
		sb.WriteString("[")
		for i := 0; i < v.Len(); i++ {
			dump(v.Index(i), sb, seen, depth+1)
			sb.WriteString(",")
		}
		sb.WriteString("]")
	case reflect.Map:
		keys := v.MapKeys()
		sort.Slice(keys, func(i, j int) bool { return fmt.Sprint(keys[i]) < fmt.Sprint(keys[j]) })
		sb.WriteString("map{")
		for _, k := range keys {
			fmt.Fprintf(sb, "%v:", k)
			dump(v.MapIndex(k), sb, seen, depth+1)
			sb.WriteString(",")
		}
		sb.WriteString("}")
	default:
		fmt.Fprintf(sb, "%v", v)
	}
}

// ---------- running the real parser and generator on a (multi-file) document ----------

type doc struct {
	Root  string       `json:"root"`
	Files map[string]M `json:"files"`
	// ParseOnly: compare parsed APIs only (the generator refuses two components of the same name
	// from different files with a name-conflict diagnostic when they yield Go type names, and Expand
	// reports a "local ref conflict" because it cannot name both: diagnostics by design)
	ParseOnly bool `json:"parse_only,omitempty"`
}

type result struct {
	Dump        string
	ParseErr    string
	GenErr      string
	IRShape     string // name-free structural signature of what would be generated (operations, types, validators)
	Panic       string
	Expand      string // "" ok, else what differs
	ExpandCause string
	Took        time.Duration
}

func remote(d doc) gen.RemoteOptions {
	return gen.RemoteOptions{
		ReadFile: func(p string) ([]byte, error) {
			p = strings.TrimPrefix(p, "/")
			f, ok := d.Files[p]
			if !ok {
				return nil, fmt.Errorf("no file %q", p)
			}
			return json.Marshal(f)
		},
		URLToFilePath: func(u *url.URL) (string, error) {
			if u.Path == "" {
				return u.Opaque, nil
			}
			return u.Path, nil
		},
	}
}

func run(d doc, withGen bool) (res result) {
	start := time.Now()
	defer func() {
		res.Took = time.Since(start)
		if r := recover(); r != nil {
			res.Panic = fmt.Sprintf("%v\n%s", r, trunc(string(debug.Stack()), 1200))
		}
	}()
	data, _ := json.Marshal(d.Files[d.Root])
	s, err := ogen.Parse(data)
	if err != nil {
		res.ParseErr = err.Error()
		return
	}
	settings := parser.Settings{}
	multi := len(d.Files) > 1
	if multi {
		opts := gen.Options{}
		opts.Parser.AllowRemote = true
		opts.Parser.RootURL = &url.URL{Scheme: "file", Path: "/" + d.Root}
		opts.Parser.Remote = remote(d)
		settings.RootURL = opts.Parser.RootURL
		settings.External = jsonschema.NewExternalResolver(opts.Parser.Remote)
	}
	api, err := parser.Parse(s, settings)
	if err != nil {
		res.ParseErr = err.Error()
		return
	}
	var sb strings.Builder
	dump(reflect.ValueOf(api), &sb, map[uintptr]int{}, 0)
	res.Dump = sb.String()
	// the dereferenced spec ogen can emit parses back to an equivalent API
	var a1dump string
	{
		a1 := *api
		a1.Components = nil
		var sb1 strings.Builder
		dump(reflect.ValueOf(&a1), &sb1, map[uintptr]int{}, 0)
		a1dump = sb1.String() // taken before anything else gets to see the parsed API
	}
	equivalent := func(eb []byte, what string) (string, string) {
		es, err := ogen.Parse(eb)
		if err != nil {
			return what + " does not parse: " + err.Error(), ""
		}
		api2, err := parser.Parse(es, parser.Settings{})
		if err != nil {
			return what + " is rejected: " + trunc(err.Error(), 300), ""
		}
		// the expanded spec regroups components (it keeps the referenced ones as local components),
		// so the Components listing itself is not compared: operations, webhooks, servers, info are
		a2 := *api2
		a2.Components = nil
		var sb2 strings.Builder
		dump(reflect.ValueOf(&a2), &sb2, map[uintptr]int{}, 0)
		if a1dump != sb2.String() {
			cause := ""
			if stripExamples(a1dump) == stripExamples(sb2.String()) {
				cause = "examples-dropped"
			} else if strings.ReplaceAll(a1dump, "XOgenCustomSecurity:true", "XOgenCustomSecurity:false") == sb2.String() {
				cause = "custom-security-extension-dropped"
			}
			return "API of " + what + " differs: " + firstDiff(a1dump, sb2.String()), cause
		}
		return "", ""
	}
	if exp, err := parser.Expand(api); err != nil {
		res.Expand = "Expand failed: " + err.Error()
		if d.ParseOnly && strings.Contains(err.Error(), "conflict") {
			// two components of one name from different files: Expand cannot name both and says so
			// (a diagnostic by design); what it must not do is emit a spec that describes another API
			res.Expand = ""
		}
	} else if eb, err := yaml.Marshal(exp); err != nil {
		res.Expand = "marshal of expanded spec failed: " + err.Error()
	} else {
		res.Expand, res.ExpandCause = equivalent(eb, "the expanded spec")
	}
	if !withGen || d.ParseOnly {
		return
	}
	s2, _ := ogen.Parse(data)
	opts := gen.Options{}
	if multi {
		opts.Parser.AllowRemote = true
		opts.Parser.RootURL = &url.URL{Scheme: "file", Path: "/" + d.Root}
		opts.Parser.Remote = remote(d)
	}
	// the same for the expanded spec as the generator writes it (option `expand`): building the IR
	// works on the parsed API too, and what it rewrites there must not reach the file
	expFile := ""
	if !multi {
		if f, err := os.CreateTemp("", "c07-expanded-*.yml"); err == nil {
			expFile = f.Name()
			f.Close()
			defer os.Remove(expFile)
			opts.ExpandSpec = expFile
		}
	}
	g, err := gen.NewGenerator(s2, opts)
	if err != nil {
		res.GenErr = trunc(err.Error(), 400)
		return
	}
	if expFile != "" && res.Expand == "" {
		if eb, err := os.ReadFile(expFile); err != nil || len(eb) == 0 {
			res.Expand = "the generator did not write the expanded spec it was asked for"
		} else {
			res.Expand, res.ExpandCause = equivalent(eb, "the expanded spec written by the generator")
		}
	}
	if err := g.WriteSource(genfs.CheckFS{}, "api"); err != nil {
		res.GenErr = "write: " + trunc(err.Error(), 400)
	}
	res.IRShape = irSignature(g)
	return
}

// ---------- name-free signature of the intermediate representation ----------
// Type names depend on where a schema is written (component name vs context), everything else the
// templates turn into behaviour does not: kinds, primitives, JSON tags, wrappers, validators, sum
// variants, which responses an operation has (a default response folded into the shared error type
// by the convenient-errors reduction is gone from the operation), headers, content types.

func irType(t *ir.Type, sb *strings.Builder, seen map[*ir.Type]int, depth int) {
	if t == nil {
		sb.WriteString("nil")
		return
	}
	// a named primitive component is an alias type, its inlined copy the primitive itself: see through
	for t.Kind == ir.KindAlias && t.AliasTo != nil {
		t = t.AliasTo
	}
	// only a type on the current path is a back edge (recursion); a type merely shared between two
	// places is written out again, as its inlined copy would be
	if d, ok := seen[t]; ok {
		fmt.Fprintf(sb, "^up%d", depth-d)
		return
	}
	if depth > 12 {
		sb.WriteString("...")
		return
	}
	seen[t] = depth
	defer delete(seen, t)
	fmt.Fprintf(sb, "%s", t.Kind)
	switch t.Kind {
	case ir.KindPrimitive, ir.KindEnum:
		fmt.Fprintf(sb, ":%s", t.Primitive)
		for _, v := range t.EnumVariants {
			fmt.Fprintf(sb, "|%v", v.Value)
		}
	case ir.KindAlias:
		sb.WriteString("->")
		irType(t.AliasTo, sb, seen, depth+1)
	case ir.KindPointer:
		fmt.Fprintf(sb, "*%v ", t.NilSemantic)
		irType(t.PointerTo, sb, seen, depth+1)
	case ir.KindGeneric:
		fmt.Fprintf(sb, "<%v>", t.GenericVariant)
		irType(t.GenericOf, sb, seen, depth+1)
	case ir.KindArray, ir.KindMap:
		fmt.Fprintf(sb, "[deny=%v pattern=%v]", t.DenyAdditionalProps, t.MapPattern)
		irType(t.Item, sb, seen, depth+1)
	case ir.KindSum:
		fmt.Fprintf(sb, "(disc=%q", t.SumSpec.Discriminator)
		var ms []string
		for _, m := range t.SumSpec.Mapping {
			ms = append(ms, m.Key)
		}
		sort.Strings(ms)
		fmt.Fprintf(sb, " keys=%v", ms)
		for _, v := range t.SumOf {
			sb.WriteString(" | ")
			irType(v, sb, seen, depth+1)
		}
		sb.WriteString(")")
	case ir.KindStruct:
		fmt.Fprintf(sb, "{deny=%v tuple=%v", t.DenyAdditionalProps, t.Tuple)
		// the order of fields is not behaviour (member order of the JSON text, layout of a wrapper)
		var fs []string
		for _, f := range t.Fields {
			req := false
			if f.Spec != nil {
				req = f.Spec.Required
			}
			var fb strings.Builder
			fmt.Fprintf(&fb, " %q(inline=%v req=%v):", f.Tag.JSON, f.Inline, req)
			irType(f.Type, &fb, seen, depth+1)
			fs = append(fs, fb.String())
		}
		sort.Strings(fs)
		sb.WriteString(strings.Join(fs, ""))
		sb.WriteString("}")
	}
	v := t.Validators
	if v.String.Set() || v.Int.Set() || v.Float.Set() || v.Array.Set() || v.Object.Set() {
		fmt.Fprintf(sb, "!{str:%v/%v/%v/%v int:%+v float:%+v arr:%+v obj:%+v}", v.String.MinLength, v.String.MinLengthSet, v.String.MaxLength, v.String.MaxLengthSet, v.Int, v.Float, v.Array, v.Object)
		if v.String.Regex != nil {
			fmt.Fprintf(sb, "re=%q", v.String.Regex.String())
		}
	}
}

func irSignature(g *gen.Generator) string {
	var sb strings.Builder
	ops := append(append([]*ir.Operation{}, g.Operations()...), g.Webhooks()...)
	sort.Slice(ops, func(i, j int) bool { return ops[i].Name < ops[j].Name })
	for _, op := range ops {
		seen := map[*ir.Type]int{}
		fmt.Fprintf(&sb, "op %s webhook=%v\n", op.Name, op.WebhookInfo != nil)
		for _, p := range op.Params {
			fmt.Fprintf(&sb, "  param %q in=%s style=%v explode=%v required=%v: ", p.Spec.Name, p.Spec.In, p.Spec.Style, p.Spec.Explode, p.Spec.Required)
			irType(p.Type, &sb, seen, 0)
			sb.WriteString("\n")
		}
		if op.Request != nil {
			var cts []string
			for ct := range op.Request.Contents {
				cts = append(cts, string(ct))
			}
			sort.Strings(cts)
			for _, ct := range cts {
				m := op.Request.Contents[ir.ContentType(ct)]
				fmt.Fprintf(&sb, "  request %s enc=%v: ", ct, m.Encoding)
				irType(m.Type, &sb, seen, 0)
				sb.WriteString("\n")
			}
		}
		resp := func(label string, r *ir.Response) {
			if r == nil {
				return
			}
			var hs []string
			for h := range r.Headers {
				hs = append(hs, h)
			}
			sort.Strings(hs)
			fmt.Fprintf(&sb, "  response %s status=%v headers=%v", label, r.WithStatusCode, hs)
			if r.NoContent != nil {
				sb.WriteString(" nocontent: ")
				irType(r.NoContent, &sb, seen, 0)
			}
			var cts []string
			for ct := range r.Contents {
				cts = append(cts, string(ct))
			}
			sort.Strings(cts)
			for _, ct := range cts {
				fmt.Fprintf(&sb, " %s: ", ct)
				irType(r.Contents[ir.ContentType(ct)].Type, &sb, seen, 0)
			}
			sb.WriteString("\n")
		}
		if rs := op.Responses; rs != nil {
			var codes []int
			for c := range rs.StatusCode {
				codes = append(codes, c)
			}
			sort.Ints(codes)
			for _, c := range codes {
				resp(fmt.Sprint(c), rs.StatusCode[c])
			}
			for i, pr := range rs.Pattern {
				resp(fmt.Sprintf("%dXX", i+1), pr)
			}
			resp("default", rs.Default)
		}
	}
	return sb.String()
}

// stripExamples removes every "Example:..." / "Examples:..." field (with its balanced value) from a dump.
func stripExamples(s string) string {
	var sb strings.Builder
	for i := 0; i < len(s); {
		rest := s[i:]
		name := ""
		switch {
		case strings.HasPrefix(rest, "Examples:"):
			name = "Examples:"
		case strings.HasPrefix(rest, "Example:"):
			name = "Example:"
		}
		if name == "" || (i > 0 && s[i-1] != ',' && s[i-1] != '{') {
			sb.WriteByte(s[i])
			i++
			continue
		}
		j := i + len(name)
		depth := 0
		inStr := false
		for ; j < len(s); j++ {
			c := s[j]
			if inStr {
				if c == '\\' {
					j++
				} else if c == '"' {
					inStr = false
				}
				continue
			}
			switch c {
			case '"':
				inStr = true
			case '{', '[':
				depth++
			case '}', ']':
				depth--
			}
			if depth <= 0 && c == ',' {
				j++
				break
			}
			if depth < 0 {
				break
			}
		}
		i = j
	}
	return sb.String()
}

func trunc(s string, n int) string {
	if len(s) > n {
		return s[:n] + "..."
	}
	return s
}

func firstDiff(a, b string) string {
	i := 0
	for i < len(a) && i < len(b) && a[i] == b[i] {
		i++
	}
	lo := i - 100
	if lo < 0 {
		lo = 0
	}
	hi := func(s string) int {
		if i+100 < len(s) {
			return i + 100
		}
		return len(s)
	}
	return fmt.Sprintf("...%s  <<vs>>  ...%s", a[lo:hi(a)], b[lo:hi(b)])
}

// ---------- independent inliner on the raw trees ----------

type site struct {
	File string
	Path []any // keys / indices from the file's root to the node holding $ref
	Ref  string
}

func deepCopy(v any) any {
	switch x := v.(type) {
	case M:
		o := M{}
		for k, e := range x {
			o[k] = deepCopy(e)
		}
		return o
	case []any:
		o := make([]any, len(x))
		for i, e := range x {
			o[i] = deepCopy(e)
		}
		return o
	}
	return v
}

func findSites(file string, v any, p []any, out *[]site) {
	switch x := v.(type) {
	case M:
		if r, ok := x["$ref"].(string); ok {
			*out = append(*out, site{file, append([]any{}, p...), r})
			return
		}
		keys := make([]string, 0, len(x))
		for k := range x {
			keys = append(keys, k)
		}
		sort.Strings(keys)
		for _, k := range keys {
			if k == "discriminator" || k == "mapping" {
				continue
			}
			findSites(file, x[k], append(p, k), out)
		}
	case []any:
		for i, e := range x {
			findSites(file, e, append(p, i), out)
		}
	}
}

func lookup(root any, ptr string) (any, bool) {
	if ptr == "" {
		return root, true
	}
	cur := root
	for _, tok := range strings.Split(strings.TrimPrefix(ptr, "/"), "/") {
		tok = strings.ReplaceAll(strings.ReplaceAll(tok, "~1", "/"), "~0", "~")
		switch x := cur.(type) {
		case M:
			n, ok := x[tok]
			if !ok {
				return nil, false
			}
			cur = n
		case []any:
			var i int
			if _, err := fmt.Sscanf(tok, "%d", &i); err != nil || i >= len(x) {
				return nil, false
			}
			cur = x[i]
		default:
			return nil, false
		}
	}
	return cur, true
}

// rebase rewrites every reference inside a copied subtree that came from file `from` so that it
// means the same thing when it sits in file `to`.
func rebase(v any, from, to string) {
	switch x := v.(type) {
	case M:
		if r, ok := x["$ref"].(string); ok {
			fileRef, frag, _ := strings.Cut(r, "#")
			target := from
			if fileRef != "" {
				target = path.Join(path.Dir(from), fileRef)
			}
			if target == to {
				x["$ref"] = "#" + frag
			} else {
				rel := target
				if dir := path.Dir(to); dir != "." {
					rel = relPath(dir, target)
				}
				x["$ref"] = rel + "#" + frag
			}
			return
		}
		for _, e := range x {
			rebase(e, from, to)
		}
	case []any:
		for _, e := range x {
			rebase(e, from, to)
		}
	}
}

func relPath(dir, target string) string {
	d := strings.Split(dir, "/")
	t := strings.Split(target, "/")
	i := 0
	for i < len(d) && i < len(t)-1 && d[i] == t[i] {
		i++
	}
	return strings.Repeat("../", len(d)-i) + strings.Join(t[i:], "/")
}

func inline(d doc, sites []site, chosen []int) doc {
	out := doc{Root: d.Root, ParseOnly: d.ParseOnly, Files: map[string]M{}}
	for n, f := range d.Files {
		out.Files[n] = deepCopy(f).(M)
	}
	// deepest sites first so that paths stay valid
	idx := append([]int{}, chosen...)
	sort.Slice(idx, func(a, b int) bool { return len(sites[idx[a]].Path) > len(sites[idx[b]].Path) })
	for _, si := range idx {
		s := sites[si]
		fileRef, frag, _ := strings.Cut(s.Ref, "#")
		tfile := s.File
		if fileRef != "" {
			tfile = path.Join(path.Dir(s.File), fileRef)
		}
		target, ok := lookup(any(d.Files[tfile]), frag)
		if !ok {
			continue
		}
		cp := deepCopy(target)
		if tfile != s.File {
			rebase(cp, tfile, s.File)
		}
		// keep sibling keys of the reference object that the inlined object does not define (none in the bases)
		var parent any = out.Files[s.File]
		for _, k := range s.Path[:len(s.Path)-1] {
			switch x := parent.(type) {
			case M:
				parent = x[k.(string)]
			case []any:
				parent = x[k.(int)]
			}
		}
		switch x := parent.(type) {
		case M:
			x[s.Path[len(s.Path)-1].(string)] = cp
		case []any:
			x[s.Path[len(s.Path)-1].(int)] = cp
		}
	}
	return out
}

// ---------- base documents ----------

func R(p string) M { return M{"$ref": p} }

func op(id string, extra M) M {
	o := M{"operationId": id, "responses": M{"200": M{"description": "ok"}}}
	for k, v := range extra {
		o[k] = v
	}
	return o
}

func base(paths, comps M, ver string) M {
	return M{"openapi": ver, "info": M{"title": "t", "version": "1"}, "paths": paths, "components": comps}
}

func single(name string, m M) doc { return doc{Root: "root.json", Files: map[string]M{"root.json": m}} }

type baseDoc struct {
	Name string
	Doc  doc
}

func bases() []baseDoc {
	strS := M{"type": "string", "minLength": 1}
	objS := M{"type": "object", "required": []any{"a"}, "properties": M{"a": strS, "b": M{"type": "integer"}}}
	param := M{"name": "q", "in": "query", "required": true, "schema": strS}
	header := M{"required": true, "schema": strS, "description": "hdr"}
	resp := M{"description": "r", "headers": M{"X-H": header}, "content": M{"application/json": M{"schema": objS}}}
	body := M{"required": true, "content": M{"application/json": M{"schema": objS}}}
	example := M{"summary": "ex", "value": M{"a": "x"}}
	jb := func(s any) M { return M{"required": true, "content": M{"application/json": M{"schema": s}}} }
	var out []baseDoc
	add := func(name string, m M) { out = append(out, baseDoc{name, single(name, m)}) }
	add("schema shared by two operations, chain S -> T -> U",
		base(M{"/a": M{"post": op("a", M{"requestBody": jb(R("#/components/schemas/S"))})}, "/b": M{"post": op("b", M{"requestBody": jb(R("#/components/schemas/S")), "responses": M{"200": M{"description": "ok", "content": M{"application/json": M{"schema": R("#/components/schemas/T")}}}}})}},
			M{"schemas": M{"S": M{"type": "object", "properties": M{"t": R("#/components/schemas/T"), "l": M{"type": "array", "items": R("#/components/schemas/U")}}}, "T": M{"type": "object", "properties": M{"u": R("#/components/schemas/U")}}, "U": strS}}, "3.0.3"))
	add("parameter shared by two operations and a path item",
		base(M{"/a": M{"parameters": []any{R("#/components/parameters/P")}, "get": op("a", nil)}, "/b": M{"get": op("b", M{"parameters": []any{R("#/components/parameters/P")}})}, "/c": M{"get": op("c", M{"parameters": []any{R("#/components/parameters/P"), R("#/components/parameters/Q")}})}},
			M{"parameters": M{"P": M{"name": "q", "in": "query", "required": true, "schema": R("#/components/schemas/S")}, "Q": M{"name": "h", "in": "header", "schema": R("#/components/schemas/S")}}, "schemas": M{"S": strS}}, "3.0.3"))
	add("header shared under two names in one response and under one name in two operations",
		base(M{"/a": M{"get": M{"operationId": "a", "responses": M{"200": M{"description": "ok", "headers": M{"X-A": R("#/components/headers/H"), "X-B": R("#/components/headers/H")}}}}}, "/b": M{"get": M{"operationId": "b", "responses": M{"200": M{"description": "ok", "headers": M{"X-A": R("#/components/headers/H")}}}}}},
			M{"headers": M{"H": header}}, "3.0.3"))
	add("response shared by two operations and two codes, chain response -> header -> schema",
		base(M{"/a": M{"get": M{"operationId": "a", "responses": M{"200": R("#/components/responses/R"), "201": R("#/components/responses/R")}}}, "/b": M{"get": M{"operationId": "b", "responses": M{"200": R("#/components/responses/R"), "default": R("#/components/responses/D")}}}},
			M{"responses": M{"R": M{"description": "r", "headers": M{"X-H": R("#/components/headers/H")}, "content": M{"application/json": M{"schema": R("#/components/schemas/S")}}}, "D": resp}, "headers": M{"H": M{"schema": R("#/components/schemas/T")}}, "schemas": M{"S": objS, "T": strS}}, "3.0.3"))
	add("requestBody shared by two operations",
		base(M{"/a": M{"post": op("a", M{"requestBody": R("#/components/requestBodies/B")})}, "/b": M{"put": op("b", M{"requestBody": R("#/components/requestBodies/B")})}},
			M{"requestBodies": M{"B": M{"required": true, "content": M{"application/json": M{"schema": R("#/components/schemas/S")}, "application/x-www-form-urlencoded": M{"schema": R("#/components/schemas/S")}}}}, "schemas": M{"S": objS}}, "3.0.3"))
	add("example shared by a parameter and a media type",
		base(M{"/a": M{"post": op("a", M{"parameters": []any{M{"name": "q", "in": "query", "schema": objS, "style": "deepObject", "explode": true, "examples": M{"e1": R("#/components/examples/E")}}}, "requestBody": M{"content": M{"application/json": M{"schema": objS, "examples": M{"e2": R("#/components/examples/E"), "e3": R("#/components/examples/E")}}}}})}},
			M{"examples": M{"E": example}}, "3.0.3"))
	add("pathItem shared by two paths (with and without path parameter)",
		base(M{"/a": R("#/components/pathItems/P"), "/b": R("#/components/pathItems/P"), "/c/{id}": R("#/components/pathItems/Q"), "/d/{id}": R("#/components/pathItems/Q")},
			M{"pathItems": M{"P": M{"get": M{"responses": M{"200": M{"description": "ok"}}}}, "Q": M{"parameters": []any{M{"name": "id", "in": "path", "required": true, "schema": strS}}, "get": M{"responses": M{"200": R("#/components/responses/R")}}}}, "responses": M{"R": M{"description": "r"}}}, "3.1.0"))
	add("securityScheme reference",
		base(M{"/a": M{"get": op("a", M{"security": []any{M{"K": []any{}}}})}}, M{"securitySchemes": M{"K": R("#/components/securitySchemes/K2"), "K2": M{"type": "apiKey", "in": "header", "name": "X-K"}}}, "3.0.3"))
	add("security schemes of every kind through references",
		base(M{"/a": M{"get": op("a", M{"security": []any{M{"O": []any{"read"}}, M{"B": []any{}, "C": []any{}}}})}, "/b": M{"get": op("b", M{"security": []any{M{"O": []any{"read", "write"}, "Q": []any{}}, M{"X": []any{}}, M{"I": []any{}}}})}},
			M{"securitySchemes": M{
				"O": R("#/components/securitySchemes/O2"), "O2": M{"type": "oauth2", "description": "oauth", "flows": M{"authorizationCode": M{"authorizationUrl": "https://x/a", "tokenUrl": "https://x/t", "refreshUrl": "https://x/r", "scopes": M{"read": "r", "write": "w"}}, "clientCredentials": M{"tokenUrl": "https://x/t2", "scopes": M{"read": "r"}}}},
				"B": R("#/components/securitySchemes/B2"), "B2": M{"type": "http", "scheme": "bearer", "bearerFormat": "JWT"},
				"C": R("#/components/securitySchemes/C2"), "C2": M{"type": "apiKey", "in": "cookie", "name": "sid", "description": "cookie"},
				"Q": R("#/components/securitySchemes/Q2"), "Q2": M{"type": "apiKey", "in": "query", "name": "k"},
				"X": R("#/components/securitySchemes/X2"), "X2": M{"type": "apiKey", "in": "header", "name": "X-C", "x-ogen-custom-security": true},
				"I": R("#/components/securitySchemes/I2"), "I2": M{"type": "http", "scheme": "basic"}}}, "3.0.3"))
	// schemas whose treatment is decided by looking at their own keywords (type, format, default):
	// the decision must be the same through a reference
	add("anyOf of a referenced integer and a number",
		base(M{"/a": M{"post": op("a", M{"requestBody": jb(M{"anyOf": []any{R("#/components/schemas/Int"), M{"type": "number"}}})})}}, M{"schemas": M{"Int": M{"type": "integer"}}}, "3.0.3"))
	add("multipart file member through a reference",
		base(M{"/a": M{"post": op("a", M{"requestBody": M{"required": true, "content": M{"multipart/form-data": M{"schema": M{"type": "object", "required": []any{"file"}, "properties": M{"file": R("#/components/schemas/Blob"), "note": strS}}}}}})}},
			M{"schemas": M{"Blob": M{"type": "string", "format": "binary"}}}, "3.0.3"))
	add("member with a default through a reference",
		base(M{"/a": M{"post": op("a", M{"requestBody": jb(M{"type": "object", "properties": M{"at": R("#/components/schemas/Stamp"), "n": R("#/components/schemas/Count"), "s": R("#/components/schemas/Word"), "pp": R("#/components/schemas/PP")}})})}},
			M{"schemas": M{"Stamp": M{"type": "string", "format": "date-time", "default": "2020-01-01T00:00:00Z"}, "Count": M{"type": "integer", "default": 5}, "Word": M{"type": "string", "default": "w"},
				"PP": M{"type": "object", "properties": M{"a": strS}, "patternProperties": M{"^x-": M{"type": "integer"}, "^y-": strS}}}}, "3.0.3"))
	add("parameters with defaults, enums and formats through references",
		base(M{"/a": M{"get": op("a", M{"parameters": []any{R("#/components/parameters/P"), M{"name": "n", "in": "query", "schema": M{"type": "integer", "default": 5}}, M{"name": "e", "in": "header", "schema": R("#/components/schemas/E")}}})}},
			M{"parameters": M{"P": M{"name": "p", "in": "query", "schema": M{"type": "string", "default": "d", "enum": []any{"d", "e"}}}}, "schemas": M{"E": M{"type": "string", "format": "uuid"}}}, "3.0.3"))
	// references that point below a component, where the last token of the pointer is also the name
	// of another component (and of the component itself): resolution goes by the whole pointer.
	// The namesake components are not referenced themselves: Expand names a reference after its last
	// token and refuses two targets under one name (a diagnostic by design)
	add("references below a component whose last token names another component",
		base(M{"/a": M{"post": op("a", M{"requestBody": jb(R("#/components/schemas/Pet/properties/owner"))})},
			"/b": M{"post": op("b", M{"requestBody": jb(R("#/components/schemas/List/items"))})},
			"/c": M{"post": op("c", M{"requestBody": jb(R("#/components/schemas/All/allOf/0"))})},
			"/d": M{"post": op("d", M{"requestBody": jb(R("#/components/schemas/Pet/properties/Pet"))})},
			"/e": M{"post": op("e", M{"requestBody": jb(R("#/components/schemas/Plain")), "parameters": []any{M{"name": "n", "in": "query", "schema": R("#/components/parameters/P/schema")}}})},
			"/f": M{"post": op("f", M{"requestBody": jb(R("#/components/schemas/Pet/properties/tag"))})}},
			M{"schemas": M{
				"Pet":    M{"type": "object", "properties": M{"owner": M{"type": "object", "required": []any{"petOwnerId"}, "properties": M{"petOwnerId": M{"type": "integer"}}}, "Pet": M{"type": "string", "maxLength": 3}, "tag": strS}},
				"owner":  M{"type": "object", "properties": M{"legacyName": M{"type": "string"}}},
				"List":   M{"type": "array", "items": M{"type": "integer", "minimum": 1}},
				"items":  M{"type": "string", "maxLength": 7},
				"All":    M{"allOf": []any{M{"type": "object", "properties": M{"x": M{"type": "integer"}}}, M{"type": "object", "properties": M{"y": M{"type": "string"}}}}},
				"0":      M{"type": "boolean"},
				"schema": M{"type": "boolean"},
				"tag":    M{"type": "integer"},
				"Plain":  M{"type": "object", "properties": M{"z": M{"type": "integer"}}},
			}, "parameters": M{"P": M{"name": "q", "in": "query", "schema": M{"type": "integer", "maximum": 9}}},
				"responses": M{"Resp": M{"description": "r", "content": M{"application/json": M{"schema": M{"type": "array", "items": M{"type": "number"}}}}}, "schema": M{"description": "other"}}}, "3.0.3"))
	add("constructs the IR build rewrites on the parsed API (masked media types, webhook path parameters)",
		M{"openapi": "3.1.0", "info": M{"title": "t", "version": "1"},
			"paths":    M{"/a": M{"post": op("a", M{"requestBody": R("#/components/requestBodies/B"), "responses": M{"200": R("#/components/responses/R")}})}, "/b": M{"put": op("b", M{"requestBody": R("#/components/requestBodies/B"), "responses": M{"200": R("#/components/responses/R")}})}},
			"webhooks": M{"evt": M{"parameters": []any{M{"name": "id", "in": "path", "required": true, "schema": strS}}, "post": M{"operationId": "hook", "parameters": []any{M{"name": "q", "in": "query", "schema": strS}}, "requestBody": jb(objS), "responses": M{"200": M{"description": "ok"}}}}},
			"components": M{
				"requestBodies": M{"B": M{"required": true, "content": M{"application/json": M{"schema": objS}, "application/*": M{"schema": M{"type": "string", "format": "binary"}}, "text/plain": M{"schema": strS}, "text/*": M{"schema": M{"type": "string", "format": "binary"}}}}},
				"responses":     M{"R": M{"description": "r", "content": M{"application/json": M{"schema": objS}, "application/*": M{"schema": M{"type": "string", "format": "binary"}}, "*/*": M{"schema": M{"type": "string", "format": "binary"}}}}}}})
	add("everything at once",
		base(M{
			"/a/{id}": M{"parameters": []any{R("#/components/parameters/ID")}, "post": op("a", M{"parameters": []any{R("#/components/parameters/P")}, "requestBody": R("#/components/requestBodies/B"), "responses": M{"200": R("#/components/responses/R"), "default": R("#/components/responses/D")}})},
			"/b/{id}": M{"put": op("b", M{"parameters": []any{R("#/components/parameters/ID"), R("#/components/parameters/P")}, "requestBody": R("#/components/requestBodies/B"), "responses": M{"200": M{"description": "x", "headers": M{"X-1": R("#/components/headers/H"), "X-2": R("#/components/headers/H")}, "content": M{"application/json": M{"schema": R("#/components/schemas/T")}}}}})}},
			M{"parameters": M{"ID": M{"name": "id", "in": "path", "required": true, "schema": R("#/components/schemas/T")}, "P": param},
				"requestBodies": M{"B": body}, "responses": M{"R": M{"description": "r", "headers": M{"X-H": R("#/components/headers/H")}, "content": M{"application/json": M{"schema": R("#/components/schemas/S")}}}, "D": M{"description": "d", "content": M{"application/json": M{"schema": R("#/components/schemas/T")}}}},
				"headers": M{"H": header}, "schemas": M{"S": M{"type": "object", "properties": M{"t": R("#/components/schemas/T")}}, "T": strS}}, "3.0.3"))
	add("one response component for a status code and for default of the same operation",
		base(M{"/a": M{"get": M{"operationId": "a", "responses": M{"200": R("#/components/responses/R"), "default": R("#/components/responses/R")}}}},
			M{"responses": M{"R": M{"description": "r", "content": M{"application/json": M{"schema": R("#/components/schemas/S")}}}}, "schemas": M{"S": objS}}, "3.0.3"))
	add("default response component shared by four operations (folded into the shared error type)",
		base(M{"/a": M{"get": M{"operationId": "a", "responses": M{"200": M{"description": "ok"}, "default": R("#/components/responses/E")}}},
			"/b": M{"get": M{"operationId": "b", "responses": M{"200": M{"description": "ok"}, "default": R("#/components/responses/E")}}},
			"/c": M{"post": M{"operationId": "c", "responses": M{"201": M{"description": "ok"}, "default": R("#/components/responses/E")}}},
			"/d": M{"get": M{"operationId": "d", "responses": M{"200": M{"description": "ok", "content": M{"application/json": M{"schema": strS}}}, "default": R("#/components/responses/E")}}}},
			M{"responses": M{"E": M{"description": "e", "content": M{"application/json": M{"schema": M{"type": "object", "required": []any{"code"}, "properties": M{"code": M{"type": "integer"}, "msg": strS}}}}}}}, "3.0.3"))
	// ----- multi-file topologies
	head := func(paths M, comps M) M {
		m := M{"openapi": "3.0.3", "info": M{"title": "t", "version": "1"}, "paths": paths}
		if comps != nil {
			m["components"] = comps
		}
		return m
	}
	out = append(out,
		baseDoc{"schema in a sibling file that refers on within that file", doc{Root: "root.json", Files: map[string]M{
			"root.json":  head(M{"/a": M{"post": op("a", M{"requestBody": jb(R("other.json#/components/schemas/S"))})}}, nil),
			"other.json": {"components": M{"schemas": M{"S": M{"type": "object", "properties": M{"a": strS, "t": R("#/components/schemas/T")}}, "T": M{"type": "integer"}}}}}}},
		baseDoc{"chain root -> dir/f1 -> dir/f2 with relative references", doc{Root: "root.json", Files: map[string]M{
			"root.json":   head(M{"/a": M{"post": op("a", M{"requestBody": jb(R("dir/f1.json#/S"))})}}, nil),
			"dir/f1.json": {"S": M{"type": "object", "properties": M{"x": R("f2.json#/T"), "y": R("#/U")}}, "U": M{"type": "boolean"}},
			"dir/f2.json": {"T": M{"type": "string", "enum": []any{"p", "q"}}}}}},
		baseDoc{"external file referring back into the root", doc{Root: "root.json", Files: map[string]M{
			"root.json":  head(M{"/a": M{"post": op("a", M{"requestBody": jb(R("other.json#/S"))})}}, M{"schemas": M{"Rt": strS}}),
			"other.json": {"S": M{"type": "object", "properties": M{"r": R("root.json#/components/schemas/Rt")}}}}}},
		baseDoc{"same external target from two sites, two spellings of the file", doc{Root: "root.json", Files: map[string]M{
			"root.json":  head(M{"/a": M{"post": op("a", M{"requestBody": jb(R("other.json#/S")), "responses": M{"200": M{"description": "ok", "content": M{"application/json": M{"schema": R("./other.json#/S")}}}}})}}, nil),
			"other.json": {"S": M{"type": "object", "properties": M{"a": strS}}}}}},
		baseDoc{"external parameter, requestBody, response -> header -> schema", doc{Root: "root.json", Files: map[string]M{
			"root.json":  head(M{"/a/{id}": M{"post": M{"operationId": "a", "parameters": []any{R("other.json#/P")}, "requestBody": R("other.json#/B"), "responses": M{"200": R("other.json#/R")}}}}, nil),
			"other.json": {"P": M{"name": "id", "in": "path", "required": true, "schema": R("#/S")}, "S": strS, "B": M{"content": M{"application/json": M{"schema": R("#/S")}}}, "R": M{"description": "ok", "headers": M{"X-A": R("#/H")}, "content": M{"application/json": M{"schema": R("#/S")}}}, "H": M{"schema": R("#/S")}}}}},
	)
	// root -> external -> back into a root component that itself refers on: the references written
	// inside that root component belong to the root, whatever file led to it.  The external file holds
	// different targets under the same pointers, so a wrong base yields a different API, not an error.
	// (components are pre-parsed in sorted name order: the entry component sorts first)
	leaf := M{"type": "string", "maxLength": 16}
	out = append(out,
		baseDoc{"back reference into a root schema that refers on locally (entry component sorts first)", doc{Root: "root.json", Files: map[string]M{
			"root.json": head(M{"/a": M{"post": op("a", M{"requestBody": jb(R("#/components/schemas/Aentry"))})}},
				M{"schemas": M{"Aentry": R("other.json#/components/schemas/S"), "Node": M{"type": "object", "properties": M{"leaf": R("#/components/schemas/Leaf"), "far": R("third.json#/T")}}, "Leaf": leaf}}),
			"other.json": {"components": M{"schemas": M{"S": M{"type": "object", "properties": M{"n": R("root.json#/components/schemas/Node")}}, "Leaf": M{"type": "integer"}}}},
			"third.json": {"T": M{"type": "boolean"}}}}},
		baseDoc{"back reference into root header / parameter / response / requestBody components that refer on locally", doc{Root: "root.json", Files: map[string]M{
			"root.json": head(M{"/a/{id}": M{"post": M{"operationId": "a", "parameters": []any{R("other.json#/components/parameters/P")}, "requestBody": R("other.json#/components/requestBodies/B"),
				"responses": M{"200": R("other.json#/components/responses/R"), "201": M{"description": "x", "headers": M{"X-1": R("other.json#/components/headers/H")}}}}}},
				M{"schemas": M{"Leaf": leaf},
					"headers":       M{"RH": M{"required": true, "schema": R("#/components/schemas/Leaf")}},
					"parameters":    M{"ZP": M{"name": "id", "in": "path", "required": true, "schema": R("#/components/schemas/Leaf")}},
					"requestBodies": M{"ZB": M{"required": true, "content": M{"application/json": M{"schema": R("#/components/schemas/Leaf")}}}},
					"responses":     M{"ZR": M{"description": "root", "headers": M{"X-H": R("#/components/headers/RH")}, "content": M{"application/json": M{"schema": R("#/components/schemas/Leaf")}}}}}),
			"other.json": {"components": M{"schemas": M{"Leaf": M{"type": "integer"}},
				"headers":       M{"H": R("root.json#/components/headers/RH"), "RH": M{"schema": M{"type": "boolean"}}},
				"parameters":    M{"P": R("root.json#/components/parameters/ZP")},
				"requestBodies": M{"B": R("root.json#/components/requestBodies/ZB")},
				"responses":     M{"R": R("root.json#/components/responses/ZR")}}}}}},
	)
	// the same component names, with different content, in the root and in an external file whose
	// own references are written in the usual local form: a local reference must be resolved in the
	// file it is written in (a seeded change that looked names up in the root's components first
	// was missed while no name was shared between files)
	rootS := M{"type": "object", "properties": M{"z": M{"type": "integer"}}}
	otherS := M{"type": "object", "required": []any{"a"}, "properties": M{"a": M{"type": "string", "minLength": 3}}}
	var sharedComps func(sn string, s M, pname, pin, desc, exv string) M
	sharedComps = func(sn string, s M, pname, pin, desc, exv string) M {
		R := func(p string) M { return M{"$ref": strings.Replace(p, "/schemas/S", "/schemas/"+sn, 1)} }
		return M{
			"schemas":       M{sn: s},
			"parameters":    M{"P": M{"name": pname, "in": pin, "required": true, "schema": R("#/components/schemas/S"), "style": map[string]string{"query": "deepObject", "header": "simple"}[pin], "explode": pin == "query"}, "Wrap": R("#/components/parameters/P")},
			"headers":       M{"H": M{"required": pin == "query", "schema": M{"type": "string", "maxLength": len(desc)}}},
			"examples":      M{"E": M{"summary": desc, "value": M{"a": exv}}},
			"requestBodies": M{"B": M{"required": pin == "query", "content": M{"application/json": M{"schema": R("#/components/schemas/S"), "examples": M{"e": R("#/components/examples/E")}}}}, "Wrap": R("#/components/requestBodies/B")},
			"responses":     M{"R": M{"description": desc, "headers": M{"X-H": R("#/components/headers/H")}, "content": M{"application/json": M{"schema": R("#/components/schemas/S")}}}, "Wrap": R("#/components/responses/R")},
		}
	}
	sharedNames := func(otherSchema string, parseOnly bool) doc {
		return doc{Root: "root.json", ParseOnly: parseOnly, Files: map[string]M{
			"root.json": head(M{
				"/a": M{"post": M{"operationId": "a", "parameters": []any{R("other.json#/components/parameters/Wrap")}, "requestBody": R("other.json#/components/requestBodies/Wrap"), "responses": M{"200": R("other.json#/components/responses/Wrap")}}},
				"/b": M{"post": M{"operationId": "b", "parameters": []any{R("#/components/parameters/Wrap")}, "requestBody": R("#/components/requestBodies/Wrap"), "responses": M{"200": R("#/components/responses/Wrap")}}},
				"/c": M{"post": M{"operationId": "c", "parameters": []any{R("other.json#/components/parameters/P")}, "requestBody": R("other.json#/components/requestBodies/B"), "responses": M{"200": R("other.json#/components/responses/R"), "201": M{"description": "x", "headers": M{"X-1": R("other.json#/components/headers/H"), "X-2": R("#/components/headers/H")}}}}},
			}, sharedComps("S", rootS, "rootq", "header", "root", "r")),
			"other.json": {"components": sharedComps(otherSchema, otherS, "q", "query", "other-file", "o")}}}
	}
	out = append(out,
		baseDoc{"parameter, header, example, requestBody and response names shared between the root and an external file (local references inside the external file; parse level only)", sharedNames("OS", true)},
		baseDoc{"schema names shared as well (parse level only)", sharedNames("S", true)},
		// nothing but schemas under one name in three files (each kind of component is named by its own
		// code in Expand: a document in which other kinds collide too stops at the first of them)
		baseDoc{"only schema names shared between the root and two external files (parse level only)", doc{Root: "root.json", ParseOnly: true, Files: map[string]M{
			"root.json": head(M{
				"/a": M{"post": op("a", M{"requestBody": jb(R("other.json#/components/schemas/S")), "responses": M{"200": M{"description": "ok", "content": M{"application/json": M{"schema": R("other.json#/components/schemas/S")}}}}})},
				"/b": M{"post": op("b", M{"requestBody": jb(R("#/components/schemas/S")), "responses": M{"200": M{"description": "ok", "content": M{"application/json": M{"schema": R("#/components/schemas/S")}}}}})},
				"/c": M{"post": op("c", M{"requestBody": jb(R("third.json#/components/schemas/S")), "responses": M{"200": M{"description": "ok", "content": M{"application/json": M{"schema": M{"type": "array", "items": R("third.json#/components/schemas/S")}}}}}})},
			}, M{"schemas": M{"S": rootS}}),
			"other.json": {"components": M{"schemas": M{"S": otherS}}},
			"third.json": {"components": M{"schemas": M{"S": M{"type": "string", "maxLength": 2}}}}}}},
	)
	return out
}

var posInText = regexp.MustCompile(`([A-Za-z0-9_./-]+\.json):(\d+):(\d+)`)

var rootPos = regexp.MustCompile(`\bat (\d+):(\d+):`)

// misplaced checks the positions a diagnostic carries against the documents as they were served.
func misplaced(d doc, errText string, loose bool) string {
	var ms [][]string
	ms = append(ms, posInText.FindAllStringSubmatch(errText, -1)...)
	// a position without a file name lies in the root document
	for _, m := range rootPos.FindAllStringSubmatch(errText, -1) {
		ms = append(ms, []string{m[0], d.Root, m[1], m[2]})
	}
	for _, m := range ms {
		name := strings.TrimPrefix(m[1], "/")
		for strings.HasPrefix(name, "/") {
			name = name[1:]
		}
		f, ok := d.Files[name]
		if !ok {
			return fmt.Sprintf("position in %q, which is not a file of the document", m[1])
		}
		text, _ := json.Marshal(f)
		line, _ := strconv.Atoi(m[2])
		col, _ := strconv.Atoi(m[3])
		if line != 1 || col < 1 || col > len(text) {
			return fmt.Sprintf("%s:%d:%d lies outside %s (1 line, %d bytes)", m[1], line, col, name, len(text))
		}
		if loose {
			continue
		}
		lo, hi := col-1-10, col-1+10
		if lo < 0 {
			lo = 0
		}
		if hi > len(text) {
			hi = len(text)
		}
		if !strings.Contains(string(text[lo:hi]), "$ref") && !strings.Contains(string(text[lo:hi]), `":"`) && !strings.Contains(string(text[lo:hi]), `":{`) {
			return fmt.Sprintf("%s:%d:%d is not on a reference: ...%s...", m[1], line, col, text[lo:hi])
		}
		// the column must be that of a "$ref" key or of its value in this file
		on := false
		for i := 0; i+6 <= len(text); i++ {
			if string(text[i:i+6]) == `"$ref"` {
				end := i + 7 + strings.IndexByte(string(text[i+8:]), '"') + 2
				// key start, value start, or the object holding the reference
				if col-1 == i || col-1 == i+7 || col-1 == i-1 || (col-1 > i && col-1 <= end) {
					on = true
				}
			}
		}
		// the generator blames the composition keyword the recursion passes through
		for _, kw := range []string{`"allOf"`, `"oneOf"`, `"anyOf"`} {
			if strings.HasPrefix(string(text[col-1:]), kw) || strings.HasPrefix(string(text[col-1:]), "{"+kw) {
				on = true
			}
		}
		if !on {
			return fmt.Sprintf("%s:%d:%d is not on a reference of that file", m[1], line, col)
		}
	}
	return ""
}

type cycleCase struct {
	Name string
	Doc  doc
	Want string // "generates" | "error:<substring>"
}

// loose: not a cycle; the reported positions only have to lie inside the files they name
func (c cycleCase) loose() bool { return strings.HasPrefix(c.Name, "located:") }

func cycles(thorough bool) []cycleCase {
	strS := M{"type": "string"}
	jb := func(s any) M { return M{"required": true, "content": M{"application/json": M{"schema": s}}} }
	ir := "error:infinite recursion"
	var out []cycleCase
	add := func(name string, m M, want string) { out = append(out, cycleCase{name, single(name, m), want}) }
	for _, n := range []int{1, 2, 3} {
		chain := func(kind string) M {
			c := M{}
			for i := 0; i < n; i++ {
				c[fmt.Sprintf("C%d", i)] = R(fmt.Sprintf("#/components/%s/C%d", kind, (i+1)%n))
			}
			return c
		}
		add(fmt.Sprintf("parameter %d-cycle", n), base(M{"/a": M{"get": op("a", M{"parameters": []any{R("#/components/parameters/C0")}})}}, M{"parameters": chain("parameters")}, "3.0.3"), ir)
		add(fmt.Sprintf("response %d-cycle", n), base(M{"/a": M{"get": M{"responses": M{"200": R("#/components/responses/C0")}}}}, M{"responses": chain("responses")}, "3.0.3"), ir)
		add(fmt.Sprintf("header %d-cycle", n), base(M{"/a": M{"get": M{"responses": M{"200": M{"description": "x", "headers": M{"X": R("#/components/headers/C0")}}}}}}, M{"headers": chain("headers")}, "3.0.3"), ir)
		add(fmt.Sprintf("requestBody %d-cycle", n), base(M{"/a": M{"post": op("a", M{"requestBody": R("#/components/requestBodies/C0")})}}, M{"requestBodies": chain("requestBodies")}, "3.0.3"), ir)
		add(fmt.Sprintf("example %d-cycle", n), base(M{"/a": M{"post": op("a", M{"requestBody": M{"content": M{"application/json": M{"schema": strS, "examples": M{"e": R("#/components/examples/C0")}}}}})}}, M{"examples": chain("examples")}, "3.0.3"), ir)
		add(fmt.Sprintf("pathItem %d-cycle", n), base(M{"/a": R("#/components/pathItems/C0")}, M{"pathItems": chain("pathItems")}, "3.1.0"), ir)
		add(fmt.Sprintf("securityScheme %d-cycle", n), base(M{"/a": M{"get": op("a", M{"security": []any{M{"C0": []any{}}}})}}, M{"securitySchemes": chain("securitySchemes")}, "3.0.3"), ir)
		add(fmt.Sprintf("schema alias %d-cycle", n), base(M{"/a": M{"post": op("a", M{"requestBody": jb(R("#/components/schemas/C0"))})}}, M{"schemas": chain("schemas")}, "3.0.3"), ir)
	}
	rec := func(name string, s M, want string) {
		add("schema recursion through "+name, base(M{"/a": M{"post": op("a", M{"requestBody": jb(R("#/components/schemas/S"))})}}, M{"schemas": M{"S": s, "T": M{"type": "object", "properties": M{"s": R("#/components/schemas/S")}}}}, "3.0.3"), want)
	}
	rec("properties", M{"type": "object", "properties": M{"next": R("#/components/schemas/S")}}, "generates")
	rec("items", M{"type": "array", "items": R("#/components/schemas/S")}, "generates")
	rec("oneOf", M{"oneOf": []any{M{"type": "string"}, M{"type": "array", "items": R("#/components/schemas/S")}}}, "generates")
	rec("additionalProperties", M{"type": "object", "additionalProperties": R("#/components/schemas/S")}, "generates")
	rec("a second schema (mutual)", M{"type": "object", "properties": M{"t": R("#/components/schemas/T")}}, "generates")
	rec("nullable property", M{"type": "object", "properties": M{"next": M{"nullable": true, "allOf": []any{R("#/components/schemas/S")}}}}, "any-error-or-generates")
	rec("a required property (no finite value)", M{"type": "object", "required": []any{"next"}, "properties": M{"next": R("#/components/schemas/S")}}, "error:")
	rec("allOf", M{"allOf": []any{R("#/components/schemas/S"), M{"type": "object"}}}, "error:")
	// cycles across files
	head := func(paths M) M { return M{"openapi": "3.0.3", "info": M{"title": "t", "version": "1"}, "paths": paths} }
	out = append(out,
		cycleCase{"schema cycle across two files", doc{Root: "root.json", Files: map[string]M{
			"root.json": head(M{"/a": M{"post": op("a", M{"requestBody": jb(R("f1.json#/A"))})}}),
			"f1.json":   {"A": M{"type": "object", "properties": M{"b": R("f2.json#/B")}}},
			"f2.json":   {"B": M{"type": "object", "properties": M{"a": R("f1.json#/A")}}}}}, "generates"},
		cycleCase{"parameter cycle across two files", doc{Root: "root.json", Files: map[string]M{
			"root.json": head(M{"/a": M{"get": op("a", M{"parameters": []any{R("f1.json#/P")}})}}),
			"f1.json":   {"P": R("f2.json#/Q")},
			"f2.json":   {"A0pad": "0123456789012345678901234", "Q": R("f1.json#/P")}}}, ir},
		// faults that live in another file than the construct that trips over them: the diagnostic names
		// a file and a position, and the position has to be one of that file
		cycleCase{"located: parameter style refused for a schema of another file", doc{Root: "root.json", Files: map[string]M{
			"root.json":  head(M{"/a": M{"get": op("a", M{"parameters": []any{M{"name": "q", "in": "query", "style": "deepObject", "explode": true, "schema": R("other.json#/components/schemas/S")}}})}}),
			"other.json": {"A0pad": strings.Repeat("0123456789", 80), "components": M{"schemas": M{"S": M{"type": "string"}}}}}}, "error:invalid schema.type:style:explode"},
		cycleCase{"located: parameter style refused for a member of a composition in another file", doc{Root: "root.json", Files: map[string]M{
			"root.json":  head(M{"/a": M{"get": op("a", M{"parameters": []any{M{"name": "c", "in": "cookie", "style": "form", "explode": true, "schema": R("other.json#/components/schemas/U")}}})}}),
			"other.json": {"A0pad": strings.Repeat("0123456789", 80), "components": M{"schemas": M{"U": M{"oneOf": []any{M{"type": "string"}, M{"type": "array", "items": M{"type": "string"}}}}}}}}}, "error:invalid schema.type:style:explode"},
		cycleCase{"parameter cycle root -> external -> root", doc{Root: "root.json", Files: map[string]M{
			"root.json": M{"openapi": "3.0.3", "info": M{"title": "t", "version": "1"}, "paths": M{"/a": M{"get": op("a", M{"parameters": []any{R("#/components/parameters/P")}})}}, "components": M{"parameters": M{"P": R("ext.json#/Q")}}},
			"ext.json":  {"A0pad": "0123456789012345678901234567890123456789", "Q": R("root.json#/components/parameters/P")}}}, ir},
		cycleCase{"header cycle root -> external -> root", doc{Root: "root.json", Files: map[string]M{
			"root.json": M{"openapi": "3.0.3", "info": M{"title": "t", "version": "1"}, "paths": M{"/a": M{"get": M{"operationId": "a", "responses": M{"200": M{"description": "ok", "headers": M{"X-H": R("#/components/headers/H")}}}}}}, "components": M{"headers": M{"H": R("ext.json#/G")}}},
			"ext.json":  {"A0pad": "0123456789012345678901234567890123456789012345678901234567890123456789", "G": R("root.json#/components/headers/H")}}}, ir},
		cycleCase{"response cycle external -> external (second file closes it)", doc{Root: "root.json", Files: map[string]M{
			"root.json": head(M{"/a": M{"get": M{"operationId": "a", "responses": M{"200": R("f1.json#/R")}}}}),
			"f1.json":   {"R": R("f2.json#/S")},
			"f2.json":   {"A0pad": "01234567890123456789012345678901234567890123456789", "A1more": "0123456789", "S": R("f1.json#/R")}}}, ir},
		cycleCase{"required schema cycle root -> external -> root", doc{Root: "root.json", Files: map[string]M{
			"root.json": M{"openapi": "3.0.3", "info": M{"title": "t", "version": "1"}, "paths": M{"/a": M{"post": op("a", M{"requestBody": jb(R("#/components/schemas/A"))})}}, "components": M{"schemas": M{"A": M{"allOf": []any{R("ext.json#/B")}}}}},
			"ext.json":  {"A0pad": "012345678901234567890123456789", "B": M{"allOf": []any{R("root.json#/components/schemas/A")}}}}}, "error:"},
		cycleCase{"missing external file", doc{Root: "root.json", Files: map[string]M{
			"root.json": head(M{"/a": M{"get": op("a", M{"parameters": []any{R("nope.json#/P")}})}})}}, "error:"},
	)
	// chains around the depth limit (schemas, non-recursive)
	for _, n := range []int{999, 1000, 1001, 1500} {
		sch := M{}
		for i := 0; i < n; i++ {
			sch[fmt.Sprintf("C%d", i)] = R(fmt.Sprintf("#/components/schemas/C%d", i+1))
		}
		sch[fmt.Sprintf("C%d", n)] = strS
		// beyond the limit an error is expected "rather than a crash"; success without a crash also
		// satisfies the property, so only panics, stack overflows and non-termination are violations
		want := "any-error-or-generates"
		add(fmt.Sprintf("alias chain of %d schemas", n), base(M{"/a": M{"post": op("a", M{"requestBody": jb(R("#/components/schemas/C0"))})}}, M{"schemas": sch}, "3.0.3"), want)
		// structural nesting: parsing is cubic in the depth (800 levels take ~30 s), so the depths
		// near the generator's limit are thorough-tier only and the watchdog is generous
		depth := n / 5
		if thorough {
			depth = n
		}
		if thorough || n <= 1001 {
			nest := any(strS)
			for i := 0; i < depth; i++ {
				nest = M{"type": "array", "items": nest}
			}
			add(fmt.Sprintf("%d nested arrays", depth), base(M{"/a": M{"post": op("a", M{"requestBody": jb(nest)})}}, M{}, "3.0.3"), "any-error-or-generates")
		}
		par := M{}
		for i := 0; i < n; i++ {
			par[fmt.Sprintf("C%d", i)] = R(fmt.Sprintf("#/components/parameters/C%d", i+1))
		}
		par[fmt.Sprintf("C%d", n)] = M{"name": "q", "in": "query", "schema": strS}
		add(fmt.Sprintf("alias chain of %d parameters", n), base(M{"/a": M{"get": op("a", M{"parameters": []any{R("#/components/parameters/C0")}})}}, M{"parameters": par}, "3.0.3"), want)
	}
	return out
}

type kase struct {
	Base    string   `json:"base_document"`
	Inlined []string `json:"inlined_reference_sites"`
	Doc     doc      `json:"document_with_references"`
	Variant doc      `json:"variant"`
	Detail  string   `json:"detail"`
}

func main() {
	r := vf.Start("C07", "exploration")
	type job struct {
		b      baseDoc
		sites  []site
		chosen []int
		ref    *result
	}
	var jobs []job
	bs := bases()
	refRes := make([]result, len(bs))
	totalSites := 0
	for bi, b := range bs {
		refRes[bi] = run(b.Doc, true)
		var sites []site
		var files []string
		for f := range b.Doc.Files {
			files = append(files, f)
		}
		sort.Strings(files)
		for _, f := range files {
			findSites(f, any(b.Doc.Files[f]), nil, &sites)
		}
		totalSites += len(sites)
		n := len(sites)
		limit := 10
		if r.Thorough() {
			limit = 14
		}
		if n <= limit {
			for mask := 1; mask < 1<<n; mask++ {
				var ch []int
				for i := 0; i < n; i++ {
					if mask&(1<<i) != 0 {
						ch = append(ch, i)
					}
				}
				jobs = append(jobs, job{b, sites, ch, &refRes[bi]})
			}
		} else {
			all := make([]int, n)
			for i := range all {
				all[i] = i
			}
			jobs = append(jobs, job{b, sites, all, &refRes[bi]})
			for i := 0; i < n; i++ {
				jobs = append(jobs, job{b, sites, []int{i}, &refRes[bi]})
				var rest []int
				for j := 0; j < n; j++ {
					if j != i {
						rest = append(rest, j)
					}
				}
				jobs = append(jobs, job{b, sites, rest, &refRes[bi]})
				for j := i + 1; j < n; j++ {
					jobs = append(jobs, job{b, sites, []int{i, j}, &refRes[bi]})
				}
			}
		}
	}
	// the referencing documents themselves must be accepted
	for bi, b := range bs {
		res := refRes[bi]
		k := kase{Base: b.Name, Doc: b.Doc}
		switch {
		case res.Panic != "":
			k.Detail = res.Panic
			r.Violation(map[string]string{"class": "panic-on-referencing-document", "base": b.Name}, 0, k)
		case res.ParseErr != "" || res.GenErr != "":
			k.Detail = "parse: " + trunc(res.ParseErr, 300) + " gen: " + res.GenErr
			r.Violation(map[string]string{"class": "referencing-document-rejected/" + b.Name, "base": b.Name}, 0, k)
		case res.Expand != "":
			k.Detail = res.Expand
			r.Violation(map[string]string{"class": "expanded-spec-is-not-equivalent/" + b.Name, "base": b.Name, "cause": res.ExpandCause}, 0, k)
		}
		r.Eval(1)
	}
	ch := make(chan job, len(jobs))
	var wg sync.WaitGroup
	for w := 0; w < runtime.NumCPU(); w++ {
		wg.Add(1)
		go func() {
			defer wg.Done()
			for j := range ch {
				v := inline(j.b.Doc, j.sites, j.chosen)
				res := run(v, len(j.chosen) <= 2 || len(j.chosen) >= len(j.sites)-1)
				var names []string
				for _, c := range j.chosen {
					names = append(names, fmt.Sprintf("%s:%v -> %s", j.sites[c].File, j.sites[c].Path, j.sites[c].Ref))
				}
				k := kase{Base: j.b.Name, Inlined: names, Doc: j.b.Doc, Variant: v}
				attrs := func(class string) map[string]string {
					return map[string]string{"class": class + "/" + j.b.Name, "base": j.b.Name}
				}
				switch {
				case res.Panic != "":
					k.Detail = res.Panic
					r.Violation(attrs("panic-on-inlined-variant"), len(j.chosen), k)
				case res.ParseErr != j.ref.ParseErr:
					k.Detail = fmt.Sprintf("referencing: %q / inlined: %q", trunc(j.ref.ParseErr, 300), trunc(res.ParseErr, 300))
					r.Violation(attrs("parse-outcome-differs-between-reference-and-inlined-copy"), len(j.chosen), k)
				case res.Dump != j.ref.Dump:
					k.Detail = firstDiff(j.ref.Dump, res.Dump)
					a := attrs("parsed-API-differs-between-reference-and-inlined-copy")
					if stripExamples(j.ref.Dump) == stripExamples(res.Dump) {
						a["cause"] = "examples-only"
					}
					r.Violation(a, len(j.chosen), k)
				case res.IRShape != "" && j.ref.IRShape != "" && res.IRShape != j.ref.IRShape:
					k.Detail = firstDiff(j.ref.IRShape, res.IRShape)
					la, lb := strings.Split(j.ref.IRShape, "\n"), strings.Split(res.IRShape, "\n")
					for i := 0; i < len(la) && i < len(lb); i++ {
						if la[i] != lb[i] {
							k.Detail = "referencing: " + trunc(la[i], 1800) + "\ninlined:     " + trunc(lb[i], 1800)
							break
						}
					}
					a := attrs("generated-code-shape-differs-between-reference-and-inlined-copy")
					noStatus := func(s string) string {
						return strings.ReplaceAll(strings.ReplaceAll(s, "status=true", "status=?"), "status=false", "status=?")
					}
					if noStatus(j.ref.IRShape) == noStatus(res.IRShape) {
						a["cause"] = "status-code-wrapper-flag-only"
					}
					r.Violation(a, len(j.chosen), k)
				case (res.GenErr == "") != (j.ref.GenErr == "") && (len(j.chosen) <= 2 || len(j.chosen) >= len(j.sites)-1):
					k.Detail = fmt.Sprintf("generation, referencing: %q / inlined: %q", j.ref.GenErr, res.GenErr)
					r.Violation(attrs("generation-outcome-differs-between-reference-and-inlined-copy"), len(j.chosen), k)
				case res.Expand != "":
					k.Detail = res.Expand
					a := attrs("expanded-spec-is-not-equivalent")
					a["cause"] = res.ExpandCause
					r.Violation(a, len(j.chosen), k)
				}
				r.Eval(1)
				r.Nontrivial(j.b.Name + fmt.Sprint(j.chosen))
			}
		}()
	}
	for _, j := range jobs {
		ch <- j
	}
	close(ch)
	wg.Wait()

	// ----- cycles and depth
	cs := cycles(r.Thorough())
	for _, c := range cs {
		done := make(chan result, 1)
		go func() { done <- run(c.Doc, true) }()
		var res result
		timedOut := false
		select {
		case res = <-done:
		case <-time.After(15 * time.Minute):
			timedOut = true
		}
		k := kase{Base: c.Name, Doc: c.Doc}
		if len(c.Name) > 11 && (strings.Contains(c.Name, "alias chain") || strings.Contains(c.Name, "nested arrays")) {
			k.Doc = doc{Root: "(generated chain, omitted)"}
		}
		outcome := "generates"
		errText := res.ParseErr + res.GenErr
		if errText != "" {
			outcome = "error"
		}
		attrs := map[string]string{"class": "", "cycle": c.Name}
		switch {
		case timedOut:
			attrs["class"] = "does-not-terminate/" + c.Name
			k.Detail = "no result after 15 minutes"
		case res.Panic != "":
			attrs["class"] = "panic-on-cycle-or-deep-chain/" + c.Name
			k.Detail = res.Panic
		case c.Want == "generates" && outcome != "generates":
			attrs["class"] = "schema-recursion-rejected/" + c.Name
			k.Detail = trunc(errText, 400)
		case strings.HasPrefix(c.Want, "error:") && outcome != "error":
			attrs["class"] = "cycle-accepted/" + c.Name
			k.Detail = "generation succeeded"
		case strings.HasPrefix(c.Want, "error:") && !strings.Contains(errText, strings.TrimPrefix(c.Want, "error:")):
			attrs["class"] = "cycle-error-is-not-an-infinite-recursion-diagnostic/" + c.Name
			k.Detail = trunc(errText, 400)
		case c.Want == "error:infinite recursion" && !strings.Contains(errText, ".json:") && !strings.Contains(errText, "at "):
			attrs["class"] = "infinite-recursion-error-without-position/" + c.Name
			k.Detail = trunc(errText, 400)
		case outcome == "error" && len(c.Doc.Files) > 1:
			// located: every file:line:column of the diagnostic lies in that file, on a reference
			// (files are served as compact JSON: line 1, column = byte offset + 1)
			if bad := misplaced(c.Doc, errText, c.loose()); bad != "" {
				attrs["class"] = "cycle-error-located-outside-a-reference/" + c.Name
				k.Detail = bad + " | " + trunc(errText, 400)
			}
		}
		if attrs["class"] != "" {
			r.Violation(attrs, len(c.Name), k)
		}
		r.Eval(1)
		r.Nontrivial("cycle:" + c.Name)
		if res.Took > 10*time.Second {
			r.Add("cycle_cases_slower_than_10s", 1)
		}
	}
	r.Set("base_documents", len(bs))
	r.Set("reference_sites", totalSites)
	r.Set("inlined_variants", len(jobs))
	r.Set("cycle_and_depth_cases", len(cs))
	r.Sample(map[string]any{"base_document": bs[3].Name, "inlined_reference_sites": []string{"root.json:[paths /a get responses 201] -> #/components/responses/R", "root.json:[components responses R headers X-H] -> #/components/headers/H"}})
	r.Sample(map[string]any{"cycle": "header 2-cycle", "expected": "located infinite-recursion error"})
	r.Assume("the inliner in cmd/c07 works on the raw JSON tree and is independent of ogen's resolver; references inside an inlined copy from another file are rebased to keep their meaning",
		"API equality = structural dump of *openapi.API ignoring Ref, Pointer and Locator fields and yaml nodes",
		"generation is run (CheckFS: templates + gofmt, no compile) for variants with <= 2 or >= r-1 inlined sites and for every referencing document; compilation of such packages is C02's subject")
	r.Finish("base documents: 9 single-file reference graphs (every component kind: schema, parameter, header, response, requestBody, example, pathItem, securityScheme; chains of 2-3; one target from 2-4 sites under different names, paths, operations and codes; all kinds at once) and 6 multi-file topologies (component names shared between root and external file with local references inside the latter, sibling file, chain through a sub-directory with relative references, back reference into the root, two spellings of one file, external parameter/body/response->header->schema); for each, every non-empty subset of its reference sites is inlined (all 2^r for r <= 10/14, else all subsets of size <= 2 and >= r-1). cycles: 1-, 2- and 3-cycles for all 8 kinds, 8 schema recursion shapes, cycles across files, chains of 999/1000/1001/1500 references and nestings. distinct non-trivial = (base document, subset) or cycle case.")
}
