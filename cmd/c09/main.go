// C09 — a handler runs only when the operation's security requirements are met.
//
// Stage 1: one spec with every requirement structure over <= 3 schemes (255 operations), wide
// operations crossing the bitmask's byte boundaries, overrides of global requirements, and one
// operation per scheme kind (apiKey header/query/cookie, basic, bearer, oauth2 with scopes);
// regenerate client + server, emit scripted SecurityHandler/SecuritySource glue.
// Stage 2 (drivers/c09): all 4^n outcome vectors per operation against the OR-of-AND model, and
// credential equality through the generated client.
package main

import (
	"encoding/json"
	"fmt"
	"strings"

	"verif/internal/regen"
	"verif/internal/vf"
)

type M = map[string]any

type scheme struct {
	Name string `json:"name"`
	Kind string `json:"kind"` // hdr, qry, ck, basic, bearer, oauth2
	Par  string `json:"par"`  // header / query / cookie name
	Go   string `json:"go"`   // name of the generated Go type (where it differs from the scheme name)
}

type alt struct {
	Schemes []int      `json:"schemes"`
	Scopes  [][]string `json:"scopes,omitempty"` // per scheme (oauth2 only)
}

type opDesc struct {
	ID       string `json:"id"`
	Alts     []alt  `json:"alts"`
	Inherits bool   `json:"inherits_global"`
}

func main() {
	r := vf.Start("C09", "exploration")
	const wide = 20
	var schemes []scheme
	defs := M{}
	for i := 0; i < wide; i++ {
		n := fmt.Sprintf("S%02d", i)
		switch i % 3 {
		case 0:
			schemes = append(schemes, scheme{Name: n, Kind: "hdr", Par: fmt.Sprintf("X-K%02d", i)})
			defs[n] = M{"type": "apiKey", "in": "header", "name": fmt.Sprintf("X-K%02d", i)}
		case 1:
			schemes = append(schemes, scheme{Name: n, Kind: "qry", Par: fmt.Sprintf("k%02d", i)})
			defs[n] = M{"type": "apiKey", "in": "query", "name": fmt.Sprintf("k%02d", i)}
		default:
			schemes = append(schemes, scheme{Name: n, Kind: "ck", Par: fmt.Sprintf("c%02d", i)})
			defs[n] = M{"type": "apiKey", "in": "cookie", "name": fmt.Sprintf("c%02d", i)}
		}
	}
	iBasic, iBearer, iOauth := wide, wide+1, wide+2
	schemes = append(schemes, scheme{Name: "SBasic", Kind: "basic", Par: ""}, scheme{Name: "SBearer", Kind: "bearer", Par: ""}, scheme{Name: "SOauth", Kind: "oauth2", Par: ""})
	// two schemes on one credential channel, and one parameter name in two locations
	iBearer2, iSameQ, iSameC := wide+3, wide+4, wide+5
	schemes = append(schemes, scheme{Name: "SBearer2", Kind: "bearer", Par: ""}, scheme{Name: "SSameQ", Kind: "qry", Par: "X-K00"}, scheme{Name: "SSameC", Kind: "ck", Par: "X-K00"})
	defs["SBearer2"] = M{"type": "http", "scheme": "bearer"}
	defs["SSameQ"] = M{"type": "apiKey", "in": "query", "name": "X-K00"}
	defs["SSameC"] = M{"type": "apiKey", "in": "cookie", "name": "X-K00"}
	defs["SBasic"] = M{"type": "http", "scheme": "basic"}
	defs["SBearer"] = M{"type": "http", "scheme": "bearer"}
	defs["SOauth"] = M{"type": "oauth2", "flows": M{"clientCredentials": M{"tokenUrl": "https://x/token", "scopes": M{"read": "r", "write": "w", "admin": "a"}}}}

	paths := M{}
	var ops []opDesc
	addOp := func(alts []alt, explicit bool) {
		id := fmt.Sprintf("op%d", len(ops))
		o := M{"operationId": id, "responses": M{"200": M{"description": "ok"}}}
		if explicit {
			sec := []any{}
			for _, a := range alts {
				req := M{}
				for j, s := range a.Schemes {
					sc := []string{}
					if a.Scopes != nil && a.Scopes[j] != nil {
						sc = a.Scopes[j]
					}
					req[schemes[s].Name] = sc
				}
				sec = append(sec, req)
			}
			o["security"] = sec
		}
		paths["/"+id] = M{"get": o}
		ops = append(ops, opDesc{id, alts, !explicit})
	}
	plain := func(sets ...[]int) []alt {
		var out []alt
		for _, s := range sets {
			out = append(out, alt{Schemes: s})
		}
		return out
	}
	var allAlts [][]int
	for m := 0; m < 8; m++ {
		a := []int{}
		for b := 0; b < 3; b++ {
			if m&(1<<b) != 0 {
				a = append(a, b)
			}
		}
		allAlts = append(allAlts, a)
	}
	for set := 1; set < 256; set++ {
		var sets [][]int
		for i := 0; i < 8; i++ {
			if set&(1<<i) != 0 {
				sets = append(sets, allAlts[i])
			}
		}
		addOp(plain(sets...), true)
	}
	var singles [][]int
	all := []int{}
	for i := 0; i < wide; i++ {
		singles = append(singles, []int{i})
		all = append(all, i)
	}
	addOp(plain(singles...), true)
	addOp(plain([]int{7, 8}, []int{15, 16}), true)
	addOp(plain(all), true)
	addOp(plain(all[:9], all[9:17], all[17:]), true)
	addOp(plain([]int{6, 7}, []int{8, 9}, []int{14, 15}, []int{16, 17}), true)
	// bit positions that do not follow name order: positions are assigned by first appearance, so an
	// alternative introduced later can pair a low name on a high bit with a high name on a low bit
	// (a seeded change to the bitset that lost high bytes when a low bit was set afterwards was missed
	// while every operation listed its schemes in ascending order)
	for _, k := range []int{10, 17, 18} {
		lo, hi := all[:k-8], all[k-8:k]
		for _, mixed := range [][][]int{
			{{lo[0], hi[7]}}, {{lo[1], hi[0]}}, {{lo[0], lo[1], hi[3]}}, {{lo[len(lo)-1], hi[7]}, {lo[0], hi[0], hi[7]}}, {{lo[0], hi[7]}, {hi[0], hi[1]}, {lo[1]}},
		} {
			addOp(plain(append([][]int{hi, lo}, mixed...)...), true)
			addOp(plain(append([][]int{lo, hi}, mixed...)...), true)
			addOp(plain(append(append([][]int{}, mixed...), hi, lo)...), true)
		}
	}
	// requirement *lists*: an alternative may be written more than once (it means the same as once),
	// next to itself or around another one
	for i, x := range allAlts {
		addOp(plain(x, x), true)
		for j, y := range allAlts[:4] {
			if i != j && i < 5 {
				addOp(plain(x, x, y), true)
				addOp(plain(x, y, x), true)
				addOp(plain(y, x, x), true)
			}
		}
	}
	addOp(nil, true) // security: [] -> anonymous
	// the global requirement (written with a repeated alternative) is inherited by several operations:
	// whatever reads that one list reads it once per operation
	addOp(plain([]int{3}, []int{3}, []int{4, 5}), false)
	// one operation per kind and mixed kinds
	addOp(plain([]int{iBasic}), true)
	addOp(plain([]int{iBearer}), true)
	addOp([]alt{{[]int{iOauth}, [][]string{{"read"}}}}, true)
	addOp([]alt{{[]int{iOauth}, [][]string{{"write", "admin"}}}}, true)
	addOp([]alt{{[]int{iOauth}, [][]string{{}}}}, true)
	addOp(plain([]int{iBasic, 0}), true)
	addOp(plain([]int{iBearer}, []int{1}), true)
	addOp([]alt{{[]int{iOauth}, [][]string{{"read"}}}, {[]int{iBasic}, nil}}, true)
	addOp([]alt{{[]int{iOauth, 2}, [][]string{{"admin"}, nil}}, {[]int{0, 1}, nil}}, true)
	addOp(plain([]int{iBearer}, []int{iBearer2}), true)
	addOp(plain([]int{iBearer, iBearer2}), true)
	addOp(plain([]int{iBearer2, 0}, []int{iBearer}), true)
	addOp(plain([]int{0, iSameQ}), true)
	addOp(plain([]int{0}, []int{iSameQ}, []int{iSameC}), true)
	addOp(plain([]int{iSameQ, iSameC}, []int{0}), true)
	addOp(plain([]int{0}), true)
	addOp(plain([]int{1}), true)
	addOp(plain([]int{2}), true)
	addOp(plain([]int{3}, []int{3}, []int{4, 5}), false) // inherits the global requirement too
	addOp(plain([]int{3}, []int{3}, []int{4, 5}), false) // and a third one
	// ----- alternatives the generator cannot implement (openIdConnect, http digest, http negotiate; mutualTLS needs a 3.1 document) under
	// ignore_not_implemented: such an alternative can never be satisfied; the others keep their
	// meaning.  Scheme names are spelled the way specs spell them (snake case, so the Go type name
	// differs from the key) and sort around the unimplemented ones: schemes of an alternative are
	// visited in name order and registered before the failure is known.
	iA, iB, iZ := len(schemes), len(schemes)+1, len(schemes)+2
	schemes = append(schemes, scheme{Name: "a_key", Kind: "hdr", Par: "X-SA", Go: "AKey"}, scheme{Name: "b_key", Kind: "qry", Par: "sb", Go: "BKey"}, scheme{Name: "z_key", Kind: "ck", Par: "sz", Go: "ZKey"})
	defs["a_key"] = M{"type": "apiKey", "in": "header", "name": "X-SA"}
	defs["b_key"] = M{"type": "apiKey", "in": "query", "name": "sb"}
	defs["z_key"] = M{"type": "apiKey", "in": "cookie", "name": "sz"}
	iM := len(schemes)
	schemes = append(schemes, scheme{Name: "m_oidc", Kind: "unsupported", Par: "", Go: ""}, scheme{Name: "m_nego", Kind: "unsupported", Par: "", Go: ""}, scheme{Name: "m_digest", Kind: "unsupported", Par: "", Go: ""})
	defs["m_oidc"] = M{"type": "openIdConnect", "openIdConnectUrl": "https://x/.well-known/openid-configuration"}
	defs["m_nego"] = M{"type": "http", "scheme": "negotiate"}
	defs["m_digest"] = M{"type": "http", "scheme": "digest"}
	skipOps := 0
	family := func(members []int, maxLen int, needDead bool) {
		var subsets [][]int
		for m := 1; m < 1<<len(members); m++ {
			var a []int
			for b := range members {
				if m&(1<<b) != 0 {
					a = append(a, members[b])
				}
			}
			subsets = append(subsets, a)
		}
		var rec func(seq []int)
		rec = func(seq []int) {
			if len(seq) > 0 {
				dead := false
				var sets [][]int
				for _, si := range seq {
					a := append([]int{}, subsets[si]...)
					for j, s := range a {
						if s == -1 {
							dead = true
							a[j] = iM + skipOps%3
						}
					}
					sets = append(sets, a)
				}
				if dead || !needDead {
					addOp(plain(sets...), true)
					skipOps++
				}
			}
			if len(seq) == maxLen {
				return
			}
		next:
			for si := range subsets {
				for _, u := range seq {
					if u == si {
						continue next
					}
				}
				rec(append(append([]int{}, seq...), si))
			}
		}
		rec(nil)
	}
	family([]int{iA, -1, iZ}, 3, false)
	if r.Thorough() {
		family([]int{iA, iB, -1, iZ}, 3, true) // 2 696 operations
	} else {
		family([]int{iA, iB, -1, iZ}, 2, true)
	}
	addOp(plain([]int{iM, iM + 1}, []int{iA}), true)
	addOp(plain([]int{iA, iM, iM + 2}, []int{iA, iZ}), true)
	addOp(plain([]int{iA, iM + 1}, []int{iA, iM + 2}, []int{iZ, iA}), true)
	spec := M{"openapi": "3.0.3", "info": M{"title": "t", "version": "1"}, "paths": paths,
		"security":   []any{M{"S03": []any{}}, M{"S03": []any{}}, M{"S04": []any{}, "S05": []any{}}},
		"components": M{"securitySchemes": defs}}
	// two generations of the same operations: as they are, and with one shared default response, which
	// switches the generator to "convenient errors" (refusals are then written through NewError: another
	// branch of the security block of every handler)
	for _, variant := range []string{"plain", "convenient-errors"} {
		driveVariant(r, variant, spec, paths, ops, schemes)
	}
	r.Set("operations", len(ops))
	r.Set("schemes", len(schemes))
	r.Assume("model: handler invoked <=> some alternative has all its schemes accepted AND no scheme the operation evaluates was hard-rejected (a non-skip error from the SecurityHandler aborts the request with 401: documented contract of ErrSkipServerSecurity); vectors with a hard reject and a satisfied alternative are counted in hard_reject_vectors_with_satisfied_alternative",
		"the iff half drives Server.ServeHTTP directly with hand-built credentials (the generated client refuses to send when its SecuritySource cannot satisfy any alternative); the credential-equality half goes through the generated client",
		"operations with two Authorization-based schemes are only driven with at most one of them presented (HTTP carries one Authorization header)")
	r.Finish("requirement structures: all 255 non-empty sets of alternatives over 3 apiKey schemes (header, query, cookie), 5 operations over 20 schemes with alternatives straddling bitmask indices 7/8 and 15/16, `security: []`, inheritance of a global requirement, and 12 operations over basic / bearer / oauth2 (three scope sets) / mixed kinds; alternatives with unimplemented schemes under ignore_not_implemented. Both with plain and with convenient errors. per operation: all 4^n vectors over {absent, accepted, skipped, hard-rejected} for n <= 3 schemes, for wide operations every one-hot / all-but-one vector on three backgrounds and all boundary pairs. client half: credential values (core alphabet and reserved characters) through Client -> Server for every scheme kind, oauth2 scopes = the operation's scopes. non-trivial = distinct (variant, operation, vector) with at least one scheme presented.")
}

func driveVariant(r *vf.Run, variant string, spec, paths M, ops []opDesc, schemes []scheme) {
	if variant == "convenient-errors" {
		for _, item := range paths {
			for _, o := range item.(M) {
				o.(M)["responses"].(M)["default"] = M{"$ref": "#/components/responses/Err"}
			}
		}
		comps := spec["components"].(M)
		comps["responses"] = M{"Err": M{"description": "error", "content": M{"application/json": M{"schema": M{"$ref": "#/components/schemas/ErrBody"}}}}}
		comps["schemas"] = M{"ErrBody": M{"type": "object", "required": []any{"message"}, "properties": M{"message": M{"type": "string"}}}}
	}
	data, _ := json.Marshal(spec)

	sc := regen.NewScratch(r)
	defer sc.Close()
	opts := regen.Features("paths/server", "paths/client", "ogen/unimplemented")
	opts.Generator.IgnoreNotImplemented = []string{"openIdConnect security", "mutualTLS security", "http security scheme"}
	_, err := regen.Generate(data, opts, sc.Path("api"), "api")
	if err != nil {
		if strings.HasPrefix(err.Error(), "PANIC") {
			r.Violation(map[string]string{"class": "generator-panic-on-security-spec"}, 0, M{"error": err.Error()})
			r.Finish("generation panicked")
		}
		vf.Fatal("security spec does not generate: %v", err)
	}
	var sb strings.Builder
	sb.WriteString("package api\n\nimport (\n\t\"context\"\n\t\"errors\"\n\t\"strings\"\n\n\t\"github.com/ogen-go/ogen/ogenerrors\"\n)\n\n")
	sb.WriteString(`// VerifSec is the scripted SecurityHandler + SecuritySource of the C09 driver.
type VerifSec struct {
	Seen       map[string]string
	SeenScopes map[string][]string
	SeenOp     map[string]string
	Give       map[string]string
	Calls      int
}

func verifOutcome(v string) error {
	switch {
	case strings.HasPrefix(v, "ok"):
		return nil
	case strings.HasPrefix(v, "skip"):
		return ogenerrors.ErrSkipServerSecurity
	}
	return errors.New("rejected")
}

`)
	for _, s := range schemes {
		n := s.Name
		if s.Go != "" {
			n = s.Go
		}
		if s.Kind == "unsupported" {
			continue
		}
		var repr, build string
		switch s.Kind {
		case "basic":
			repr = "t.Username + \"\\x00\" + t.Password"
			build = fmt.Sprintf("u, p, _ := strings.Cut(v, \"\\x00\")\n\treturn %s{Username: u, Password: p}, nil", n)
		case "bearer", "oauth2":
			repr = "t.Token"
			build = fmt.Sprintf("return %s{Token: v}, nil", n)
		default:
			repr = "t.APIKey"
			build = fmt.Sprintf("return %s{APIKey: v}, nil", n)
		}
		scopes := ""
		if s.Kind == "oauth2" {
			scopes = fmt.Sprintf("\ts.SeenScopes[%q] = append([]string{}, t.Scopes...)\n", s.Name)
		}
		fmt.Fprintf(&sb, "func (s *VerifSec) Handle%s(ctx context.Context, op OperationName, t %s) (context.Context, error) {\n\ts.Calls++\n\ts.Seen[%q] = %s\n\ts.SeenOp[%q] = string(op)\n%s\treturn ctx, verifOutcome(%s)\n}\n\n", n, n, s.Name, repr, s.Name, scopes, repr)
		fmt.Fprintf(&sb, "func (s *VerifSec) %s(ctx context.Context, op OperationName) (%s, error) {\n\tv, ok := s.Give[%q]\n\tif !ok {\n\t\treturn %s{}, ogenerrors.ErrSkipClientSecurity\n\t}\n\t%s\n}\n\n", n, n, s.Name, n, build)
	}
	if variant == "convenient-errors" {
		sb.WriteString(`// VerifHandler answers like UnimplementedHandler, through the shared error response.
type VerifHandler struct{ UnimplementedHandler }

func (VerifHandler) NewError(ctx context.Context, err error) *ErrStatusCode {
	code := 501
	var se *ogenerrors.SecurityError
	if errors.As(err, &se) {
		code = 401
	}
	return &ErrStatusCode{StatusCode: code, Response: ErrBody{Message: err.Error()}}
}

`)
	} else {
		sb.WriteString("type VerifHandler = UnimplementedHandler\n\n")
	}
	ob, _ := json.Marshal(M{"ops": ops, "schemes": schemes, "variant": variant})
	fmt.Fprintf(&sb, "const VerifSpecJSON = %q\n", string(ob))
	sc.Write("api/verif_glue.go", []byte(sb.String()))
	sc.CopyDriver("c09", "driver")
	sc.BuildChecked(r, "driver", "driver.bin")
	var args []string
	if r.Replay != "" {
		var c struct {
			Op     string   `json:"operation"`
			Vector []string `json:"vector"`
		}
		r.ReplayCase(&c)
		args = []string{"--only-op", c.Op}
	}
	sum := sc.RunDriver(r, "driver.bin", nil, args...)
	for k, v := range sum.Stats {
		r.Set(variant+"/"+k, v)
	}
}
