// C08 — converted regular expressions match exactly what the ECMA-262 pattern matches.
//
// Patterns: every sequence of <= K terms (atom x quantifier) over an atom alphabet holding every
// escape, class form, anchor, group and look-around/back-reference construct, plus wrappers;
// subjects: every string of <= L code points over a 26-symbol alphabet. Oracle: the reference
// backtracking matcher (internal/ecma); a mismatch is alarmed only when regexp2
// (ECMAScript|Unicode) agrees with the reference against ogen, otherwise it is oracle_disputed.
package main

import (
	"fmt"
	"runtime"
	"sort"
	"strings"
	"sync"
	"sync/atomic"
	"time"

	"github.com/dlclark/regexp2"
	"github.com/ogen-go/ogen/ogenregex"

	"verif/internal/ecma"
	"verif/internal/vf"
)

const bs = "\\"

func u4(h string) string { return bs + "u" + h }

func cp(r rune) string { return string(r) }

func atomsList() []string {
	eacute, emoji := cp(0xE9), cp(0x1F600)
	return []string{"a", "b", "-", ":", ".", bs + "d", bs + "D", bs + "w", bs + "W", bs + "s", bs + "S", bs + "b", bs + "B",
		bs + "t", bs + "n", bs + "v", bs + "f", bs + "r", bs + "0", bs + "cA", bs + "cj", bs + "x41", u4("0041"), u4("2028"), u4("00e9"), bs + "u{1F600}", " ",
		bs + "/", bs + ".", bs + bs, bs + "[", bs + "]", bs + "$", bs + "^", bs + "*", bs + "(", bs + "{", bs + "|", bs + "-",
		"[ab]", "[^a]", "[a-c]", "[" + bs + "d]", "[" + bs + "s]", "[^" + bs + "s]", "[" + bs + "b]", "[]", "[^]", "[.]", "[[]", "[a" + bs + "-c]", "[-a]", "[a-]",
		"[[:word:]]", "[" + bs + "w-]", "[^" + bs + "W]", "[" + bs + "]]", "[a^]", "[$]", "[" + bs + "x41-" + bs + "x43]", "[" + u4("00e9") + "]", "[" + eacute + "]", eacute, emoji, "[" + emoji + "]", "[^" + emoji + "]",
		"[" + bs + "S]", "[^" + bs + "S]", "[" + bs + "D]", "[" + bs + "W]", "[" + bs + "n]", "[" + u4("2028") + "-" + u4("2029") + "]",
		"^", "$", "(a)", "(?:a)", "(a|b)", "(?:a|)", "(a*)", "(?=a)", "(?!a)", "(?<=a)", "(?<!a)", "(a)" + bs + "1", "(a|b)" + bs + "1", "()", "(?:)", "(?<n>a)" + bs + "k<n>",
		// references on their own, so that sequences place them before, after and between groups
		bs + "1", bs + "2", bs + "k<n>", "(b)", "(?<n>b)"}
}

var quants = []string{"", "*", "+", "?", "{2}", "{1,2}", "{1,}", "{0}", "*?", "+?", "??", "{1,2}?"}

func patterns(level int) []string {
	atoms := atomsList()
	var terms []string
	for _, a := range atoms {
		for _, q := range quants {
			terms = append(terms, a+q)
		}
	}
	var second []string
	for _, a := range atoms {
		second = append(second, a)
		if level >= 2 {
			second = append(second, a+"*", a+"+?")
		}
	}
	set := map[string]bool{}
	add := func(p string) { set[p] = true }
	for _, t := range terms {
		add(t)
	}
	first := terms
	if level < 2 {
		first = nil
		for _, a := range atoms {
			for _, q := range []string{"", "*", "+?", "{1,2}"} {
				first = append(first, a+q)
			}
		}
	}
	for _, t := range first {
		for _, s := range second {
			add(t + s)
		}
	}
	if level >= 3 {
		red := []string{"a", "b", ".", bs + "s", bs + "S", bs + "b", bs + "w", "[^a]", "[]", "[^]", "[" + bs + "s]", "^", "$", "(a|b)", "(?:a|)", "(a*)", bs + "n", u4("2028"), cp(0x1F600), "(?=a)", "(a)" + bs + "1"}
		for _, x := range red {
			for _, y := range red {
				for _, z := range red {
					for _, q := range []string{"", "*", "+?"} {
						add(x + y + q + z)
						add(x + q + "|" + y + z)
					}
				}
			}
		}
	}
	base := make([]string, 0, len(set))
	for p := range set {
		base = append(base, p)
	}
	for _, p := range base {
		if len(p) <= 12 {
			add("^" + p + "$")
			add("^(?:" + p + ")$")
			add(p + "|b")
			add("(?:" + p + ")+")
			add("(" + p + ")*b")
		}
	}
	out := make([]string, 0, len(set))
	for p := range set {
		out = append(out, p)
	}
	sort.Slice(out, func(i, j int) bool {
		if len(out[i]) != len(out[j]) {
			return len(out[i]) < len(out[j])
		}
		return out[i] < out[j]
	})
	return out
}

func subjects(maxLen int) []string {
	alpha := []string{"a", "b", "A", "1", "_", "-", ":", "]", "[", "\n", "\r", "\v", "\b", "\x00", " ", cp(0xFEFF), cp(0xA0), cp(0x2028), cp(0xE9), cp(0x1F600), cp(0x20000), "\x01", bs, "/", ".", "$"}
	out := []string{""}
	cur := []string{""}
	for l := 0; l < maxLen; l++ {
		var next []string
		for _, c := range cur {
			for _, a := range alpha {
				next = append(next, c+a)
			}
		}
		out = append(out, next...)
		cur = next
	}
	return out
}

// escapeSweep: every escape that denotes one code point, by value, in five contexts, against every
// single code point of a dense range plus the neighbours of its value (the statement names the
// \u \x \c escapes explicitly; the atom list above carries only one or two of each).
type escCase struct {
	pats []string
	subs []string
}

func escapeSweep(thorough bool) []escCase {
	type esc struct {
		text string
		v    rune
	}
	var es []esc
	for l := 'A'; l <= 'Z'; l++ {
		es = append(es, esc{bs + "c" + string(l), l % 32}, esc{bs + "c" + string(l+32), l % 32})
	}
	for v := 0; v < 256; v++ {
		es = append(es, esc{fmt.Sprintf("%sx%02x", bs, v), rune(v)}, esc{fmt.Sprintf("%su%04X", bs, v), rune(v)}, esc{fmt.Sprintf("%su{%x}", bs, v), rune(v)})
		if v >= 0xa0 || v&0xf >= 10 {
			es = append(es, esc{fmt.Sprintf("%sx%02X", bs, v), rune(v)})
		}
	}
	for _, v := range []rune{0x100, 0x17f, 0x7ff, 0x800, 0xfff, 0x1000, 0x2028, 0x2029, 0xd7ff, 0xe000, 0xfeff, 0xfffd, 0xffff} {
		es = append(es, esc{fmt.Sprintf("%su%04x", bs, v), v}, esc{fmt.Sprintf("%su{%X}", bs, v), v}, esc{fmt.Sprintf("%su{%06x}", bs, v), v})
	}
	for _, v := range []rune{0x10000, 0x1f600, 0x20000, 0xfffff, 0x100000, 0x10ffff} {
		es = append(es, esc{fmt.Sprintf("%su{%x}", bs, v), v}, esc{fmt.Sprintf("%su{%08X}", bs, v), v})
	}
	for _, c := range "^$" + bs + ".*+?()[]{}|/" {
		es = append(es, esc{bs + string(c), c})
	}
	for _, c := range "tnvfr0" {
		es = append(es, esc{bs + string(c), map[rune]rune{'t': 9, 'n': 10, 'v': 11, 'f': 12, 'r': 13, '0': 0}[c]})
	}
	var singles []string
	top := rune(0x180)
	if thorough {
		top = 0x3000
	}
	for c := rune(0); c < top; c++ {
		singles = append(singles, string(c))
	}
	for _, c := range []rune{0x7ff, 0x800, 0xfff, 0x1000, 0x2027, 0x2028, 0x2029, 0x202a, 0xd7ff, 0xe000, 0xfeff, 0xfffd, 0xfffe, 0xffff, 0x10000, 0x10001, 0x1f600, 0x20000, 0xfffff, 0x100000, 0x10fffe, 0x10ffff} {
		singles = append(singles, string(c))
	}
	var out []escCase
	for _, e := range es {
		near := []rune{e.v, '0', '1', 1, 'a', 'x', 'u', 'c', '{', '}'}
		if e.v > 0 {
			near = append(near, e.v-1)
		}
		if e.v < 0x10ffff {
			near = append(near, e.v+1)
		}
		for _, d := range e.text[1:] {
			near = append(near, d)
		}
		subs := append([]string{""}, singles...)
		for _, a := range near {
			if a >= 0xd800 && a <= 0xdfff {
				continue
			}
			for _, b := range near {
				if b >= 0xd800 && b <= 0xdfff {
					continue
				}
				subs = append(subs, string(a)+string(b))
				if a == e.v && b == e.v {
					subs = append(subs, string(a)+string(b)+string(b), string(a)+"0"+string(b))
				}
			}
		}
		t := e.text
		out = append(out, escCase{
			pats: []string{"^" + t + "$", "^[" + t + "]$", "^" + t + "{2}$", "^[^" + t + "]$", "^[" + t + "-" + t + "]$", "^[" + bs + "x00-" + t + "]$", "^[" + t + "-" + bs + "u{10FFFF}]$", "^(?:" + t + "0)+$", "^[a" + t + "0]{2}$", t + "+"},
			subs: subs,
		})
	}
	return out
}

// classEscapeSweep: the escapes that denote a set of characters (\d \D \w \W \s \S), alone and inside
// classes (plain, negated, next to a literal, negated next to a line terminator), against every single
// code point below U+3100 and both neighbours of every ECMA-262 white space / line terminator code
// point: where such a set is written out as ranges, every boundary of every range is hit.
func classEscapeSweep() (pats []string, subs []string) {
	for _, e := range []string{"d", "D", "w", "W", "s", "S"} {
		E := bs + e
		pats = append(pats, "^"+E+"$", "^["+E+"]$", "^[^"+E+"]$", "^["+E+"a]$", "^[^"+E+bs+"n]$", "^["+bs+"s"+bs+"S]$", "^"+E+"+$")
	}
	seen := map[rune]bool{}
	add := func(c rune) {
		if c >= 0 && c <= 0x10ffff && !(c >= 0xd800 && c <= 0xdfff) && !seen[c] {
			seen[c] = true
			subs = append(subs, string(c))
		}
	}
	for c := rune(0); c < 0x3100; c++ {
		add(c)
	}
	for _, c := range []rune{0x9, 0xa, 0xb, 0xc, 0xd, 0x20, 0xa0, 0x1680, 0x2000, 0x200a, 0x2028, 0x2029, 0x202f, 0x205f, 0x3000, 0xfeff, 0xd7ff, 0xe000, 0xffff, 0x10000, 0x10ffff} {
		add(c - 1)
		add(c)
		add(c + 1)
	}
	subs = append(subs, "", "a ", "  ")
	return pats, subs
}

// followerSweep: every kind of escape directly followed by a literal character, for every character
// of a dense range (Latin, Greek, Cyrillic, Armenian, Hebrew, Arabic incl. their digits) and boundary
// code points (digits of other scripts, characters whose low byte is an ASCII digit or hex letter).
// The scanners of \0, \N, \xHH, \uHHHH, \u{H}, \cX decide where the escape ends by looking at the
// next character: the follower must stay a literal of its own.
func followerSweep(thorough bool) []escCase {
	top := rune(0x700)
	if thorough {
		top = 0x3100
	}
	var followers []rune
	for c := rune(0x20); c < top; c++ {
		if c < 0x80 && strings.ContainsRune("^$"+bs+".*+?()[]{}|/-", c) {
			continue
		}
		followers = append(followers, c)
	}
	followers = append(followers, 0x0966, 0x0e50, 0x1810, 0x2070, 0x2080, 0x2460, 0x3007, 0x4e30, 0x4e31, 0x4e41, 0x4e61, 0xa620, 0xff10, 0xff11, 0xff21, 0xff41, 0x10330, 0x10341, 0x1d7ce, 0x1d7d8, 0x1f600, 0x20030)
	type esc struct {
		text  string
		v     string // what the escape matches on its own
		digit func(rune) bool
	}
	dec := func(c rune) bool { return c >= '0' && c <= '9' }
	hex := func(c rune) bool { return dec(c) || c >= 'a' && c <= 'f' || c >= 'A' && c <= 'F' }
	never := func(rune) bool { return false }
	es := []esc{{bs + "0", "\x00", dec}, {bs + "x41", "A", never}, {bs + "u0041", "A", never}, {bs + "u{41}", "A", never}, {bs + "cA", "\x01", never}, {bs + "t", "\t", never}, {bs + "/", "/", never}, {bs + "x0a", "\n", never}, {bs + "u00e9", cp(0xe9), never}}
	_ = hex
	var out []escCase
	for _, e := range es {
		var c escCase
		for _, f := range followers {
			if e.digit(f) {
				continue // \0 before a decimal digit is not in the grammar
			}
			F := string(f)
			c.pats = append(c.pats, "^"+e.text+F+"$", "^["+e.text+F+"]$", "^(?:"+e.text+F+"){2}$")
		}
		out = append(out, c)
	}
	// the same follower behind a back-reference (run by the backtracking engine) and behind a group
	var br escCase
	for _, f := range followers {
		if dec(f) {
			continue
		}
		F := string(f)
		br.pats = append(br.pats, "^(a|b)"+bs+"1"+F+"$", "^(?<n>a)"+bs+"k<n>"+F+"$", "^(a)"+F+bs+"1$")
	}
	out = append(out, br)
	return out
}

// followerSubjects: the subjects for one follower pattern are derived from the pattern itself.
func followerSubjects(p string) []string {
	// the follower is the last literal before the closing syntax
	core := strings.TrimSuffix(strings.TrimSuffix(strings.TrimSuffix(strings.TrimSuffix(p, "$"), "]"), "){2}"), bs+"1")
	var f rune
	for _, r := range core {
		f = r
	}
	F := string(f)
	heads := []string{"", "\x00", "A", "\x01", "\t", "/", "\n", cp(0xe9), "a", "aa", "bb", "ab", "a\t", "\x09", "Q", "\x00" + "0"}
	var subs []string
	for _, h := range heads {
		subs = append(subs, h, h+F, h+F+h+F, h+F+F, h+string(f+1), h+string(f&0xff), F+h)
	}
	return subs
}

type kase struct {
	Pattern   string `json:"pattern"`
	Subject   string `json:"subject_quoted"`
	Engine    string `json:"engine"`
	Ogen      string `json:"ogen"`
	Reference string `json:"reference_matcher"`
	Regexp2   string `json:"regexp2"`
	Converted string `json:"converted,omitempty"`
}

// needsBacktracking: the pattern holds a construct RE2 cannot express: look-around, a named
// back-reference next to a named group, or \N with N <= the number of capturing groups of the whole
// pattern (before or after the group).  A bare \k<n> without named groups and \N beyond the group
// count are Annex B identity / legacy octal escapes: either engine may run them.
func needsBacktracking(p string) bool {
	if strings.Contains(p, "(?=") || strings.Contains(p, "(?!") || strings.Contains(p, "(?<=") || strings.Contains(p, "(?<!") {
		return true
	}
	named := strings.Contains(p, "(?<")
	if named && strings.Contains(p, bs+"k<") {
		return true
	}
	groups := 0
	for i := 0; i < len(p); i++ {
		switch p[i] {
		case '\\':
			i++
		case '(':
			if i+1 < len(p) && p[i+1] == '?' && !(i+2 < len(p) && p[i+2] == '<' && i+3 < len(p) && p[i+3] != '=' && p[i+3] != '!') {
				continue
			}
			groups++
		}
	}
	for n := 1; n <= 2; n++ {
		if groups >= n && strings.Contains(p, bs+string(rune('0'+n))) {
			return true
		}
	}
	return false
}

func feature(p string) string {
	switch {
	case strings.Contains(p, "[]") || strings.Contains(p, "[^]"):
		return "empty-class"
	case needsBacktracking(p):
		return "backtracking-construct"
	}
	return "other"
}

var (
	dispMu       sync.Mutex
	dispByEngine = map[string]int{}
	dispSamples  = map[string][]string{}
)

type stats struct {
	evals, refSyntax, converted, fallback, disputed, disputedPats, budget, compileErrBoth, matchedTrue int64
}

func judgePattern(r *vf.Run, p string, subs []string, st *stats) {
	ref, err := ecma.Parse(p)
	re, cerr := ogenregex.Compile(p)
	usesRE2 := cerr == nil && fmt.Sprintf("%T", re) == "ogenregex.goRegexp"
	if cerr == nil && needsBacktracking(p) && usesRE2 {
		conv, _ := ogenregex.Convert(p)
		r.Violation(map[string]string{"class": "backtracking-construct-run-by-linear-engine", "pattern": p, "feature": feature(p)}, len(p),
			kase{Pattern: p, Engine: "RE2", Converted: conv})
	}
	if cerr == nil && re.String() != p {
		r.Violation(map[string]string{"class": "String-differs-from-source", "pattern": p, "feature": feature(p)}, len(p),
			kase{Pattern: p, Ogen: re.String()})
	}
	if err != nil {
		atomic.AddInt64(&st.refSyntax, 1)
		return
	}
	r2, r2err := regexp2.Compile(p, regexp2.ECMAScript|regexp2.Unicode)
	if cerr != nil {
		if r2err != nil {
			atomic.AddInt64(&st.compileErrBoth, 1)
			return
		}
		r.Violation(map[string]string{"class": "compile-error-on-valid-pattern", "pattern": p, "feature": feature(p)}, len(p),
			kase{Pattern: p, Ogen: cerr.Error()})
		return
	}
	if usesRE2 {
		atomic.AddInt64(&st.converted, 1)
	} else {
		atomic.AddInt64(&st.fallback, 1)
	}
	var ev, disp, bud, mt int64
	for _, s := range subs {
		ev++
		want, rerr := ref.Match(s)
		if rerr != nil {
			bud++
			continue
		}
		got, merr := re.MatchString(s)
		if merr != nil {
			r.Violation(map[string]string{"class": "match-error", "pattern": p, "feature": feature(p)}, len(p)+len(s),
				kase{Pattern: p, Subject: fmt.Sprintf("%q", s), Ogen: merr.Error()})
			continue
		}
		if want {
			mt++
		}
		if got == want {
			continue
		}
		agree := false
		r2s := "compile error"
		if r2err == nil {
			m2, e2 := r2.MatchString(s)
			r2s = fmt.Sprint(m2, e2)
			agree = e2 == nil && m2 == want
		}
		if !agree {
			disp++
			if disp == 1 {
				eng := "fallback"
				if usesRE2 {
					eng = "RE2"
				}
				dispMu.Lock()
				dispByEngine[eng]++
				if len(dispSamples[eng]) < 400 {
					dispSamples[eng] = append(dispSamples[eng], fmt.Sprintf("%s  subject=%q ogen=%v ref=%v regexp2=%s", p, s, got, want, r2s))
				}
				dispMu.Unlock()
			}
			continue
		}
		eng := "regexp2-fallback"
		conv := ""
		if usesRE2 {
			eng = "RE2"
			conv, _ = ogenregex.Convert(p)
		}
		r.Violation(map[string]string{"class": "match-differs-from-ecma262/" + eng + "/" + feature(p), "pattern": p, "feature": feature(p), "engine": eng}, len(p)+len(s),
			kase{Pattern: p, Subject: fmt.Sprintf("%q", s), Engine: eng, Ogen: fmt.Sprint(got), Reference: fmt.Sprint(want), Regexp2: r2s, Converted: conv})
	}
	atomic.AddInt64(&st.evals, ev)
	atomic.AddInt64(&st.disputed, disp)
	atomic.AddInt64(&st.budget, bud)
	atomic.AddInt64(&st.matchedTrue, mt)
	if disp > 0 {
		atomic.AddInt64(&st.disputedPats, 1)
	}
}

func main() {
	r := vf.Start("C08", "exploration")
	if r.Replay != "" {
		var k kase
		r.ReplayCase(&k)
		var s string
		fmt.Sscanf(k.Subject, "%q", &s)
		judgePattern(r, k.Pattern, []string{s}, &stats{})
		r.Finish("")
	}
	level, subjLen := 1, 2
	budget := 150 * time.Second
	if r.Thorough() {
		level, subjLen = 3, 2
		budget = 40 * time.Minute
	}
	r.SetDeadline(budget)
	pats := patterns(level)
	subs := subjects(subjLen)
	extra := subjects(3)
	st := &stats{}
	var done int64
	jobs := make(chan int, 1024)
	var wg sync.WaitGroup
	for w := 0; w < runtime.NumCPU(); w++ {
		wg.Add(1)
		go func() {
			defer wg.Done()
			for i := range jobs {
				if r.Expired() {
					continue
				}
				ss := subs
				if len(pats[i]) <= 6 {
					ss = extra
				}
				judgePattern(r, pats[i], ss, st)
				atomic.AddInt64(&done, 1)
			}
		}()
	}
	for i := range pats {
		jobs <- i
	}
	close(jobs)
	wg.Wait()
	sweep := escapeSweep(r.Thorough())
	var sweepPats int64
	sjobs := make(chan escCase, 64)
	for w := 0; w < runtime.NumCPU(); w++ {
		wg.Add(1)
		go func() {
			defer wg.Done()
			for c := range sjobs {
				for _, p := range c.pats {
					judgePattern(r, p, c.subs, st)
					atomic.AddInt64(&sweepPats, 1)
				}
			}
		}()
	}
	for _, c := range sweep {
		sjobs <- c
	}
	close(sjobs)
	wg.Wait()
	r.Set("escape_sweep_escapes", len(sweep))
	r.Set("escape_sweep_patterns", sweepPats)
	var followerPats int64
	fjobs := make(chan []string, 64)
	for w := 0; w < runtime.NumCPU(); w++ {
		wg.Add(1)
		go func() {
			defer wg.Done()
			for ps := range fjobs {
				for _, p := range ps {
					judgePattern(r, p, followerSubjects(p), st)
					atomic.AddInt64(&followerPats, 1)
				}
			}
		}()
	}
	for _, c := range followerSweep(r.Thorough()) {
		for i := 0; i < len(c.pats); i += 256 {
			fjobs <- c.pats[i:min(i+256, len(c.pats))]
		}
	}
	close(fjobs)
	wg.Wait()
	r.Set("follower_sweep_patterns", followerPats)
	cePats, ceSubs := classEscapeSweep()
	cjobs := make(chan string, len(cePats))
	for w := 0; w < runtime.NumCPU(); w++ {
		wg.Add(1)
		go func() {
			defer wg.Done()
			for p := range cjobs {
				judgePattern(r, p, ceSubs, st)
			}
		}()
	}
	for _, p := range cePats {
		cjobs <- p
	}
	close(cjobs)
	wg.Wait()
	r.Set("class_escape_sweep_patterns", len(cePats))
	r.Set("class_escape_sweep_subjects", len(ceSubs))
	if done < int64(len(pats)) {
		r.NotExhaustive(fmt.Sprintf("internal deadline %s reached after %d of %d patterns (shortest first)", budget, done, len(pats)))
	}
	r.Eval(st.evals)
	r.NontrivialN(st.evals - st.budget)
	r.Set("patterns", len(pats))
	r.Set("patterns_done", done)
	r.Set("subjects", len(subs))
	r.Set("subjects_for_short_patterns", len(extra))
	r.Set("patterns_outside_portable_grammar", st.refSyntax)
	r.Set("patterns_on_RE2", st.converted)
	r.Set("patterns_on_regexp2_fallback", st.fallback)
	r.Set("oracle_disputed_evaluations", st.disputed)
	r.Set("oracle_disputed_patterns", st.disputedPats)
	r.Set("oracle_disputed_patterns_by_engine", dispByEngine)
	for _, e := range []string{"RE2", "fallback"} {
		sort.Strings(dispSamples[e])
		if len(dispSamples[e]) > 8 {
			dispSamples[e] = dispSamples[e][:8]
		}
	}
	r.Set("oracle_disputed_samples", dispSamples)
	r.Set("reference_step_budget_exceeded", st.budget)
	r.Set("invalid_for_reference_and_regexp2_alike", st.compileErrBoth)
	r.Set("evaluations_where_pattern_matches", st.matchedTrue)
	for _, i := range []int{len(pats) / 3, len(pats) / 2, len(pats) - 1} {
		c, _ := ogenregex.Convert(pats[i])
		r.Sample(map[string]any{"pattern": pats[i], "converted": c, "subject_example": fmt.Sprintf("%q", subs[len(subs)/2])})
	}
	r.Assume("oracle: internal/ecma reference matcher (ECMA-262 pattern semantics over code points, no Annex B); alarm only when regexp2 ECMAScript|Unicode agrees with it against ogen",
		"patterns outside the portable grammar (reference reports a syntax error: Annex-B-only forms, named groups) are only checked for String()==source and for never running look-around/back-references on RE2")
	r.Finish(fmt.Sprintf("patterns: level %d = all single terms (%d atoms x %d quantifiers), two-term sequences (quick: 4 quantifiers on the first term, none on the second; thorough: all on the first, 3 on the second), thorough adds three-term sequences and alternations over 21 interaction-heavy atoms; each short pattern also wrapped as ^p$, ^(?:p)$, p|b, (?:p)+, (p)*b. subjects: all strings of <= %d code points over 26 symbols (<= 3 for patterns of <= 6 bytes). Escape sweep: every \\cX (52), \\xHH (all 256, both hex cases), \\uHHHH and \\u{H} for 0..FF and 19 boundary code points up to U+10FFFF, every identity and control escape, each in 10 contexts (alone, in a class, negated, quantified, as both ends of a range, repeated group, mixed class), against every single code point < U+0180 (thorough: < U+3000) and 22 boundary code points, plus all pairs over the neighbours of its value and the characters of its own spelling. Class-escape sweep: \\d \\D \\w \\W \\s \\S alone and in five class contexts against every single code point below U+3100 and both neighbours of every white space / line terminator code point. Follower sweep: nine kinds of escape, a numbered and a named back-reference, each directly followed by every character below U+0700 (thorough: U+3100) and 22 boundary code points (digits of other scripts, characters whose low byte is an ASCII digit or hex letter), alone, in a class and repeated, against subjects built from the escape's value and the follower. One evaluation = (pattern, subject); all distinct; non-trivial = evaluated by both the reference and ogen.", level, len(atomsList()), len(quants), subjLen))
}
