// C05 — router dispatch (and the router half of C12).
//
// Stage 1 (this binary): enumerate route sets over a segment alphabet, generate a tiny server-only
// package for every set the generator accepts (with the generator of the tree under check), emit a
// registry, build the driver in a scratch module. Stage 2 (drivers/c05): for every package, every
// request of the bounded request space, judged by a reference matcher (S1..S6 of DESIGN.md C05).
package main

import (
	"encoding/json"
	"fmt"
	"os"
	"path/filepath"
	"runtime"
	"sort"
	"strings"
	"sync"
	"time"

	"verif/internal/regen"
	"verif/internal/vf"
)

func params(t string) []string {
	var out []string
	for {
		i := strings.IndexByte(t, '{')
		if i < 0 {
			return out
		}
		j := strings.IndexByte(t, '}')
		out = append(out, t[i+1:j])
		t = t[j+1:]
	}
}

// methods of template i in a set: template 0 has GET+POST, the last one (if not 0) GET+PUT, others GET.
func methodsOf(i, n int) []string {
	switch {
	case i == 0:
		return []string{"get", "post"}
	case i == n-1:
		return []string{"get", "put"}
	}
	return []string{"get"}
}

func specFor(templates []string) string {
	paths := map[string]any{}
	for i, t := range templates {
		var ps []any
		for _, p := range params(t) {
			pm := map[string]any{"name": p, "in": "path", "required": true, "schema": map[string]any{"type": "string"}}
			// l_x / m_x: the parameter is serialized in label / matrix style
			switch {
			case strings.HasPrefix(p, "l_"):
				pm["style"] = "label"
			case strings.HasPrefix(p, "m_"):
				pm["style"] = "matrix"
			}
			ps = append(ps, pm)
		}
		item := map[string]any{}
		for _, m := range methodsOf(i, len(templates)) {
			o := map[string]any{"operationId": fmt.Sprintf("op%d%s", i, m), "responses": map[string]any{"200": map[string]any{"description": "ok"}}}
			if ps != nil {
				o["parameters"] = ps
			}
			item[m] = o
		}
		paths[t] = item
	}
	b, _ := json.Marshal(map[string]any{"openapi": "3.0.3", "info": map[string]any{"title": "t", "version": "1"}, "paths": paths})
	return string(b)
}

func templatesOver(segs []string, maxSegs int) []string {
	var out []string
	var rec func(prefix string, n int, used map[string]bool)
	rec = func(prefix string, n int, used map[string]bool) {
		if prefix != "" {
			out = append(out, prefix)
		}
		if n == 0 {
			return
		}
		for _, s := range segs {
			seg := s
			nu := map[string]bool{}
			for k := range used {
				nu[k] = true
			}
			for _, p := range params(s) {
				np := p
				for nu[np] {
					np += "x"
				}
				nu[np] = true
				seg = strings.Replace(seg, "{"+p+"}", "{"+np+"}", 1)
			}
			rec(prefix+"/"+seg, n-1, nu)
		}
	}
	rec("", maxSegs, map[string]bool{})
	out = append(out, "/")
	sort.Strings(out)
	return out
}

func subsets(templates []string, maxSet int) [][]string {
	var sets [][]string
	var choose func(start int, cur []string)
	choose = func(start int, cur []string) {
		if len(cur) > 0 {
			sets = append(sets, append([]string{}, cur...))
		}
		if len(cur) == maxSet {
			return
		}
		for i := start; i < len(templates); i++ {
			choose(i+1, append(cur, templates[i]))
		}
	}
	choose(0, nil)
	return sets
}

// swapAB is the a<->b symmetry of the alphabet; a set and its image are served by identical routers
// up to renaming, so only the lexicographically smaller of the two is kept.
func swapAB(t string) string {
	var sb strings.Builder
	inParam := false
	for i := 0; i < len(t); i++ {
		c := t[i]
		switch {
		case c == '{':
			inParam = true
		case c == '}':
			inParam = false
		case !inParam && c == 'a':
			c = 'b'
		case !inParam && c == 'b':
			c = 'a'
		}
		sb.WriteByte(c)
	}
	return sb.String()
}

func canonicalUnderSwap(set []string) bool {
	img := make([]string, len(set))
	for i, t := range set {
		img[i] = swapAB(t)
	}
	sort.Strings(img)
	return strings.Join(set, "\x00") <= strings.Join(img, "\x00")
}

type entry struct {
	ID        int      `json:"id"`
	Templates []string `json:"templates"`
}

func main() {
	r := vf.Start("C05", "exploration")
	var sets [][]string
	if r.Replay != "" {
		var c struct {
			Templates []string `json:"templates"`
		}
		r.ReplayCase(&c)
		sets = [][]string{c.Templates}
	} else {
		segs := []string{"a", "b", "ab", "{p}", "a{p}", "{p}a", "{p}-{q}"}
		t2 := templatesOver(segs, 2)
		for _, s := range subsets(t2, 2) {
			if canonicalUnderSwap(s) {
				sets = append(sets, s)
			}
		}
		// single templates of three segments
		for _, t := range templatesOver(segs, 3) {
			if strings.Count(t, "/") == 3 && canonicalUnderSwap([]string{t}) {
				sets = append(sets, []string{t})
			}
		}
		// templates whose static text carries percent-escapes (the router half of C12: every
		// equivalent spelling of a request reaches the same operation); handled by a dedicated part
		// of the driver
		sets = append(sets,
			[]string{"/a%20b"}, []string{"/caf%C3%A9"}, []string{"/c%2Fd"}, []string{"/q%3Fr"}, []string{"/x%7Ey"}, []string{"/a%20b/{p}"}, []string{"/%C3%A9/{p}/z%2Fz"},
			[]string{"/a%20b", "/a%2Fb"}, []string{"/s%25t"},
		)
		// hand-picked regression shapes (each found a defect in the spike)
		sets = append(sets,
			[]string{"/a/foo/{y}", "/a/{x}/q/baz"},
			[]string{"/c/foo/bar", "/c/foo/qux", "/c/{x}"},
			[]string{"/b/{x}z"},
			[]string{"/a/{p}", "/{p}/a"},
			[]string{"/name/{id}/{foo}1234{bar}-{baz}!{kek}"},
		)
		// static text made of other unreserved characters (dots of versions and file extensions, '_',
		// '~') and parameters delimited by reserved characters that net/url escapes ('!', '*') or
		// leaves alone (':', ';', '=')
		sets = append(sets,
			[]string{"/v1.0/status", "/{p}/status"}, []string{"/files/{p}.json"}, []string{"/files/{p}.json", "/files/{p}.json/meta"}, []string{"/docs/index.html", "/docs/{p}"},
			[]string{"/a_b/{p}~c"}, []string{"/t/{p}!{q}"}, []string{"/t/{p}*"}, []string{"/r/{p}:{q}"}, []string{"/r/{p};v={q}"}, []string{"/files/{p}.{q}"},
		)
		// static text written with literal non-ASCII characters: behind a parameter (alone, next to an
		// ASCII tail, next to a second non-ASCII tail with the same and with another first byte), as
		// sibling static segments that part inside a character, before a parameter, between two
		sets = append(sets,
			[]string{"/h/{p}\u00e9"}, []string{"/f/{p}\u00e9", "/f/{p}-x"}, []string{"/f/{p}\u00e9", "/f/{p}\u00e8"}, []string{"/f/{p}\u00e9", "/f/{p}\u65e5"},
			[]string{"/f/{p}\u00e9", "/f/{p}\u65e5", "/f/{p}.z"}, []string{"/g/\u00e9", "/g/\u00e8"}, []string{"/g/\u00e9", "/g/{p}"}, []string{"/\u00e9/{p}"}, []string{"/\u65e5\u672c/{p}/z"},
			[]string{"/k/{p}\u00e9{q}"}, []string{"/k/{p}\u00e9{q}", "/k/{p}-{q}"}, []string{"/m/{p}\u00e9/x", "/m/{p}/y"},
		)
		// parameters in label and matrix style, alone, behind static text and directly behind another
		// parameter (two parameters in a row have no text between them whatever their style: such a
		// template must be refused, and whatever is accepted has to compile; the styled ones are not
		// driven - the reference matcher knows simple parameters only)
		sets = append(sets, []string{"/s/{l_p}"}, []string{"/s/{m_p}"}, []string{"/s/a{l_p}", "/s/{q}"}, []string{"/s/{p}{l_q}"}, []string{"/s/{p}{m_q}"}, []string{"/s/{l_p}{q}"}, []string{"/s/{m_p}{l_q}"},
			[]string{"/s/{p}{l_q}", "/s/{p}/raw"}, []string{"/s/{p}.{l_q}"}, []string{"/s/{l_p}/{m_q}"})
		// static text behind a parameter that starts with a hex digit (the escapes of an argument are
		// made of hex digits)
		sets = append(sets, []string{"/x/{p}2"}, []string{"/x/{p}0/z"}, []string{"/x/{p}C"}, []string{"/x/{p}2", "/x/{p}-y"}, []string{"/x/{p}9{q}"})
		if r.Thorough() {
			red := templatesOver([]string{"a", "{p}", "a{p}", "{p}a"}, 2)
			for _, s := range subsets(red, 3) {
				if len(s) == 3 {
					sets = append(sets, s)
				}
			}
			t3 := templatesOver([]string{"a", "b", "{p}"}, 3)
			for _, s := range subsets(t3, 2) {
				if len(s) == 2 && canonicalUnderSwap(s) {
					sets = append(sets, s)
				}
			}
		}
	}

	if only := os.Getenv("VERIF_C05_ONLY"); only != "" { // development aid: only the sets with non-ASCII text / hex-digit tails
		var keep [][]string
		for _, s := range sets {
			if only == "hextail" && (strings.HasPrefix(s[0], "/x/{p}") || strings.HasPrefix(s[0], "/s/")) {
				keep = append(keep, s)
			}
			if only == "nonascii" && strings.IndexFunc(strings.Join(s, ""), func(r rune) bool { return r >= 0x80 }) >= 0 {
				keep = append(keep, s)
			}
		}
		sets = keep
	}
	sc := regen.NewScratch(r)
	defer sc.Close()
	t0 := time.Now()
	type result struct {
		ok  bool
		err string
	}
	results := make([]result, len(sets))
	var wg sync.WaitGroup
	sem := make(chan struct{}, runtime.NumCPU())
	opts := regen.Features("paths/server", "ogen/unimplemented")
	for i, set := range sets {
		wg.Add(1)
		sem <- struct{}{}
		go func(i int, set []string) {
			defer wg.Done()
			defer func() { <-sem }()
			_, err := regen.Generate([]byte(specFor(set)), opts, sc.Path(fmt.Sprintf("pk/r%d", i)), "api")
			if err != nil {
				_ = os.RemoveAll(sc.Path(fmt.Sprintf("pk/r%d", i)))
				results[i] = result{err: err.Error()}
				return
			}
			results[i] = result{ok: true}
		}(i, set)
	}
	wg.Wait()
	tGen := time.Since(t0).Seconds()

	var reg strings.Builder
	reg.WriteString("//go:build verifdriver\n\npackage main\n\nimport (\n\t\"net/http\"\n\t\"net/url\"\n\n\t\"github.com/ogen-go/ogen/middleware\"\n\n")
	nok := 0
	rejected := map[string]int{}
	var entries []entry
	for i, res := range results {
		if res.ok {
			fmt.Fprintf(&reg, "\tr%d \"scratch/pk/r%d\"\n", i, i)
			nok++
			entries = append(entries, entry{i, sets[i]})
			continue
		}
		if strings.HasPrefix(res.err, "PANIC") {
			r.Violation(map[string]string{"class": "generator-panic-on-route-set"}, len(fmt.Sprint(sets[i])), map[string]any{"templates": sets[i], "error": res.err})
			continue
		}
		k := res.err
		if j := strings.LastIndex(k, ": "); j >= 0 {
			k = k[j+2:]
		}
		if len(k) > 80 {
			k = k[:80]
		}
		rejected[k]++
	}
	reg.WriteString(")\n\nvar registry = []entry{\n")
	for _, e := range entries {
		fmt.Fprintf(&reg, "\t{%d, %#v, func(m middleware.Middleware, prefix string) (http.Handler, find) { s, err := r%d.NewServer(r%d.UnimplementedHandler{}, r%d.WithMiddleware(m), r%d.WithPathPrefix(prefix)); if err != nil { panic(err) }; return s, func(method string, u *url.URL) (string, []string, bool) { rt, ok := s.FindPath(method, u); return rt.Name(), rt.Args(), ok } }},\n", e.ID, e.Templates, e.ID, e.ID, e.ID, e.ID)
	}
	reg.WriteString("}\n")
	sc.CopyDriver("c05", "driver")
	sc.Write("driver/registry_gen.go", []byte(reg.String()))
	if nok == 0 {
		vf.Fatal("no route set was accepted by the generator: %v", rejected)
	}
	// route sets are plain specs: a regenerated router that does not compile routes nothing
	sc.BuildChecked(r, "driver", "driver.bin")
	tBuild := time.Since(t0).Seconds() - tGen
	sum := sc.RunDriver(r, "driver.bin", nil)
	r.Set("phase_seconds", map[string]float64{"generate": tGen, "build": tBuild, "drive": time.Since(t0).Seconds() - tGen - tBuild})
	r.Set("route_sets_enumerated", len(sets))
	r.Set("route_sets_generated", nok)
	r.Set("route_sets_rejected_by_generator", rejected)
	for k, v := range sum.Stats {
		r.Set(k, v)
	}
	for k, v := range sum.Info {
		r.Set(k, v)
	}
	_ = filepath.Join
	r.Assume("reference matcher: template <-> path by regular matching with parameters = [^/]* on the normalized escaped path; specificity = static text beats a parameter at the first differing position",
		"a request that violates S1/S4/S5 only under the strict matcher and is consistent under the lenient one (a parameter followed by static text matches up to the first occurrence of that text's first byte, slashes included) is attributed to the known finding; everything else is a violation",
		"requests are built with net/url.Parse (RawPath set as net/http would) and served in-process through Server.ServeHTTP; the observer is a middleware that records operation name and decoded path arguments")
	r.Finish("route sets: all sets of <= 2 templates over the 57 templates of <= 2 segments from {a,b,ab,{p},a{p},{p}a,{p}-{q}} modulo the a<->b symmetry, every single template of 3 segments, regression shapes; thorough adds all triples over the 21 templates from {a,{p},a{p},{p}a} and all pairs over 3-segment templates from {a,b,{p}}. Methods: GET+POST on the first template, GET+PUT on the last, GET elsewhere. Requests per set: every instance of every template with each parameter from {v, every static text of the set, empty, v%2Fw}, all paths of <= 3 segments over the same texts with and without trailing slash, x prefix {none,/api} x {GET,POST,PUT,DELETE}; every re-escaping (literal, %hh, %HH) of up to 4 unreserved bytes of every instance path. Oracles S1-S6 (DESIGN.md C05) + escaped variants reach the same operation with the same arguments (C12 router half). non-trivial = distinct (route set, prefix, method, path) whose path matches at least one template or is a near miss (counted by the driver).")
}
