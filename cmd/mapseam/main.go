// mapseam rewrites every `range` over a map (and every golang.org/x/exp/maps.Keys/Values call) in
// the selected packages of the tree under check into a call of verifrt (overlays/verifrt.go.txt),
// and writes the rewritten files plus an overlay.json for `go build -overlay`. /repo is not touched.
//
//	mapseam <repo> <outdir> <patterns...>
package main

import (
	"bytes"
	"encoding/json"
	"fmt"
	"go/ast"
	"go/format"
	"go/token"
	"go/types"
	"os"
	"path/filepath"
	"sort"
	"strconv"
	"strings"

	"golang.org/x/tools/go/ast/astutil"
	"golang.org/x/tools/go/packages"
)

const rtPath = "github.com/ogen-go/ogen/verifrt"

func main() {
	// -syncshim=<rel file>[,<rel file>]: additionally route "sync" and errgroup imports of these
	// files to the scheduler shim (verifsched), so that pool / errgroup operations become scheduling points
	shim := map[string]bool{}
	if len(os.Args) > 1 && strings.HasPrefix(os.Args[1], "-syncshim=") {
		for _, f := range strings.Split(strings.TrimPrefix(os.Args[1], "-syncshim="), ",") {
			shim[f] = true
		}
		os.Args = append(os.Args[:1], os.Args[2:]...)
	}
	repo, outDir := os.Args[1], os.Args[2]
	home := os.Getenv("VERIF_HOME")
	if home == "" {
		home = "/verif"
	}
	if err := os.MkdirAll(outDir, 0o755); err != nil {
		panic(err)
	}
	cfg := &packages.Config{
		Mode: packages.NeedName | packages.NeedFiles | packages.NeedSyntax | packages.NeedTypes | packages.NeedTypesInfo | packages.NeedImports | packages.NeedDeps,
		Dir:  repo,
		Env:  append(os.Environ(), "GOFLAGS=-mod=mod", "GOPROXY=off", "GOSUMDB=off", "GOTOOLCHAIN=local"),
	}
	pkgs, err := packages.Load(cfg, os.Args[3:]...)
	if err != nil {
		panic(err)
	}
	rt := filepath.Join(outDir, "verifrt.go")
	b, err := os.ReadFile(filepath.Join(home, "overlays", "verifrt.go.txt"))
	if err != nil {
		panic(err)
	}
	if err := os.WriteFile(rt, b, 0o644); err != nil {
		panic(err)
	}
	overlay := map[string]string{filepath.Join(repo, "verifrt", "rt.go"): rt}
	var sites, uncontrolled []string
	for _, p := range pkgs {
		if len(p.Errors) > 0 {
			fmt.Fprintf(os.Stderr, "mapseam: package %s has errors: %v\n", p.PkgPath, p.Errors[0])
			os.Exit(1)
		}
		for _, f := range p.Syntax {
			orig := p.Fset.Position(f.Package).Filename
			if strings.HasSuffix(orig, "_test.go") {
				continue
			}
			changed := false
			astutil.Apply(f, func(c *astutil.Cursor) bool {
				switch nd := c.Node().(type) {
				case *ast.RangeStmt:
					t := p.TypesInfo.TypeOf(nd.X)
					if t == nil {
						return true
					}
					m, ok := t.Underlying().(*types.Map)
					if !ok {
						return true
					}
					pos := p.Fset.Position(nd.Pos())
					rel, _ := filepath.Rel(repo, pos.Filename)
					site := fmt.Sprintf("%s:%d", rel, pos.Line)
					// pointer keys are ordered by the pointee's Name field; without one the site stays uncontrolled
					if ptr, isPtr := m.Key().Underlying().(*types.Pointer); isPtr {
						named := false
						if st, ok := ptr.Elem().Underlying().(*types.Struct); ok {
							for i := 0; i < st.NumFields(); i++ {
								if st.Field(i).Name() == "Name" {
									named = true
								}
							}
						}
						if !named {
							uncontrolled = append(uncontrolled, site)
							return true
						}
					}
					nd.X = &ast.CallExpr{
						Fun:  &ast.SelectorExpr{X: ast.NewIdent("verifrt"), Sel: ast.NewIdent("Ordered")},
						Args: []ast.Expr{nd.X, &ast.BasicLit{Kind: token.STRING, Value: strconv.Quote(site)}},
					}
					changed = true
					sites = append(sites, site)
				case *ast.CallExpr:
					sel, ok := nd.Fun.(*ast.SelectorExpr)
					if !ok || (sel.Sel.Name != "Keys" && sel.Sel.Name != "Values") {
						return true
					}
					id, ok := sel.X.(*ast.Ident)
					if !ok {
						return true
					}
					pn, ok := p.TypesInfo.Uses[id].(*types.PkgName)
					if !ok || pn.Imported().Path() != "golang.org/x/exp/maps" {
						return true
					}
					pos := p.Fset.Position(nd.Pos())
					rel, _ := filepath.Rel(repo, pos.Filename)
					site := fmt.Sprintf("%s:%d(maps.%s)", rel, pos.Line, sel.Sel.Name)
					nd.Fun = &ast.SelectorExpr{X: ast.NewIdent("verifrt"), Sel: ast.NewIdent(sel.Sel.Name)}
					nd.Args = append(nd.Args, &ast.BasicLit{Kind: token.STRING, Value: strconv.Quote(site)})
					changed = true
					sites = append(sites, site)
				}
				return true
			}, nil)
			relFile, _ := filepath.Rel(repo, orig)
			shimmed := false
			if shim[relFile] {
				for _, imp := range f.Imports {
					switch imp.Path.Value {
					case `"sync"`:
						imp.Path.Value = `"verifsched"`
						imp.Name = ast.NewIdent("sync")
						shimmed = true
					case `"golang.org/x/sync/errgroup"`:
						imp.Path.Value = `"verifsched"`
						imp.Name = ast.NewIdent("errgroup")
						shimmed = true
					}
				}
				if !shimmed {
					fmt.Fprintf(os.Stderr, "mapseam: %s imports neither sync nor errgroup: the scheduler shim cannot be applied\n", relFile)
					os.Exit(1)
				}
				delete(shim, relFile)
			}
			if !changed && !shimmed {
				continue
			}
			if changed {
				astutil.AddNamedImport(p.Fset, f, "verifrt", rtPath)
			}
			if !astutil.UsesImport(f, "golang.org/x/exp/maps") {
				astutil.DeleteImport(p.Fset, f, "golang.org/x/exp/maps")
			}
			var buf bytes.Buffer
			if err := format.Node(&buf, p.Fset, f); err != nil {
				panic(err)
			}
			rel, _ := filepath.Rel(repo, orig)
			dst := filepath.Join(outDir, strings.ReplaceAll(rel, "/", "__"))
			if err := os.WriteFile(dst, buf.Bytes(), 0o644); err != nil {
				panic(err)
			}
			overlay[orig] = dst
		}
	}
	if len(shim) > 0 {
		fmt.Fprintf(os.Stderr, "mapseam: files to shim not found: %v\n", shim)
		os.Exit(1)
	}
	sort.Strings(sites)
	data, _ := json.MarshalIndent(map[string]any{"Replace": overlay}, "", " ")
	_ = os.WriteFile(filepath.Join(outDir, "overlay.json"), data, 0o644)
	info, _ := json.MarshalIndent(map[string]any{"sites": sites, "uncontrolled_pointer_keyed_sites": uncontrolled}, "", " ")
	_ = os.WriteFile(filepath.Join(outDir, "sites.json"), info, 0o644)
	fmt.Printf("mapseam: %d sites rewritten in %d files, %d uncontrolled\n", len(sites), len(overlay)-1, len(uncontrolled))
}
