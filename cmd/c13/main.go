// C13 — text forms of primitive values parse back to the same value.
//
// Every conv.TToString/ToT pair and every json Encode*/Decode* pair, over exhaustive domains where
// the type is small (bool, 8/16-bit integers, all float32 bit patterns in the thorough tier, all
// times of day, every calendar day of years 0000-9999) and structured-exhaustive domains elsewhere
// (every power of two and ten with neighbours, every (sign, exponent) x mantissa pattern, ...).
package main

import (
	"fmt"
	"math"
	"net"
	"net/netip"
	"net/url"
	"regexp"
	"runtime"
	"sort"
	"strings"
	"sync"
	"time"

	"github.com/go-faster/jx"
	"github.com/google/uuid"
	"github.com/ogen-go/ogen/conv"
	ogenjson "github.com/ogen-go/ogen/json"

	"verif/internal/vf"
)

var r *vf.Run

type counter struct {
	mu sync.Mutex
	m  map[string]int64
}

var perPair = counter{m: map[string]int64{}}

func (c *counter) add(k string, n int64) {
	c.mu.Lock()
	c.m[k] += n
	c.mu.Unlock()
}

type kase struct {
	Pair  string `json:"pair"`
	Value string `json:"value"`
	Text  string `json:"text"`
	Back  string `json:"parsed_back"`
	Err   string `json:"error,omitempty"`
}

func report(pair, kind, value, text, back string, err error, extra map[string]string) {
	attrs := map[string]string{"class": pair + "/" + kind, "pair": pair, "value": value}
	for k, v := range extra {
		attrs[k] = v
	}
	e := ""
	if err != nil {
		e = err.Error()
	}
	r.Violation(attrs, len(text), kase{Pair: pair, Value: value, Text: text, Back: back, Err: e})
}

// one evaluates one value through one text pair.
func one[T any](name string, v T, enc func(T) string, dec func(string) (T, error), eq func(a, b T) bool, syn func(string) bool, extra func(T) map[string]string) {
	var text string
	var back T
	var err error
	var pan any
	func() {
		defer func() { pan = recover() }()
		text = enc(v)
		back, err = dec(text)
	}()
	var ex map[string]string
	if pan != nil || err != nil || !eq(back, v) || (syn != nil && !syn(text)) {
		if extra != nil {
			ex = extra(v)
		}
	}
	switch {
	case pan != nil:
		report(name, "panic", fmt.Sprint(v), text, "", fmt.Errorf("panic: %v", pan), ex)
	case err != nil:
		report(name, "own-text-rejected", fmt.Sprint(v), text, "", err, ex)
	case !eq(back, v):
		report(name, "value-changed", fmt.Sprint(v), text, fmt.Sprint(back), nil, ex)
	case syn != nil && !syn(text):
		report(name, "text-not-in-format-syntax", fmt.Sprint(v), text, fmt.Sprint(back), nil, ex)
	}
}

func jsonEnc[T any](enc func(*jx.Encoder, T)) func(T) string {
	return func(v T) string {
		var e jx.Encoder
		enc(&e, v)
		return string(e.Bytes())
	}
}

func jsonDec[T any](dec func(*jx.Decoder) (T, error)) func(string) (T, error) {
	return func(s string) (T, error) {
		d := jx.DecodeStr(s)
		v, err := dec(d)
		if err != nil {
			return v, err
		}
		if d.Next() != jx.Invalid {
			return v, fmt.Errorf("trailing data after value in %q", s)
		}
		return v, nil
	}
}

// quoted lifts a syntax predicate to JSON-string form.
func quoted(f func(string) bool) func(string) bool {
	return func(s string) bool {
		return len(s) >= 2 && s[0] == '"' && s[len(s)-1] == '"' && f(s[1:len(s)-1])
	}
}

func isUint(s string) bool {
	if s == "" || (len(s) > 1 && s[0] == '0') {
		return false
	}
	for i := 0; i < len(s); i++ {
		if s[i] < '0' || s[i] > '9' {
			return false
		}
	}
	return true
}
func isInt(s string) bool { return isUint(strings.TrimPrefix(s, "-")) && s != "-" }

// isNumber: JSON number grammar.
func isNumber(s string) bool {
	i := 0
	if i < len(s) && s[i] == '-' {
		i++
	}
	st := i
	for i < len(s) && s[i] >= '0' && s[i] <= '9' {
		i++
	}
	if i == st || (s[st] == '0' && i-st > 1) {
		return false
	}
	if i < len(s) && s[i] == '.' {
		i++
		fs := i
		for i < len(s) && s[i] >= '0' && s[i] <= '9' {
			i++
		}
		if i == fs {
			return false
		}
	}
	if i < len(s) && (s[i] == 'e' || s[i] == 'E') {
		i++
		if i < len(s) && (s[i] == '+' || s[i] == '-') {
			i++
		}
		es := i
		for i < len(s) && s[i] >= '0' && s[i] <= '9' {
			i++
		}
		if i == es {
			return false
		}
	}
	return i == len(s)
}

var (
	reDate     = regexp.MustCompile(`^[0-9]{4}-[0-9]{2}-[0-9]{2}$`)
	reTime     = regexp.MustCompile(`^[0-9]{2}:[0-9]{2}:[0-9]{2}$`)
	reDateTime = regexp.MustCompile(`^[0-9]{4}-[0-9]{2}-[0-9]{2}T[0-9]{2}:[0-9]{2}:[0-9]{2}(\.[0-9]+)?(Z|[+-][0-9]{2}:[0-9]{2})$`)
	reUUID     = regexp.MustCompile(`^[0-9a-f]{8}-[0-9a-f]{4}-[0-9a-f]{4}-[0-9a-f]{4}-[0-9a-f]{12}$`)
	reIPv4     = regexp.MustCompile(`^(25[0-5]|2[0-4][0-9]|1[0-9][0-9]|[1-9]?[0-9])(\.(25[0-5]|2[0-4][0-9]|1[0-9][0-9]|[1-9]?[0-9])){3}$`)
	reIPv6     = regexp.MustCompile(`^[0-9a-f:.]*:[0-9a-f:.]*(%[A-Za-z0-9]+)?$`)
	reMAC      = regexp.MustCompile(`^[0-9a-f]{2}(:[0-9a-f]{2})+$`)
	reDur      = regexp.MustCompile(`^-?(0s|([0-9]+h)?([0-9]+m)?([0-9]+(\.[0-9]+)?(s|ms|µs|ns))?)$`)
)

func re(x *regexp.Regexp) func(string) bool { return x.MatchString }

func par(n int, f func(lo, hi int)) {
	w := runtime.NumCPU()
	var wg sync.WaitGroup
	chunk := (n + w*8 - 1) / (w * 8)
	if chunk < 1 {
		chunk = 1
	}
	ch := make(chan [2]int, w*8+1)
	for i := 0; i < w; i++ {
		wg.Add(1)
		go func() {
			defer wg.Done()
			for c := range ch {
				f(c[0], c[1])
			}
		}()
	}
	for lo := 0; lo < n; lo += chunk {
		hi := lo + chunk
		if hi > n {
			hi = n
		}
		ch <- [2]int{lo, hi}
	}
	close(ch)
	wg.Wait()
}

func eqv[T comparable](a, b T) bool { return a == b }

// ---- integer domains ----

func int64Domain() []int64 {
	set := map[int64]bool{0: true, math.MaxInt64: true, math.MinInt64: true}
	for k := 0; k < 64; k++ {
		p := int64(1) << k
		for _, v := range []int64{p, p - 1, p + 1, -p, -p - 1, -p + 1} {
			set[v] = true
		}
	}
	for p := int64(1); p > 0 && p <= math.MaxInt64/10; p *= 10 {
		for _, v := range []int64{p, p - 1, p + 1, -p, -p + 1, -p - 1, 9 * p, -9 * p} {
			set[v] = true
		}
	}
	var out []int64
	for v := range set {
		out = append(out, v)
	}
	sort.Slice(out, func(i, j int) bool { return out[i] < out[j] })
	return out
}

func ints() {
	// exhaustive 8- and 16-bit
	for i := math.MinInt16; i <= math.MaxInt16; i++ {
		v := int16(i)
		one("conv.int16", v, conv.Int16ToString, conv.ToInt16, eqv[int16], isInt, nil)
		one("conv.string-int16", v, conv.StringInt16ToString, conv.ToStringInt16, eqv[int16], isInt, nil)
		one("json.string-int16", v, jsonEnc(ogenjson.EncodeStringInt16), jsonDec(ogenjson.DecodeStringInt16), eqv[int16], quoted(isInt), nil)
		u := uint16(i - math.MinInt16)
		one("conv.uint16", u, conv.Uint16ToString, conv.ToUint16, eqv[uint16], isUint, nil)
		one("conv.string-uint16", u, conv.StringUint16ToString, conv.ToStringUint16, eqv[uint16], isUint, nil)
		one("json.string-uint16", u, jsonEnc(ogenjson.EncodeStringUint16), jsonDec(ogenjson.DecodeStringUint16), eqv[uint16], quoted(isUint), nil)
	}
	perPair.add("exhaustive-16bit(6 pairs)", 6*65536)
	for i := math.MinInt8; i <= math.MaxInt8; i++ {
		v := int8(i)
		one("conv.int8", v, conv.Int8ToString, conv.ToInt8, eqv[int8], isInt, nil)
		one("conv.string-int8", v, conv.StringInt8ToString, conv.ToStringInt8, eqv[int8], isInt, nil)
		one("json.string-int8", v, jsonEnc(ogenjson.EncodeStringInt8), jsonDec(ogenjson.DecodeStringInt8), eqv[int8], quoted(isInt), nil)
		u := uint8(i - math.MinInt8)
		one("conv.uint8", u, conv.Uint8ToString, conv.ToUint8, eqv[uint8], isUint, nil)
		one("conv.string-uint8", u, conv.StringUint8ToString, conv.ToStringUint8, eqv[uint8], isUint, nil)
		one("json.string-uint8", u, jsonEnc(ogenjson.EncodeStringUint8), jsonDec(ogenjson.DecodeStringUint8), eqv[uint8], quoted(isUint), nil)
	}
	perPair.add("exhaustive-8bit(6 pairs)", 6*256)
	for _, b := range []bool{true, false} {
		one("conv.bool", b, conv.BoolToString, conv.ToBool, eqv[bool], func(s string) bool { return s == "true" || s == "false" }, nil)
	}
	r.Eval(6*65536 + 6*256 + 2)
	r.NontrivialN(6*65536 + 6*256 + 2)

	dom := int64Domain()
	var n int64
	for _, v := range dom {
		one("conv.int64", v, conv.Int64ToString, conv.ToInt64, eqv[int64], isInt, nil)
		one("conv.string-int64", v, conv.StringInt64ToString, conv.ToStringInt64, eqv[int64], isInt, nil)
		one("json.string-int64", v, jsonEnc(ogenjson.EncodeStringInt64), jsonDec(ogenjson.DecodeStringInt64), eqv[int64], quoted(isInt), nil)
		one("conv.int", int(v), conv.IntToString, conv.ToInt, eqv[int], isInt, nil)
		one("conv.string-int", int(v), conv.StringIntToString, conv.ToStringInt, eqv[int], isInt, nil)
		one("json.string-int", int(v), jsonEnc(ogenjson.EncodeStringInt), jsonDec(ogenjson.DecodeStringInt), eqv[int], quoted(isInt), nil)
		u := uint64(v)
		one("conv.uint64", u, conv.Uint64ToString, conv.ToUint64, eqv[uint64], isUint, nil)
		one("conv.string-uint64", u, conv.StringUint64ToString, conv.ToStringUint64, eqv[uint64], isUint, nil)
		one("json.string-uint64", u, jsonEnc(ogenjson.EncodeStringUint64), jsonDec(ogenjson.DecodeStringUint64), eqv[uint64], quoted(isUint), nil)
		one("conv.uint", uint(u), conv.UintToString, conv.ToUint, eqv[uint], isUint, nil)
		one("conv.string-uint", uint(u), conv.StringUintToString, conv.ToStringUint, eqv[uint], isUint, nil)
		one("json.string-uint", uint(u), jsonEnc(ogenjson.EncodeStringUint), jsonDec(ogenjson.DecodeStringUint), eqv[uint], quoted(isUint), nil)
		n += 12
		if v >= math.MinInt32 && v <= math.MaxInt32 {
			one("conv.int32", int32(v), conv.Int32ToString, conv.ToInt32, eqv[int32], isInt, nil)
			one("conv.string-int32", int32(v), conv.StringInt32ToString, conv.ToStringInt32, eqv[int32], isInt, nil)
			one("json.string-int32", int32(v), jsonEnc(ogenjson.EncodeStringInt32), jsonDec(ogenjson.DecodeStringInt32), eqv[int32], quoted(isInt), nil)
			n += 3
		}
		if v >= 0 && v <= math.MaxUint32 {
			one("conv.uint32", uint32(v), conv.Uint32ToString, conv.ToUint32, eqv[uint32], isUint, nil)
			one("conv.string-uint32", uint32(v), conv.StringUint32ToString, conv.ToStringUint32, eqv[uint32], isUint, nil)
			one("json.string-uint32", uint32(v), jsonEnc(ogenjson.EncodeStringUint32), jsonDec(ogenjson.DecodeStringUint32), eqv[uint32], quoted(isUint), nil)
			n += 3
		}
		// unix timestamps in each unit (the int64 is the timestamp)
		teq := func(a, b time.Time) bool { return a.Equal(b) }
		type up struct {
			name string
			mk   func(int64) time.Time
			cto  func(time.Time) string
			cfr  func(string) (time.Time, error)
			je   func(*jx.Encoder, time.Time)
			jd   func(*jx.Decoder) (time.Time, error)
			jse  func(*jx.Encoder, time.Time)
			jsd  func(*jx.Decoder) (time.Time, error)
		}
		for _, p := range []up{
			{"unix-seconds", func(x int64) time.Time { return time.Unix(x, 0) }, conv.UnixSecondsToString, conv.ToUnixSeconds, ogenjson.EncodeUnixSeconds, ogenjson.DecodeUnixSeconds, ogenjson.EncodeStringUnixSeconds, ogenjson.DecodeStringUnixSeconds},
			{"unix-milli", time.UnixMilli, conv.UnixMilliToString, conv.ToUnixMilli, ogenjson.EncodeUnixMilli, ogenjson.DecodeUnixMilli, ogenjson.EncodeStringUnixMilli, ogenjson.DecodeStringUnixMilli},
			{"unix-micro", time.UnixMicro, conv.UnixMicroToString, conv.ToUnixMicro, ogenjson.EncodeUnixMicro, ogenjson.DecodeUnixMicro, ogenjson.EncodeStringUnixMicro, ogenjson.DecodeStringUnixMicro},
			{"unix-nano", func(x int64) time.Time { return time.Unix(0, x) }, conv.UnixNanoToString, conv.ToUnixNano, ogenjson.EncodeUnixNano, ogenjson.DecodeUnixNano, ogenjson.EncodeStringUnixNano, ogenjson.DecodeStringUnixNano},
		} {
			t := p.mk(v)
			one("conv."+p.name, t, p.cto, p.cfr, teq, isInt, nil)
			one("json."+p.name, t, jsonEnc(p.je), jsonDec(p.jd), teq, isInt, nil)
			one("json.string-"+p.name, t, jsonEnc(p.jse), jsonDec(p.jsd), teq, quoted(isInt), nil)
			n += 3
		}
	}
	perPair.add("structured-int64-domain-values", int64(len(dom)))
	r.Eval(n)
	r.NontrivialN(n)
	r.Sample(map[string]any{"pair": "conv.int64", "value": int64(math.MinInt64), "text": conv.Int64ToString(math.MinInt64)})
}

// ---- durations ----

func durations() {
	set := map[int64]bool{}
	for _, v := range int64Domain() {
		set[v] = true
	}
	for n := int64(-10000); n <= 10000; n++ {
		set[n] = true
	}
	units := []int64{1, 1e3, 1e6, 1e9, 60e9, 3600e9}
	for _, u := range units {
		for _, k := range []int64{1, 2, 9, 10, 59, 60, 61, 99, 100, 999, 1000, 1001, 3599, 3600, 86400} {
			for _, d := range []int64{-1, 0, 1} {
				for _, s := range []int64{1, -1} {
					if k > math.MaxInt64/u {
						continue
					}
					set[s*(k*u+d)] = true
				}
			}
		}
	}
	// mixed: h m s + fraction digits
	for _, h := range []int64{0, 1, 23, 2562047} {
		for _, m := range []int64{0, 1, 59} {
			for _, s := range []int64{0, 1, 59} {
				for _, f := range []int64{0, 1, 10, 100, 1e3, 1e6, 123456789, 999999999, 500000000, 100000000} {
					v := h*3600e9 + m*60e9 + s*1e9 + f
					if v >= 0 {
						set[v] = true
						set[-v] = true
					}
				}
			}
		}
	}
	var n int64
	for v := range set {
		d := time.Duration(v)
		one("conv.duration", d, conv.DurationToString, conv.ToDuration, eqv[time.Duration], re(reDur), nil)
		one("json.duration", d, jsonEnc(ogenjson.EncodeDuration), jsonDec(ogenjson.DecodeDuration), eqv[time.Duration], quoted(re(reDur)), nil)
		// the custom formatter must produce exactly the standard library's text
		if got := jsonEnc(ogenjson.EncodeDuration)(d); got != `"`+d.String()+`"` {
			report("json.duration", "text-differs-from-time.Duration.String", fmt.Sprint(v), got, d.String(), nil, nil)
		}
		n += 2
	}
	r.Eval(n)
	r.NontrivialN(n)
	perPair.add("duration-values", int64(len(set)))
	r.Sample(map[string]any{"pair": "json.duration", "value": "-9223372036854775808ns", "text": jsonEnc(ogenjson.EncodeDuration)(math.MinInt64)})
}

// ---- floats ----

func f64one(f float64) {
	cause := func(v float64) map[string]string { return map[string]string{"cause": "float-precision"} }
	one("conv.float64", f, conv.Float64ToString, conv.ToFloat64, eqBits64, isNumber, cause)
	one("conv.string-float64", f, conv.StringFloat64ToString, conv.ToStringFloat64, eqBits64, isNumber, cause)
	one("json.string-float64", f, jsonEnc(ogenjson.EncodeStringFloat64), jsonDec(ogenjson.DecodeStringFloat64), eqBits64, quoted(isNumber), cause)
}

func f32one(f float32) {
	cause := func(v float32) map[string]string { return map[string]string{"cause": "float-precision"} }
	one("conv.float32", f, conv.Float32ToString, conv.ToFloat32, eqBits32, isNumber, cause)
	one("conv.string-float32", f, conv.StringFloat32ToString, conv.ToStringFloat32, eqBits32, isNumber, cause)
	one("json.string-float32", f, jsonEnc(ogenjson.EncodeStringFloat32), jsonDec(ogenjson.DecodeStringFloat32), eqBits32, quoted(isNumber), cause)
}

// f32fast is f32one without allocations; false = something is off (re-judged by f32one).
func f32fast(f float32, e *jx.Encoder, d *jx.Decoder) bool {
	s := conv.Float32ToString(f)
	g, err := conv.ToFloat32(s)
	if err != nil || g != f || !isNumber(s) {
		return false
	}
	s = conv.StringFloat32ToString(f)
	g, err = conv.ToStringFloat32(s)
	if err != nil || g != f || !isNumber(s) {
		return false
	}
	e.Reset()
	ogenjson.EncodeStringFloat32(e, f)
	b := e.Bytes()
	d.ResetBytes(b)
	g, err = ogenjson.DecodeStringFloat32(d)
	if err != nil || g != f || len(b) < 3 || b[0] != '"' || b[len(b)-1] != '"' || !isNumber(string(b[1:len(b)-1])) {
		return false
	}
	return true
}

// finite numbers only; -0 and +0 are the same number (the sign of zero is not a value of the format)
func eqBits64(a, b float64) bool { return a == b }
func eqBits32(a, b float32) bool { return a == b }

func floats(thorough bool) {
	var f64s []float64
	for s := uint64(0); s < 2; s++ {
		for e := uint64(0); e < 2047; e++ {
			ms := []uint64{0, 1, 1<<52 - 1, 1 << 51, 0x5555555555555, 0xAAAAAAAAAAAAA}
			step := 3
			if thorough {
				step = 1
			}
			for b := 0; b < 52; b += step {
				ms = append(ms, 1<<b, (1<<52-1)^(1<<b-1))
			}
			for _, m := range ms {
				f64s = append(f64s, math.Float64frombits(s<<63|e<<52|m&(1<<52-1)))
			}
		}
	}
	for k := -323; k <= 308; k++ {
		f := math.Pow(10, float64(k))
		f64s = append(f64s, f, math.Nextafter(f, 0), math.Nextafter(f, math.Inf(1)), 3*f, 0.1*f, -f, f/3)
	}
	f64s = append(f64s, 0.1, 0.2, 0.3, 1.0/3, 123456789.123456789, 5e-324, math.MaxFloat64, math.SmallestNonzeroFloat64, 1e21, 1e22, 1e-7, 1e-11, 0.000001, 4.35, 2.675, 1.005)
	fin := f64s[:0]
	for _, f := range f64s {
		if f == f && !math.IsInf(f, 0) {
			fin = append(fin, f)
		}
	}
	f64s = fin
	par(len(f64s), func(lo, hi int) {
		for _, f := range f64s[lo:hi] {
			f64one(f)
			if f32 := float32(f); !math.IsInf(float64(f32), 0) && !thorough {
				f32one(f32)
			}
		}
	})
	n := int64(len(f64s)) * 3
	if !thorough {
		n *= 2
	}
	r.Eval(n)
	r.NontrivialN(n / 2) // structured values repeat across signs/patterns; counted conservatively
	perPair.add("float64-structured-values", int64(len(f64s)))
	if thorough {
		// all 2^32 float32 bit patterns (NaN and Inf are not finite numbers: skipped)
		var finite int64
		var mu sync.Mutex
		par(1<<16, func(lo, hi int) {
			var cnt int64
			var e jx.Encoder
			d := jx.DecodeBytes(nil)
			for h := lo; h < hi; h++ {
				for l := 0; l < 1<<16; l++ {
					bits := uint32(h)<<16 | uint32(l)
					f := math.Float32frombits(bits)
					if f != f || math.IsInf(float64(f), 0) {
						continue
					}
					cnt++
					if !f32fast(f, &e, d) {
						f32one(f) // slow path only to report the details
					}
				}
			}
			mu.Lock()
			finite += cnt
			mu.Unlock()
		})
		r.Eval(3 * finite)
		r.NontrivialN(3 * finite)
		perPair.add("float32-all-finite-bit-patterns", finite)
	}
	r.Sample(map[string]any{"pair": "conv.float64", "value": "1e-11", "text": conv.Float64ToString(1e-11)})
	r.Sample(map[string]any{"pair": "conv.string-float32", "value": "float32(16777217)", "text": conv.StringFloat32ToString(16777216)})
}

// ---- time ----

func times(thorough bool) {
	zones := []*time.Location{time.UTC, time.FixedZone("", 5*3600+1800), time.FixedZone("", -8*3600), time.FixedZone("", 14*3600), time.FixedZone("", -12*3600), time.FixedZone("", 60), time.FixedZone("", -(23*3600 + 59*60))}
	clocks := [][3]int{{0, 0, 0}, {12, 34, 56}, {23, 59, 59}}
	teq := func(a, b time.Time) bool { return a.Equal(b) }
	sameDay := func(a, b time.Time) bool { return a.Year() == b.Year() && a.YearDay() == b.YearDay() }
	// every calendar day 0000-01-01 .. 9999-12-31
	first := time.Date(0, 1, 1, 0, 0, 0, 0, time.UTC)
	days := int(time.Date(9999, 12, 31, 0, 0, 0, 0, time.UTC).Sub(time.Date(0, 1, 1, 0, 0, 0, 0, time.UTC)).Hours()/24) + 1
	_ = first
	var n int64
	var mu sync.Mutex
	par(days, func(lo, hi int) {
		var cnt int64
		for d := lo; d < hi; d++ {
			base := time.Date(0, 1, 1+d, 0, 0, 0, 0, time.UTC)
			y, m, dd := base.Date()
			one("conv.date", base, conv.DateToString, conv.ToDate, sameDay, re(reDate), nil)
			one("json.date", base, jsonEnc(ogenjson.EncodeDate), jsonDec(ogenjson.DecodeDate), sameDay, quoted(re(reDate)), nil)
			cnt += 2
			for ci, c := range clocks {
				for zi, z := range zones {
					if !thorough && !(zi == 0 || (d+ci+zi)%7 == 0) {
						continue
					}
					t := time.Date(y, m, dd, c[0], c[1], c[2], 0, z)
					// the UTC offset may move the instant outside year 0000-9999 only through the
					// zone; the text carries local fields, which are in range by construction
					one("conv.date-time", t, conv.DateTimeToString, conv.ToDateTime, teq, re(reDateTime), nil)
					one("json.date-time", t, jsonEnc(ogenjson.EncodeDateTime), jsonDec(ogenjson.DecodeDateTime), teq, quoted(re(reDateTime)), nil)
					cnt += 2
				}
			}
		}
		mu.Lock()
		n += cnt
		mu.Unlock()
	})
	clockEq := func(a, b time.Time) bool {
		return a.Hour() == b.Hour() && a.Minute() == b.Minute() && a.Second() == b.Second()
	}
	for s := 0; s < 86400; s++ {
		t := time.Date(0, 1, 1, s/3600, s/60%60, s%60, 0, time.UTC)
		one("conv.time", t, conv.TimeToString, conv.ToTime, clockEq, re(reTime), nil)
		one("json.time", t, jsonEnc(ogenjson.EncodeTime), jsonDec(ogenjson.DecodeTime), clockEq, quoted(re(reTime)), nil)
	}
	n += 2 * 86400
	r.Eval(n)
	r.NontrivialN(n)
	perPair.add("calendar-days", int64(days))
	perPair.add("times-of-day", 86400)
	r.Sample(map[string]any{"pair": "conv.date-time", "value": "0000-02-29T23:59:59+05:30", "text": conv.DateTimeToString(time.Date(0, 2, 29, 23, 59, 59, 0, zones[1]))})
}

// ---- uuid / ip / mac / url ----

func misc(thorough bool) {
	var n int64
	for b := 0; b < 16; b++ {
		for v := 0; v < 256; v++ {
			for _, bg := range []byte{0x00, 0xff} {
				var u uuid.UUID
				for i := range u {
					u[i] = bg
				}
				u[b] = byte(v)
				one("conv.uuid", u, conv.UUIDToString, conv.ToUUID, eqv[uuid.UUID], re(reUUID), nil)
				one("json.uuid", u, jsonEnc(ogenjson.EncodeUUID), jsonDec(ogenjson.DecodeUUID), eqv[uuid.UUID], quoted(re(reUUID)), nil)
				n += 2
			}
		}
	}
	// IPv4: all first-two-octet pairs x 4 tails
	tails := [][2]byte{{0, 0}, {0, 255}, {255, 1}, {10, 100}}
	stepB := 5
	if thorough {
		stepB = 1
	}
	for a := 0; a < 256; a++ {
		for b := 0; b < 256; b += stepB {
			for _, t := range tails {
				ip := netip.AddrFrom4([4]byte{byte(a), byte(b), t[0], t[1]})
				one("conv.ipv4", ip, conv.AddrToString, conv.ToAddr, eqv[netip.Addr], re(reIPv4), nil)
				one("json.ipv4", ip, jsonEnc(ogenjson.EncodeIPv4), jsonDec(ogenjson.DecodeIPv4), eqv[netip.Addr], quoted(re(reIPv4)), nil)
				one("json.ip", ip, jsonEnc(ogenjson.EncodeIP), jsonDec(ogenjson.DecodeIP), eqv[netip.Addr], quoted(re(reIPv4)), nil)
				n += 3
			}
		}
	}
	for mask := 0; mask < 256; mask++ {
		for _, fill := range []uint16{1, 0xffff, 0x0db8, 0x00a0} {
			for _, zone := range []string{"", "eth0", "1"} {
				var raw [16]byte
				for h := 0; h < 8; h++ {
					if mask&(1<<h) != 0 {
						raw[2*h], raw[2*h+1] = byte(fill>>8), byte(fill)
					}
				}
				ip := netip.AddrFrom16(raw).WithZone(zone)
				one("conv.ipv6", ip, conv.AddrToString, conv.ToAddr, eqv[netip.Addr], re(reIPv6), nil)
				one("json.ipv6", ip, jsonEnc(ogenjson.EncodeIPv6), jsonDec(ogenjson.DecodeIPv6), eqv[netip.Addr], quoted(re(reIPv6)), nil)
				one("json.ip", ip, jsonEnc(ogenjson.EncodeIP), jsonDec(ogenjson.DecodeIP), eqv[netip.Addr], quoted(re(reIPv6)), nil)
				n += 3
			}
		}
	}
	// IPv4-mapped IPv6
	for _, a := range []byte{0, 1, 127, 255} {
		ip := netip.AddrFrom16([16]byte{10: 0xff, 11: 0xff, 12: a, 13: 0, 14: 0, 15: a})
		one("conv.ipv6", ip, conv.AddrToString, conv.ToAddr, eqv[netip.Addr], re(reIPv6), nil)
		one("json.ipv6", ip, jsonEnc(ogenjson.EncodeIPv6), jsonDec(ogenjson.DecodeIPv6), eqv[netip.Addr], quoted(re(reIPv6)), nil)
		n += 2
	}
	macEq := func(a, b net.HardwareAddr) bool { return string(a) == string(b) }
	for _, l := range []int{6, 8, 20} {
		for b := 0; b < l; b++ {
			for v := 0; v < 256; v++ {
				for _, bg := range []byte{0, 0xff} {
					m := make(net.HardwareAddr, l)
					for i := range m {
						m[i] = bg
					}
					m[b] = byte(v)
					one("conv.mac", m, conv.MACToString, conv.ToMAC, macEq, re(reMAC), nil)
					one("json.mac", m, jsonEnc(ogenjson.EncodeMAC), jsonDec(ogenjson.DecodeMAC), macEq, quoted(re(reMAC)), nil)
					n += 2
				}
			}
		}
	}
	// URLs: product of component alphabets; equality = String() fixpoint
	urlEq := func(a, b url.URL) bool { return a.String() == b.String() }
	cause := func(u url.URL) map[string]string {
		switch {
		case u.Scheme == "" && u.Host == "" && !strings.HasPrefix(u.Path, "/"):
			return map[string]string{"cause": "relative-reference-without-leading-slash"}
		case u.Fragment != "":
			return map[string]string{"cause": "url-with-fragment"}
		case u.Scheme == "":
			return map[string]string{"cause": "url-without-scheme"}
		}
		return map[string]string{"cause": "other"}
	}
	urls := 0
	for _, sch := range []string{"http", "https", "urn", ""} {
		for _, host := range []string{"example.com", "[::1]:8080", "", "u:p@h", "xn--e1afmkfd.xn--p1ai", "h:0"} {
			// paths, queries and fragments are written as text (not escaped by the harness), so that every
			// spelling a parsed URL remembers (RawPath, RawQuery, RawFragment: escapes net/url would not
			// produce itself - of characters that need none, in lower-case hex, of reserved characters)
			// has to survive the text form
			for _, path := range []string{"", "/", "/a b", "/a%2Fb", "/a%2fb", "/é", "/caf%c3%a9", "/caf%C3%A9", "/%41", "/%7Ea", "/a;b", "a/b", "/a//b/", "/~a", "/a+b", "/a%20b", "/a%3Fb%23c"} {
				for _, q := range []string{"", "a=b&c=d", "a=%20", "a=+", "a", "a=%2f&b=%41", "é=%C3%A9"} {
					for _, fr := range []string{"", "f", "a%20b", "%2541", "%41", "a%2Fb", "a%2fb", "caf%c3%a9", "caf%C3%A9", "é", "%7Ea", "~a", "a/b?c", "!$&'()*+,;=:@", "a%23b", "/components/schemas/Pet%7EName"} {
						s := ""
						if sch != "" {
							s = sch + ":"
						}
						if host != "" {
							s += "//" + host
						}
						s += path
						if q != "" {
							s += "?" + q
						}
						if fr != "" {
							s += "#" + fr
						}
						u, err := url.Parse(s)
						if err != nil {
							continue
						}
						urls++
						one("conv.url", *u, conv.URLToString, conv.ToURL, urlEq, nil, cause)
						one("json.uri", *u, jsonEnc(ogenjson.EncodeURI), jsonDec(ogenjson.DecodeURI), urlEq, nil, cause)
						n += 2
					}
				}
			}
		}
	}
	perPair.add("urls", int64(urls))
	r.Eval(n)
	r.NontrivialN(n)
	r.Sample(map[string]any{"pair": "json.ipv6", "value": "fe80::db8%eth0", "text": jsonEnc(ogenjson.EncodeIPv6)(netip.MustParseAddr("fe80::db8%eth0"))})
	r.Sample(map[string]any{"pair": "json.uri", "value": "https://u:p@h/a%2Fb?a=%20", "text": `"https://u:p@h/a%2Fb?a=%20"`})
}

func main() {
	r = vf.Start("C13", "exploration")
	if r.Replay != "" {
		fmt.Println("replay for C13 re-runs the (fast) quick enumeration; the artefact names the pair and value")
	}
	ints()
	durations()
	floats(r.Thorough())
	times(r.Thorough())
	misc(r.Thorough())
	r.Set("domain_sizes", perPair.m)
	r.Assume("values a format cannot represent are outside the domain: NaN/Inf, years outside 0000-9999, zone offsets that are not whole minutes, the zero netip.Addr, MACs of lengths other than 6/8/20",
		"equality: == for numbers (so -0 == 0), time.Equal at the format's resolution, same calendar day for date, same clock for time, String() fixpoint for URLs")
	r.Finish("every conv TToString/ToT pair and every json Encode*/Decode* pair: v -> text -> v' must give v' == v, no error, no panic, text in the format's syntax. Exhaustive: bool, all int8/uint8/int16/uint16, all 86 400 times of day, every calendar day 0000-01-01..9999-12-31 (date; date-time at 3 clock times x 7 zones, all in thorough, every 7th combination + UTC in quick), all finite float32 bit patterns (thorough). Structured: every 2^k and 10^k with neighbours for 32/64-bit integers and unix timestamps in each unit; float64 at every (sign, exponent) x mantissa patterns + 10^k neighbours; durations [-10^4,10^4] ns + unit boundaries + h/m/s/fraction products; UUID/MAC single-byte sweeps on 0x00/0xFF background; IPv4 first-two-octet pairs x 4 tails; IPv6 all 256 zero-hextet masks x 4 fills x 3 zones; URLs as product of component alphabets. Values counted once per (pair, value); all exercise the formatter and parser (non-trivial).")
}
