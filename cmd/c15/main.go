// C15 — generated servers answer every HTTP request without crashing or over-accepting.
//
// Fault enumeration: for every operation of a regenerated server one valid request (produced by
// the regenerated client) and every single fault at every position of the request (method, path,
// raw path, each parameter, security credential, content type, body truncated at every byte offset,
// read errors at every offset, JSON token retyping, trailing data, deep nesting); thorough: all pairs
// of faults from different stages. Oracle: the stage model route -> security -> params -> body ->
// handler (DESIGN.md C15).
package main

import (
	"os"
	"path/filepath"
	"strings"

	"verif/internal/regen"
	"verif/internal/vf"
)

func main() {
	r := vf.Start("C15", "fault_enumeration")
	sc := regen.NewScratch(r)
	defer sc.Close()
	spec, err := os.ReadFile(filepath.Join(r.Home, "drivers", "c15", "spec.yml"))
	if err != nil {
		vf.Fatal("%v", err)
	}
	opts := regen.Features("paths/server", "paths/client")
	opts.Generator.IgnoreNotImplemented = []string{"all"} // one security alternative names an unimplemented scheme
	if _, err := regen.Generate(spec, opts, sc.Path("api"), "api"); err != nil {
		if strings.HasPrefix(err.Error(), "PANIC") {
			r.Violation(map[string]string{"class": "generator-panic"}, 0, map[string]any{"error": err.Error()})
			r.Finish("generation panicked")
		}
		vf.Fatal("C15 spec does not generate: %v", err)
	}
	sc.CopyDriver("c15", "driver")
	sc.BuildChecked(r, "driver", "driver.bin")
	sum := sc.RunDriver(r, "driver.bin", nil)
	for k, v := range sum.Stats {
		r.Set(k, v)
	}
	r.Assume("stage model: routing faults => 404/405, security => 401, parameter decoding/validation => 400, body decoding/validation => 400 or 415, all without invoking the handler; otherwise the handler runs exactly once and its outcome decides (declared default response passed through, plain error => 500, ht.ErrNotImplemented => 501); with several faults the earliest stage decides",
		"for an optional request body a zero-length body is the valid 'no body' request even when a Content-Type is present",
		"faults classified benign (the request may still be valid, e.g. duplicated header, upper-case media type) only check consistency: 4xx => handler not invoked, success => handler invoked once",
		"requests are hand-built *http.Request values served through Server.ServeHTTP (bypassing net/http's own URL validation); a panic escaping ServeHTTP and a second WriteHeader are violations for every request")
	r.Finish("valid requests produced by the regenerated client for 4 operations / 6 request shapes (JSON with parameters in all four locations and security, form, JSON array / text / empty optional body, multipart) x every single fault: methods (5), paths (5), raw paths (malformed escapes, %2F), each query/path/header/cookie parameter (delete, duplicate, empty, wrong type, out of range, 64 KiB, invalid UTF-8, malformed escape), credential (missing, rejected), Content-Type (7), body truncated at every byte offset, read error at every byte offset, Content-Length mismatch, trailing data (5), JSON token retyping (12), duplicate/unknown member, 1e5-deep nesting, nil body; handler outcomes {ok, declared default, plain error, not implemented}. thorough: every pair of faults from different stages. non-trivial = distinct (request shape, fault or fault pair, handler outcome).")
}
