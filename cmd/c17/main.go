// C17 — document spelling does not matter: YAML, JSON and formatting variants agree.
//
// Valid half: base documents x all combinations of spelling toggles (independent serializer in
// internal/docmodel): generated files must be byte-identical across spellings. Invalid half: every
// single-fault mutant of small documents in 8 spellings: same diagnostic up to positions.
package main

import (
	"crypto/sha256"
	"encoding/json"
	"fmt"
	"os"
	"path/filepath"
	"regexp"
	"runtime"
	"runtime/debug"
	"sort"
	"strings"
	"sync"

	"github.com/ogen-go/ogen"
	"github.com/ogen-go/ogen/gen"

	"verif/internal/docmodel"
	"verif/internal/grammar"
	"verif/internal/vf"
)

type recFS struct {
	mu    sync.Mutex
	files map[string][]byte
}

func (r *recFS) WriteFile(name string, b []byte) error {
	r.mu.Lock()
	defer r.mu.Unlock()
	r.files[name] = append([]byte(nil), b...)
	return nil
}

var (
	posRe  = regexp.MustCompile(`(at )?[\w./-]*:?\d+:\d+`)
	lineRe = regexp.MustCompile(`line \d+`)
)

func normErr(s string) string {
	return lineRe.ReplaceAllString(posRe.ReplaceAllString(s, "POS"), "line N")
}

func generate(data []byte, full bool) (digest string, errText string) {
	defer func() {
		if r := recover(); r != nil {
			errText = fmt.Sprintf("PANIC %v %s", r, trunc(string(debug.Stack()), 400))
		}
	}()
	for try := 0; ; try++ {
		spec, err := ogen.Parse(data)
		if err != nil {
			return "", "parse: " + normErr(err.Error())
		}
		g, err := gen.NewGenerator(spec, gen.Options{Parser: gen.ParseOptions{InferSchemaType: true}, Generator: gen.GenerateOptions{IgnoreNotImplemented: []string{"all"}}})
		if err != nil {
			return "", normErr(err.Error())
		}
		if !full {
			return "ir-built", ""
		}
		fs := &recFS{files: map[string][]byte{}}
		if err := g.WriteSource(fs, "api"); err != nil {
			if strings.Contains(err.Error(), "exec:") && try < 3 {
				continue // goimports' subprocess timed out under load: environment, retry
			}
			return "", "write: " + err.Error()
		}
		var names []string
		for n := range fs.files {
			names = append(names, n)
		}
		sort.Strings(names)
		h := sha256.New()
		for _, n := range names {
			fmt.Fprintf(h, "%s %x\n", n, sha256.Sum256(fs.files[n]))
		}
		return fmt.Sprintf("%x", h.Sum(nil))[:16], ""
	}
}

func trunc(s string, n int) string {
	if len(s) > n {
		return s[:n] + "..."
	}
	return s
}

const yaml11Spec = `{"openapi":"3.0.3","info":{"title":"t","version":"1"},"paths":{"/a":{"get":{"operationId":"a",
 "parameters":[{"name":"q","in":"query","schema":{"type":"string","enum":["x","y","no"],"default":"yes"}}],"responses":{"200":{"description":"on"}}}}}}`

type kase struct {
	Document string   `json:"document"`
	Mutation string   `json:"mutation,omitempty"`
	Groups   []string `json:"distinct_outcomes"`
	Example  string   `json:"one_spelling_of_the_minority,omitempty"`
}

func main() {
	r := vf.Start("C17", "exploration")
	type base struct {
		name string
		doc  *docmodel.Node
		orig []byte
	}
	var bases []base
	add := func(name string, data []byte) {
		d, err := docmodel.Parse(data)
		if err != nil {
			vf.Fatal("base document %s does not parse: %v", name, err)
		}
		bases = append(bases, base{name, d, data})
	}
	add("custom-unmarshalers", []byte(grammar.CustomSpec))
	add("repeated-inline-constructs", []byte(grammar.RepeatsSpec))
	// members whose order in the document is not the alphabetical one and matters to nobody (schemes of
	// one security requirement, scopes, response headers, media types, server variables, mapping
	// entries ...): a one-line spelling and a multi-line spelling put them at the same / at different
	// lines, an alias gives them no position at all
	add("order-sensitive-shapes", []byte(grammar.ShapesSpec))
	add("path-item-parameters", []byte(grammar.PathItemsSpec))
	// strings with line breaks (pattern, description, default, enum members, example) in every
	// chomping situation: no, one and two trailing line breaks, several lines
	add("multi-line-strings", []byte(`{"openapi":"3.0.3","info":{"title":"t","version":"1","description":"first line\nsecond line\n"},"paths":{
 "/a":{"post":{"operationId":"a","description":"one\n\nthree","parameters":[{"name":"q","in":"query","schema":{"type":"string","pattern":"^a$\n","default":"x\ny"}},{"name":"e","in":"query","schema":{"type":"string","enum":["a\n","b","c\n\n"]}}],
  "requestBody":{"content":{"application/json":{"schema":{"$ref":"#/components/schemas/S"},"example":{"t":"l1\nl2\n"}}}},"responses":{"200":{"description":"ok\n"}}}}},
 "components":{"schemas":{"S":{"type":"object","description":"desc\n","properties":{"t":{"type":"string","pattern":"^b\n$","default":"d\n"},"u":{"type":"string","enum":["x\ny","z"],"default":"z"}}}}}}`))
	// references that walk the raw document (deeper than a component, so they are resolved by JSON
	// pointer over the node tree) through keys that look like numbers, booleans, null and dates
	add("deep-pointer-references", []byte(`{"openapi":"3.0.3","info":{"title":"t","version":"1"},"paths":{
 "/pets":{"get":{"operationId":"listPets","responses":{"200":{"description":"ok","content":{"application/json":{"schema":{"type":"array","items":{"type":"object","properties":{"1e3":{"type":"string","maxLength":3},"true":{"type":"integer"},"null":{"type":"boolean"},"2020-01-01":{"type":"number"},"01":{"type":"string","format":"uuid"}}}}}}},"404":{"description":"nf","content":{"application/json":{"schema":{"$ref":"#/paths/~1pets/get/responses/200/content/application~1json/schema/items"}}}}}},
  "post":{"operationId":"addPet","requestBody":{"content":{"application/json":{"schema":{"$ref":"#/paths/~1pets/get/responses/200/content/application~1json/schema/items/properties/1e3"}}}},
   "responses":{"200":{"description":"ok","content":{"application/json":{"schema":{"type":"object","properties":{"a":{"$ref":"#/paths/~1pets/get/responses/200/content/application~1json/schema/items/properties/true"},"b":{"$ref":"#/paths/~1pets/get/responses/200/content/application~1json/schema/items/properties/null"},"c":{"$ref":"#/paths/~1pets/get/responses/200/content/application~1json/schema/items/properties/2020-01-01"},"d":{"$ref":"#/paths/~1pets/get/responses/200/content/application~1json/schema/items/properties/01"},"e":{"$ref":"#/components/schemas/Codes/properties/200"}}}}}},
    "default":{"$ref":"#/paths/~1pets/get/responses/404"}}}}},
 "components":{"schemas":{"Codes":{"type":"object","properties":{"200":{"type":"string","minLength":2},"4.5":{"type":"integer"}}}}}}`))
	{
		schemas, _, comps := grammar.Schemas(false)
		paths := map[string]any{}
		for i, s := range schemas {
			if i%3 != 0 {
				continue
			}
			paths[fmt.Sprintf("/b%d", i)] = map[string]any{"post": map[string]any{"operationId": fmt.Sprintf("op%d", i), "requestBody": map[string]any{"required": true, "content": map[string]any{"application/json": map[string]any{"schema": s}}}, "responses": map[string]any{"200": map[string]any{"description": "ok"}}}}
		}
		b, _ := json.Marshal(map[string]any{"openapi": "3.0.3", "info": map[string]any{"title": "t", "version": "1"}, "paths": paths, "components": map[string]any{"schemas": comps}})
		add("schema-grammar", b)
	}
	corpus := []string{"_testdata/positive/sample.json", "_testdata/positive/allOf.yml", "_testdata/positive/anyOf.json", "_testdata/positive/parameters.json", "_testdata/positive/security.json", "_testdata/positive/webhooks.json", "_testdata/positive/form.json", "_testdata/positive/http_responses.json", "_testdata/positive/additionalPropertiesPatternProperties.yml", "_testdata/examples/petstore-expanded.yml"}
	if r.Thorough() {
		_ = filepath.Walk(filepath.Join(r.Repo, "_testdata/positive"), func(p string, info os.FileInfo, err error) error {
			if err == nil && !info.IsDir() && info.Size() > 0 && info.Size() < 64<<10 && !strings.Contains(p, "file_reference") {
				rel, _ := filepath.Rel(r.Repo, p)
				for _, c := range corpus {
					if c == rel {
						return nil
					}
				}
				corpus = append(corpus, rel)
			}
			return nil
		})
		corpus = append(corpus, "_testdata/examples/2ch.yml", "_testdata/examples/ent.json", "_testdata/examples/manga.json", "_testdata/examples/petstore.yml", "_testdata/examples/oauth2-scopes-and-or.yml", "_testdata/examples/techempower.json")
	}
	for _, c := range corpus {
		data, err := os.ReadFile(filepath.Join(r.Repo, c))
		if err != nil {
			continue
		}
		add(c, data)
	}
	styles := docmodel.AllStyles()
	type job struct {
		bi, si int
	}
	outcomes := make([]map[string][]int, len(bases))
	for i := range outcomes {
		outcomes[i] = map[string][]int{}
	}
	var mu sync.Mutex
	jobs := make(chan job, 1024)
	var wg sync.WaitGroup
	for w := 0; w < runtime.NumCPU(); w++ {
		wg.Add(1)
		go func() {
			defer wg.Done()
			for j := range jobs {
				text := styles[j.si].Emit(bases[j.bi].doc.Clone())
				d, e := generate([]byte(text), true)
				mu.Lock()
				outcomes[j.bi][d+"|"+e] = append(outcomes[j.bi][d+"|"+e], j.si)
				mu.Unlock()
				r.Eval(1)
			}
		}()
	}
	for bi := range bases {
		for si := range styles {
			jobs <- job{bi, si}
		}
	}
	close(jobs)
	wg.Wait()
	sameAsOriginal := 0
	for bi, b := range bases {
		od, oe := generate(b.orig, true)
		if len(outcomes[bi]) == 1 {
			for k := range outcomes[bi] {
				if k == od+"|"+oe {
					sameAsOriginal++
				}
				if strings.HasPrefix(k, "|") {
					// all spellings agree on a failure: the base is useless as a valid document
					vf.Fatal("base document %s does not generate: %s", b.name, trunc(k, 400))
				}
			}
			r.Nontrivial(b.name)
			continue
		}
		var groups []string
		minority := ""
		minN := 1 << 30
		for k, sis := range outcomes[bi] {
			groups = append(groups, fmt.Sprintf("%d spellings (e.g. %s): %s", len(sis), styles[sis[0]], trunc(k, 300)))
			if len(sis) < minN {
				minN, minority = len(sis), styles[sis[0]].Emit(b.doc.Clone())
			}
		}
		sort.Strings(groups)
		r.Violation(map[string]string{"class": "generated-code-depends-on-spelling/" + b.name, "document": b.name}, len(b.orig), kase{Document: b.name, Groups: groups, Example: trunc(minority, 3000)})
	}

	// ----- YAML 1.1 re-resolution (clearly labelled sub-run): strings spelled plain whenever ogen's own front end reads them as strings
	{
		d, _ := docmodel.Parse([]byte(yaml11Spec))
		ref, refErr := generate([]byte(docmodel.Style{Format: "json"}.Emit(d.Clone())), true)
		plain := docmodel.Style{Format: "block", Quote: "plain", Indent: 2, PlainYAML11: true}
		got, gotErr := generate([]byte(plain.Emit(d.Clone())), true)
		r.Eval(2)
		if ref+"|"+refErr != got+"|"+gotErr {
			r.Violation(map[string]string{"class": "yaml-1.1-plain-scalar-re-resolved", "cause": "yaml-1.1-plain-scalar-in-raw-value"}, 1,
				kase{Document: "enum [x, y, no] / default yes / description on, spelled as plain YAML scalars", Groups: []string{"JSON spelling: " + ref + "|" + trunc(refErr, 200), "plain YAML spelling: " + got + "|" + trunc(gotErr, 300)}, Example: plain.Emit(d.Clone())})
		}
	}

	// ----- invalid half
	few := docmodel.FewStyles()
	invBases := []base{bases[0]}
	for _, b := range bases {
		if strings.HasSuffix(b.name, "security.json") || strings.HasSuffix(b.name, "parameters.json") || (r.Thorough() && strings.HasSuffix(b.name, "allOf.yml")) {
			invBases = append(invBases, b)
		}
	}
	type mjob struct {
		b    base
		si   int
		mut  docmodel.Mutation
		path string
	}
	var mjobs []mjob
	muts := docmodel.Mutations(r.Thorough())
	for _, b := range invBases {
		var ss []docmodel.Site
		docmodel.Sites(b.doc, "", &ss)
		for si := range ss {
			for _, m := range muts {
				if m.Name == "deep-nesting-1000" || m.Name == "duplicate-sibling-key" {
					continue // duplicate keys / huge documents are spelled alike; C11 drives them
				}
				mjobs = append(mjobs, mjob{b, si, m, ss[si].Path})
			}
		}
	}
	var failing, runDependent int64
	mch := make(chan mjob, 1024)
	for w := 0; w < runtime.NumCPU(); w++ {
		wg.Add(1)
		go func() {
			defer wg.Done()
			for j := range mch {
				d := j.b.doc.Clone()
				var ss []docmodel.Site
				docmodel.Sites(d, "", &ss)
				if !j.mut.Apply(ss[j.si]) {
					continue
				}
				out := map[string][]int{}
				for si, st := range few {
					dg, e := generate([]byte(st.Emit(d.Clone())), false)
					out[dg+"|"+e] = append(out[dg+"|"+e], si)
				}
				r.Eval(int64(len(few)))
				anyErr := false
				for k, sis := range out {
					if !strings.HasSuffix(k, "|") {
						anyErr = true
					}
					if strings.Contains(k, "|PANIC") {
						r.Violation(map[string]string{"class": "panic-on-invalid-document/" + j.mut.Name, "mutation": j.mut.Name}, len(j.path),
							kase{Document: j.b.name, Mutation: j.mut.Name + " at " + j.path, Groups: []string{trunc(k, 1500)}, Example: trunc(few[sis[0]].Emit(d.Clone()), 3000)})
					}
				}
				if anyErr {
					mu.Lock()
					failing++
					mu.Unlock()
					r.Nontrivial(j.b.name + j.path + j.mut.Name)
				}
				panicked := false
				for k := range out {
					if strings.Contains(k, "|PANIC") {
						panicked = true
					}
				}
				if len(out) <= 1 || panicked {
					continue
				}
				// is it the spelling, or does one spelling give different texts from run to run?
				stable := true
				for _, sis := range out {
					st := few[sis[0]]
					seen := map[string]bool{}
					for k := 0; k < 6; k++ {
						a, e := generate([]byte(st.Emit(d.Clone())), false)
						seen[a+"|"+e] = true
					}
					if len(seen) > 1 {
						stable = false
						var texts []string
						for t := range seen {
							texts = append(texts, trunc(t, 500))
						}
						sort.Strings(texts)
						r.Set("run_dependent_example", map[string]any{"document": j.b.name, "mutation": j.mut.Name + " at " + j.path, "spelling": st.String(), "texts": texts})
					}
				}
				if !stable {
					mu.Lock()
					runDependent++
					mu.Unlock()
					continue // non-determinism between runs of one spelling is C10's subject
				}
				var groups []string
				yamlLevel := false
				for k, sis := range out {
					groups = append(groups, fmt.Sprintf("%d spellings (e.g. %s): %s", len(sis), few[sis[0]], trunc(k, 400)))
					if strings.Contains(k, "yaml:") {
						yamlLevel = true
					}
				}
				sort.Strings(groups)
				cl := "diagnostic-depends-on-spelling"
				if yamlLevel {
					cl = "yaml-level-diagnostic-depends-on-spelling"
				}
				r.Violation(map[string]string{"class": cl + "/" + j.mut.Name, "mutation": j.mut.Name}, len(j.path), kase{Document: j.b.name, Mutation: j.mut.Name + " at " + j.path, Groups: groups})
			}
		}()
	}
	for _, j := range mjobs {
		mch <- j
	}
	close(mch)
	wg.Wait()
	r.Set("base_documents", len(bases))
	r.Set("spellings", len(styles))
	r.Set("bases_whose_output_equals_the_original_file's", sameAsOriginal)
	r.Set("invalid_mutants", len(mjobs))
	r.Set("invalid_mutants_failing", failing)
	r.Set("invalid_mutants_with_run_dependent_diagnostics_left_to_C10", runDependent)
	r.Sample(map[string]any{"document": bases[0].name, "spelling": styles[40].String(), "text_head": trunc(styles[40].Emit(bases[0].doc.Clone()), 400)})
	r.Sample(map[string]any{"document": bases[0].name, "spelling": styles[len(styles)-1].String(), "text_head": trunc(styles[len(styles)-1].Emit(bases[0].doc.Clone()), 400)})
	r.Assume("the serializer in internal/docmodel is independent of the YAML library on the output side; key order is always preserved; 'plain' means plain when the scalar is a string under YAML 1.1 and 1.2 alike (words like y/yes/on are always quoted in the main run)",
		"diagnostics are compared after replacing file:line:col and `line N` by placeholders",
		"a mutant whose diagnostic differs between runs of the same spelling is counted and left to C10 (determinism), not alarmed here")
	r.Finish(fmt.Sprintf("valid half: %d base documents (a custom-unmarshaler document with raw numbers 1.0 / 1e3 / 2^64-1 / -0, enums and defaults of every JSON type, additionalProperties in all forms, patternProperties, x-ogen-* extensions, examples; a third of the schema grammar; corpus specs) x %d spellings = all combinations of {JSON compact, JSON indented, YAML block, YAML flow} x quoting {plain-when-safe, single, double} x quoted keys x comments and blank lines x indent 2/4 x document marker, + anchors/aliases for repeated subtrees: generated files must be byte-identical. invalid half: every single-fault mutant (15 mutation kinds at every node) of 3-4 documents in 8 spellings: same diagnostic up to positions. YAML 1.1 sub-run: y / yes / no / on spelled plain. distinct non-trivial = base document whose spellings were all generated, or failing mutant.", len(bases), len(styles)))
}
