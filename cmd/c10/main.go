// C10 — generation is deterministic and free of data races.
//
// Built with two seams applied to the tree under check at build time (go build -overlay, /repo is
// untouched): the map-iteration seam (every range over a map in the generator packages asks the
// harness for the order) and the scheduler shim in gen/write.go (bufPool, errgroup). Four
// exhaustive enumerations, each executed in worker subprocesses of this binary:
//
//  1. map orders   - Parse -> NewGenerator -> WriteSource with 0 deviations, with every single
//     deviation (each dynamic range execution x each alternative order), with every
//     global order; thorough: all pairs of deviations on the small program. Files
//     and diagnostics must be byte-identical to the 0-deviation run.
//  2. schedules    - WriteSource under the controlled scheduler: every interleaving of the template
//     tasks at pool / errgroup / WriteFile points up to a preemption bound, for
//     errgroup limits 2, 3 and 24. Bytes per file identical to the sequential run.
//  3. IR immutable - deep hash of the whole *gen.Generator before and after WriteSource (this is
//     what licenses treating a template task as one step in 2).
//  4. histories    - every sequence of <= 3 generations over 6 programs in one process: each equals
//     the fresh-process output.
//
// Plus the free-running pass of the same bodies under -race (sampling, reported separately).
package main

import (
	"regexp"
	"bufio"
	"bytes"
	"crypto/sha256"
	"encoding/json"
	"fmt"
	"hash/fnv"
	"io"
	"os"
	"os/exec"
	"path/filepath"
	"reflect"
	"runtime"
	"runtime/debug"
	"sort"
	"strings"
	"sync"
	"time"
	"unsafe"

	vs "verifsched"

	"github.com/ogen-go/ogen"
	"github.com/ogen-go/ogen/gen"
	"github.com/ogen-go/ogen/verifrt"

	"verif/internal/docmodel"
	"verif/internal/grammar"
	"verif/internal/vf"
)

// ---------- programs ----------

type program struct {
	Name string
	Spec []byte
	Opts func() gen.Options
}

func allFeatures() gen.Options {
	var o gen.Options
	fs := gen.FeatureSet{}
	for _, f := range gen.AllFeatures {
		fs[f.Name] = struct{}{}
	}
	o.Generator.Features = &gen.FeatureOptions{DisableAll: true, Enable: fs}
	o.Parser.InferSchemaType = true
	o.Generator.IgnoreNotImplemented = []string{"all"}
	return o
}

func defaultFeatures() gen.Options {
	var o gen.Options
	o.Parser.InferSchemaType = true
	o.Generator.IgnoreNotImplemented = []string{"all"}
	return o
}

func programs(repo, home string) []program {
	read := func(p string) []byte {
		b, err := os.ReadFile(p)
		if err != nil {
			vf.Fatal("%v", err)
		}
		return b
	}
	sweep := read(filepath.Join(home, "cmd", "c02", "specs", "sweep2.yml"))
	ps := []program{
		{"feature-rich spec / all features", sweep, allFeatures},
		{"feature-rich spec / default features", sweep, defaultFeatures},
		{"custom-unmarshaler spec / all features", []byte(grammar.CustomSpec), allFeatures},
		{"custom-unmarshaler spec / default features", []byte(grammar.CustomSpec), defaultFeatures},
	}
	// a tiny program with few template tasks: its schedule space can be explored completely
	tiny := []byte(`{"openapi":"3.0.3","info":{"title":"t","version":"1"},"paths":{"/a/{id}":{"post":{"operationId":"a","parameters":[{"name":"id","in":"path","required":true,"schema":{"type":"integer","minimum":1}}],"requestBody":{"required":true,"content":{"application/json":{"schema":{"$ref":"#/components/schemas/V"}}}},"responses":{"200":{"description":"ok","content":{"application/json":{"schema":{"$ref":"#/components/schemas/V"}}}}}}}},"components":{"schemas":{"V":{"type":"object","required":["s"],"properties":{"s":{"type":"string","pattern":"^a"},"n":{"type":"number","default":1.5}}}}}}`)
	clientOnly := func() gen.Options {
		var o gen.Options
		o.Generator.Features = &gen.FeatureOptions{DisableAll: true, Enable: gen.FeatureSet{"paths/client": {}}}
		return o
	}
	ps = append(ps, program{"tiny spec / client only", tiny, clientOnly})
	// reference cycles of every shape: any memoised or guarded graph walk answers differently
	// depending on which member of a cycle is asked first (map order, template task order)
	cycles := []byte(grammar.CyclesSpec)
	ps = append(ps, program{"reference cycles / all features", cycles, allFeatures})
	ps = append(ps, program{"order-sensitive shapes / all features", []byte(shapesSpec), allFeatures})
	for _, f := range []string{"_testdata/positive/sample.json", "_testdata/examples/petstore-expanded.yml", "_testdata/positive/allOf.yml", "_testdata/positive/security.json", "_testdata/positive/webhooks.json", "_testdata/positive/http_responses.json", "_testdata/positive/parameters.json", "_testdata/positive/anyOf.json"} {
		ps = append(ps, program{f + " / all features", read(filepath.Join(repo, f)), allFeatures})
	}
	return ps
}

// shapesSpec collects constructs whose processing ranges over a map and combines the entries
// (an entry's treatment depends on what was seen before it): masked and plain media types in one
// response, one oauth2 scheme in several alternatives with overlapping scopes, several response
// headers, discriminator mappings, pattern properties, x- extensions, server variables, several
// webhooks, parameters with content, allOf merges.
const shapesSpec = grammar.ShapesSpec

// invalid documents: single-fault mutants of two documents (a deterministic subset)
type invalidDoc struct {
	Name string
	Text []byte
}

func invalidDocs(repo string) []invalidDoc {
	var out []invalidDoc
	bases := map[string][]byte{"custom-unmarshaler spec": []byte(grammar.CustomSpec), "order-sensitive shapes": []byte(shapesSpec)}
	for _, f := range []string{"_testdata/positive/allOf.yml", "_testdata/positive/form.json", "_testdata/positive/security.json"} {
		if b, err := os.ReadFile(filepath.Join(repo, f)); err == nil {
			bases[f] = b
		}
	}
	names := make([]string, 0, len(bases))
	for n := range bases {
		names = append(names, n)
	}
	sort.Strings(names)
	muts := docmodel.Mutations(false)
	st := docmodel.Style{Format: "jsonind"}
	for _, n := range names {
		d, err := docmodel.Parse(bases[n])
		if err != nil {
			continue
		}
		var ss []docmodel.Site
		docmodel.Sites(d, "", &ss)
		for si := range ss {
			for mi, m := range muts {
				if m.Name != "null" && m.Name != "empty-map" && m.Name != "retype-string" && m.Name != "delete" && m.Name != "dangling-ref" {
					continue
				}
				c := d.Clone()
				var s2 []docmodel.Site
				docmodel.Sites(c, "", &s2)
				if !m.Apply(s2[si]) {
					continue
				}
				out = append(out, invalidDoc{fmt.Sprintf("%s: %s at %s", n, muts[mi].Name, ss[si].Path), []byte(st.Emit(c))})
			}
		}
		// the same fault on two sibling members of one mapping: which of the two a diagnostic names
		// must not depend on the order a map happens to be walked in
		for si := range ss {
			p := ss[si].Parent
			if p.Kind != 'm' || ss[si].Idx != 0 || len(p.Vals) < 2 {
				continue
			}
			// the sites of the first and of the last member of this mapping
			var last int = -1
			for sj := range ss {
				if ss[sj].Parent == p && ss[sj].Idx == len(p.Vals)-1 {
					last = sj
				}
			}
			if last < 0 {
				continue
			}
			// both names made invalid (a blank and a '!' are refused for component names, parameter
			// locations, codes, extension names ...)
			{
				c := d.Clone()
				var s2 []docmodel.Site
				docmodel.Sites(c, "", &s2)
				cp := s2[si].Parent
				cp.Keys[0] += " !"
				cp.Keys[len(cp.Keys)-1] += " !"
				out = append(out, invalidDoc{fmt.Sprintf("%s: names made invalid at %s and at %s", n, ss[si].Path, ss[last].Path), []byte(st.Emit(c))})
			}
			for mi, m := range muts {
				if m.Name != "null" && m.Name != "retype-string" && m.Name != "dangling-ref" && m.Name != "retype-int" {
					continue
				}
				c := d.Clone()
				var s2 []docmodel.Site
				docmodel.Sites(c, "", &s2)
				if !m.Apply(s2[si]) {
					continue
				}
				// sites after the first mutation may have shifted (a subtree was replaced): find the last member again by path
				var s3 []docmodel.Site
				docmodel.Sites(c, "", &s3)
				done := false
				for _, x := range s3 {
					if x.Path == ss[last].Path {
						done = m.Apply(x)
						break
					}
				}
				if !done {
					continue
				}
				out = append(out, invalidDoc{fmt.Sprintf("%s: %s at %s and at %s", n, muts[mi].Name, ss[si].Path, ss[last].Path), []byte(st.Emit(c))})
			}
		}
	}
	return out
}

// ---------- one generation ----------

type recFS struct {
	mu    sync.Mutex
	files map[string][]byte
	order []string
}

func (r *recFS) WriteFile(name string, b []byte) error {
	vs.Point("fs.WriteFile")
	r.mu.Lock()
	defer r.mu.Unlock()
	r.files[name] = append([]byte(nil), b...)
	r.order = append(r.order, name)
	return nil
}

func (r *recFS) digest() string {
	var names []string
	for n := range r.files {
		names = append(names, n)
	}
	sort.Strings(names)
	h := sha256.New()
	for _, n := range names {
		fmt.Fprintf(h, "%s %x\n", n, sha256.Sum256(r.files[n]))
	}
	return fmt.Sprintf("%x", h.Sum(nil))[:16]
}

type genResult struct {
	Digest string            `json:"digest,omitempty"`
	Err    string            `json:"error,omitempty"`
	Ranges int64             `json:"ranges"`
	Files  map[string]string `json:"files,omitempty"` // per-file digests (only when asked)
	Flake  bool              `json:"env_flake,omitempty"`
}

var panicNoise = regexp.MustCompile(`0x[0-9a-f]+\??|goroutine \d+|\+0x[0-9a-f]+|\(([^()]*, )*[^()]*\)`)

func generate(spec []byte, opts gen.Options, full, perFile bool) (res genResult) {
	defer func() {
		res.Ranges = verifrt.Calls()
		if r := recover(); r != nil {
			// addresses and goroutine ids differ between runs: keep the frames only
			res.Err = fmt.Sprintf("PANIC %v %s", r, firstN(panicNoise.ReplaceAllString(string(debug.Stack()), ""), 600))
		}
	}()
	verifrt.Reset()
	s, err := ogen.Parse(spec)
	if err != nil {
		res.Err = "parse: " + err.Error()
		return
	}
	g, err := gen.NewGenerator(s, opts)
	if err != nil {
		res.Err = err.Error()
		return
	}
	if !full {
		res.Digest = "ir-built"
		return
	}
	fs := &recFS{files: map[string][]byte{}}
	if err := g.WriteSource(fs, "api"); err != nil {
		res.Err = "write: " + err.Error()
		res.Flake = strings.Contains(err.Error(), "exec:")
		return
	}
	res.Digest = fs.digest()
	if perFile {
		res.Files = map[string]string{}
		for n, b := range fs.files {
			res.Files[n] = fmt.Sprintf("%x", sha256.Sum256(b))[:12]
		}
	}
	return
}

func firstN(s string, n int) string {
	if len(s) > n {
		return s[:n]
	}
	return s
}

// ---------- deep hash of the generator (identity-aware, same process only) ----------

type hasher struct {
	h    io.Writer
	seen map[uintptr]bool
	n    int
}

func (hs *hasher) walk(v reflect.Value, depth int) {
	hs.n++
	if depth > 200 || !v.IsValid() {
		return
	}
	t := v.Type()
	tn := t.String()
	// concurrency-safe or irrelevant std types are opaque: identity only
	for _, opaque := range []string{"regexp.Regexp", "zap.", "zapcore.", "sync.", "atomic.", "reflect.", "template.", "big.", "time.Location", "yaml.Node", "location.File", "location.Locator", "location.Pointer", "location.Position", "url.URL"} {
		if strings.Contains(tn, opaque) {
			if v.Kind() == reflect.Pointer {
				fmt.Fprintf(hs.h, "<%s@%x>", tn, v.Pointer())
			} else {
				fmt.Fprintf(hs.h, "<%s>", tn)
			}
			return
		}
	}
	switch v.Kind() {
	case reflect.Pointer:
		if v.IsNil() {
			fmt.Fprint(hs.h, "nil;")
			return
		}
		p := v.Pointer()
		fmt.Fprintf(hs.h, "*%x;", p) // objects do not move: the address is the identity
		if hs.seen[p] {
			return
		}
		hs.seen[p] = true
		hs.walk(v.Elem(), depth+1)
	case reflect.Interface:
		if v.IsNil() {
			fmt.Fprint(hs.h, "nil;")
			return
		}
		e := v.Elem()
		fmt.Fprintf(hs.h, "i:%s;", e.Type())
		if !e.CanAddr() {
			ne := reflect.New(e.Type()).Elem()
			ne.Set(e)
			e = ne
		}
		hs.walk(e, depth+1)
	case reflect.Struct:
		fmt.Fprintf(hs.h, "%s{", tn)
		for i := 0; i < v.NumField(); i++ {
			f := v.Field(i)
			if !f.CanInterface() {
				if !f.CanAddr() {
					nv := reflect.New(t).Elem()
					// unexported fields of a non-addressable struct: copy the whole struct bytes
					reflect.NewAt(t, unsafe.Pointer(nv.UnsafeAddr())).Elem().Set(v)
					f = nv.Field(i)
				}
				f = reflect.NewAt(f.Type(), unsafe.Pointer(f.UnsafeAddr())).Elem()
			}
			fmt.Fprintf(hs.h, "%s:", t.Field(i).Name)
			hs.walk(f, depth+1)
			fmt.Fprint(hs.h, ",")
		}
		fmt.Fprint(hs.h, "}")
	case reflect.Slice:
		if v.IsNil() {
			fmt.Fprint(hs.h, "nilslice;")
			return
		}
		fmt.Fprintf(hs.h, "[%d@%x:", v.Len(), v.Pointer())
		for i := 0; i < v.Len(); i++ {
			hs.walk(v.Index(i), depth+1)
			fmt.Fprint(hs.h, ",")
		}
		fmt.Fprint(hs.h, "]")
	case reflect.Array:
		for i := 0; i < v.Len(); i++ {
			hs.walk(v.Index(i), depth+1)
		}
	case reflect.Map:
		if v.IsNil() {
			fmt.Fprint(hs.h, "nilmap;")
			return
		}
		keys := v.MapKeys()
		ks := make([]string, len(keys))
		for i, k := range keys {
			switch k.Kind() {
			case reflect.Pointer:
				ks[i] = fmt.Sprintf("%020x", k.Pointer())
			default:
				ks[i] = fmt.Sprintf("%v", k)
			}
		}
		idx := make([]int, len(keys))
		for i := range idx {
			idx[i] = i
		}
		sort.Slice(idx, func(a, b int) bool { return ks[idx[a]] < ks[idx[b]] })
		fmt.Fprintf(hs.h, "map[%d]{", len(keys))
		for _, i := range idx {
			fmt.Fprintf(hs.h, "%s=>", ks[i])
			mv := v.MapIndex(keys[i])
			nv := reflect.New(mv.Type()).Elem()
			nv.Set(mv)
			hs.walk(nv, depth+1)
			fmt.Fprint(hs.h, ";")
		}
		fmt.Fprint(hs.h, "}")
	case reflect.Func, reflect.Chan, reflect.UnsafePointer:
		fmt.Fprintf(hs.h, "<%s>", v.Kind())
	default:
		if v.CanInterface() {
			fmt.Fprintf(hs.h, "%v;", v.Interface())
		} else {
			switch v.Kind() {
			case reflect.String:
				fmt.Fprintf(hs.h, "%q;", v.String())
			case reflect.Bool:
				fmt.Fprintf(hs.h, "%v;", v.Bool())
			case reflect.Int, reflect.Int8, reflect.Int16, reflect.Int32, reflect.Int64:
				fmt.Fprintf(hs.h, "%d;", v.Int())
			case reflect.Uint, reflect.Uint8, reflect.Uint16, reflect.Uint32, reflect.Uint64, reflect.Uintptr:
				fmt.Fprintf(hs.h, "%d;", v.Uint())
			case reflect.Float32, reflect.Float64:
				fmt.Fprintf(hs.h, "%v;", v.Float())
			default:
				fmt.Fprintf(hs.h, "?%s;", v.Kind())
			}
		}
	}
}

func deepHash(g *gen.Generator) (string, int) {
	h := fnv.New128a()
	hs := &hasher{h: h, seen: map[uintptr]bool{}}
	hs.walk(reflect.ValueOf(g), 0)
	return fmt.Sprintf("%x", h.Sum(nil)), hs.n
}

// ---------- worker ----------

type job struct {
	Kind    string `json:"kind"` // gen, invalid, seq, hash, sched, race
	Prog    int    `json:"prog"`
	Order   string `json:"order"`
	DevK    int64  `json:"dev_k"`
	DevK2   int64  `json:"dev_k2"`
	DevMode string `json:"dev_mode"`
	Seq     []int  `json:"seq,omitempty"`
	Limit   int    `json:"limit,omitempty"`
	Bound   int    `json:"bound,omitempty"`
	MaxRuns int    `json:"max_runs,omitempty"`
	Inv     int    `json:"invalid_index,omitempty"`
	PerFile bool   `json:"per_file,omitempty"`
}

type jobResult struct {
	Gen    genResult   `json:"gen"`
	Seq    []genResult `json:"seq,omitempty"`
	Hash   []string    `json:"hash,omitempty"` // before, before-again, after
	Nodes  int         `json:"nodes,omitempty"`
	Sched  *schedRes   `json:"sched,omitempty"`
	Crash  string      `json:"crash,omitempty"`
	Millis int64       `json:"ms"`
}

type schedRes struct {
	Runs, States, Transitions, Points, Threads int
	Capped                                     bool
	Outcomes                                   int
	Violations                                 []vs.Violation
	NonDet                                     string
	RefDigest                                  string
}

func worker() {
	repo, home := os.Getenv("VERIF_REPO"), os.Getenv("VERIF_HOME")
	if repo == "" {
		repo = "/repo"
	}
	if home == "" {
		home = "/verif"
	}
	ps := programs(repo, home)
	var inv []invalidDoc
	in := bufio.NewReaderSize(os.Stdin, 1<<20)
	out := json.NewEncoder(os.Stdout)
	for {
		line, err := in.ReadBytes('\n')
		if len(line) > 1 {
			var j job
			if e := json.Unmarshal(line, &j); e != nil {
				os.Exit(4)
			}
			start := time.Now()
			var res jobResult
			verifrt.SetOrder("asc")
			verifrt.SetDeviation(-1, -1, "")
			switch j.Kind {
			case "gen":
				if j.Order != "" {
					verifrt.SetOrder(j.Order)
				}
				verifrt.SetDeviation(j.DevK, j.DevK2, j.DevMode)
				for try := 0; try < 4; try++ {
					res.Gen = generate(ps[j.Prog].Spec, ps[j.Prog].Opts(), true, j.PerFile)
					if !res.Gen.Flake {
						break
					}
				}
			case "invalid":
				if inv == nil {
					inv = invalidDocs(repo)
				}
				if j.Order != "" {
					verifrt.SetOrder(j.Order)
				}
				res.Gen = generate(inv[j.Inv].Text, defaultFeatures(), false, false)
			case "seq":
				for _, pi := range j.Seq {
					var g genResult
					for try := 0; try < 4; try++ {
						g = generate(ps[pi].Spec, ps[pi].Opts(), true, false)
						if !g.Flake {
							break
						}
					}
					res.Seq = append(res.Seq, g)
				}
			case "hash":
				s, err := ogen.Parse(ps[j.Prog].Spec)
				if err == nil {
					var g *gen.Generator
					g, err = gen.NewGenerator(s, ps[j.Prog].Opts())
					if err == nil {
						h0, n := deepHash(g)
						h0b, _ := deepHash(g)
						err = g.WriteSource(&recFS{files: map[string][]byte{}}, "api")
						h1, _ := deepHash(g)
						res.Hash, res.Nodes = []string{h0, h0b, h1}, n
					}
				}
				if err != nil {
					res.Gen.Err = err.Error()
				}
			case "sched":
				res.Sched = exploreSchedules(ps[j.Prog], j.Limit, j.Bound, j.MaxRuns)
			}
			res.Millis = time.Since(start).Milliseconds()
			_ = out.Encode(res)
		}
		if err != nil {
			return
		}
	}
}

// exploreSchedules: WriteSource of one program under the controlled scheduler.
func exploreSchedules(p program, limit, bound, maxRuns int) *schedRes {
	s, err := ogen.Parse(p.Spec)
	if err != nil {
		return &schedRes{NonDet: "parse: " + err.Error()}
	}
	g, err := gen.NewGenerator(s, p.Opts())
	if err != nil {
		return &schedRes{NonDet: "ir: " + err.Error()}
	}
	// sequential reference (no scheduler: the shims pass through)
	ref := &recFS{files: map[string][]byte{}}
	if err := g.WriteSource(ref, "api"); err != nil {
		return &schedRes{NonDet: "reference WriteSource: " + err.Error()}
	}
	refFiles := ref.files
	vs.LimitOverride = limit
	var cur *recFS
	var werr error
	body := func() {
		cur = &recFS{files: map[string][]byte{}}
		werr = g.WriteSource(cur, "api")
	}
	check := func(sc *vs.Sched) (string, string) {
		outcome := strings.Join(cur.order, ",")
		h := fnv.New32a()
		h.Write([]byte(outcome))
		outcome = fmt.Sprintf("%x", h.Sum32())
		if werr != nil {
			if strings.Contains(werr.Error(), "exec:") {
				return "", "env-flake" // goimports' subprocess timed out: environment
			}
			return "WriteSource failed under this schedule: " + firstN(werr.Error(), 400), outcome
		}
		if len(cur.files) != len(refFiles) {
			return fmt.Sprintf("%d files written, sequential run writes %d", len(cur.files), len(refFiles)), outcome
		}
		for n, b := range refFiles {
			if !bytes.Equal(cur.files[n], b) {
				return fmt.Sprintf("file %s differs from the sequential run (%d vs %d bytes)", n, len(cur.files[n]), len(b)), outcome
			}
		}
		return "", outcome
	}
	st := vs.Explore(body, check, bound, maxRuns)
	vs.LimitOverride = 0
	return &schedRes{Runs: st.Runs, States: st.States, Transitions: st.Transitions, Points: st.Points, Threads: st.MaxThreads, Capped: st.Capped, Outcomes: len(st.Outcomes), Violations: st.Violations, NonDet: st.NonDet, RefDigest: ref.digest()}
}

// ---------- parent ----------

type proc struct {
	cmd    *exec.Cmd
	in     io.WriteCloser
	out    *bufio.Reader
	stderr *bytes.Buffer
}

func spawn(bin string, env ...string) *proc {
	cmd := exec.Command(bin, "--worker")
	cmd.Env = append(os.Environ(), env...)
	in, _ := cmd.StdinPipe()
	out, _ := cmd.StdoutPipe()
	eb := &bytes.Buffer{}
	cmd.Stderr = eb
	if err := cmd.Start(); err != nil {
		vf.Fatal("cannot start worker: %v", err)
	}
	return &proc{cmd, in, bufio.NewReaderSize(out, 1<<22), eb}
}

// runJobs executes jobs on a pool of worker processes; fresh=true starts a new process per job.
func runJobs(bin string, jobs []job, fresh bool, nworkers int, env ...string) []jobResult {
	results := make([]jobResult, len(jobs))
	ch := make(chan int, len(jobs))
	for i := range jobs {
		ch <- i
	}
	close(ch)
	var wg sync.WaitGroup
	for w := 0; w < nworkers; w++ {
		wg.Add(1)
		go func() {
			defer wg.Done()
			var p *proc
			for i := range ch {
				if p == nil || fresh {
					if p != nil {
						_ = p.in.Close()
						_ = p.cmd.Wait()
					}
					p = spawn(bin, env...)
				}
				b, _ := json.Marshal(jobs[i])
				done := make(chan error, 1)
				var line []byte
				go func() {
					if _, err := p.in.Write(append(b, '\n')); err != nil {
						done <- err
						return
					}
					var err error
					line, err = p.out.ReadBytes('\n')
					done <- err
				}()
				var err error
				select {
				case err = <-done:
				case <-time.After(40 * time.Minute):
					err = fmt.Errorf("no answer within 40 minutes")
				}
				if err != nil {
					_ = p.cmd.Process.Kill()
					_ = p.cmd.Wait()
					results[i].Crash = fmt.Sprintf("worker died or hung: %v\n%s", err, firstN(p.stderr.String(), 3000))
					p = nil
					continue
				}
				_ = json.Unmarshal(line, &results[i])
			}
			if p != nil {
				_ = p.in.Close()
				_ = p.cmd.Wait()
			}
		}()
	}
	wg.Wait()
	return results
}

type kase struct {
	Program  string `json:"program"`
	Job      job    `json:"job"`
	Expected string `json:"zero_deviation_run"`
	Observed string `json:"this_run"`
	Detail   any    `json:"detail,omitempty"`
}

func outcomeOf(g genResult) string {
	if g.Err != "" {
		return "error: " + g.Err
	}
	return "files " + g.Digest
}

func main() {
	if len(os.Args) > 1 && os.Args[1] == "--worker" {
		worker()
		return
	}
	r := vf.Start("C10", "model_checking")
	self := os.Args[0]
	ps := programs(r.Repo, r.Home)
	ncpu := runtime.NumCPU()
	var states, transitions, traces int64

	// ===== 1. map orders =====
	base := make([]job, len(ps))
	for i := range ps {
		base[i] = job{Kind: "gen", Prog: i, DevK: -1, DevK2: -1, PerFile: true}
	}
	baseRes := runJobs(self, base, true, ncpu)
	for i, b := range baseRes {
		if b.Crash != "" || b.Gen.Err != "" {
			vf.Fatal("program %q does not generate with 0 deviations: %s %s", ps[i].Name, b.Crash, b.Gen.Err)
		}
	}
	modes := []string{"desc", "rot1"}
	if r.Thorough() {
		modes = []string{"desc", "rot1", "swap01", "lastfirst"}
	}
	var devJobs []job
	for i := range ps {
		if !r.Thorough() && i >= 6 {
			continue // quick: single deviations on the first six programs; global orders on all
		}
		for k := int64(0); k < baseRes[i].Gen.Ranges; k++ {
			for _, m := range modes {
				devJobs = append(devJobs, job{Kind: "gen", Prog: i, DevK: k, DevK2: -1, DevMode: m})
			}
		}
	}
	for i := range ps {
		for _, o := range []string{"desc", "rot1", "lastfirst"} {
			devJobs = append(devJobs, job{Kind: "gen", Prog: i, Order: o, DevK: -1, DevK2: -1})
		}
	}
	if r.Thorough() {
		// all pairs of deviations on the two smallest programs
		for _, i := range []int{4, 3} {
			n := baseRes[i].Gen.Ranges
			for a := int64(0); a < n; a++ {
				for b := a + 1; b < n; b++ {
					devJobs = append(devJobs, job{Kind: "gen", Prog: i, DevK: a, DevK2: b, DevMode: "desc"})
				}
			}
		}
	}
	devRes := runJobs(self, devJobs, false, ncpu)
	var totalRanges int64
	for _, b := range baseRes {
		totalRanges += b.Gen.Ranges
	}
	for i, j := range devJobs {
		res := devRes[i]
		r.Eval(1)
		traces++
		transitions++
		want := outcomeOf(baseRes[j.Prog].Gen)
		switch {
		case res.Crash != "":
			r.Violation(map[string]string{"class": "crash-under-a-map-order", "part": "map-order"}, 0, kase{Program: ps[j.Prog].Name, Job: j, Observed: res.Crash})
		case res.Gen.Flake:
			r.Add("environment_flakes", 1)
		case outcomeOf(res.Gen) != want:
			cl := "generated-files-depend-on-map-iteration-order"
			if res.Gen.Err != "" {
				cl = "generation-outcome-depends-on-map-iteration-order"
			}
			r.Violation(map[string]string{"class": cl + "/" + ps[j.Prog].Name, "part": "map-order"}, int(j.DevK), kase{Program: ps[j.Prog].Name, Job: j, Expected: want, Observed: outcomeOf(res.Gen)})
		default:
			r.Nontrivial(fmt.Sprintf("dev %d %d %d %s %s", j.Prog, j.DevK, j.DevK2, j.DevMode, j.Order))
		}
	}
	// invalid documents: the diagnostic must not depend on the map order either
	inv := invalidDocs(r.Repo)
	var invJobs []job
	step := 1
	if !r.Thorough() {
		step = 3
	}
	if v := os.Getenv("VERIF_C10_INVSTEP"); v != "" {
		fmt.Sscanf(v, "%d", &step)
	}
	for i := 0; i < len(inv); i += step {
		for _, o := range []string{"", "desc", "rot1"} {
			invJobs = append(invJobs, job{Kind: "invalid", Inv: i, Order: o})
		}
	}
	invRes := runJobs(self, invJobs, false, ncpu)
	invFailing := 0
	for i := 0; i+2 < len(invJobs); i += 3 {
		a := invRes[i]
		r.Eval(3)
		traces += 3
		if a.Gen.Err != "" {
			invFailing++
		}
		for k := 1; k <= 2; k++ {
			b := invRes[i+k]
			if b.Crash != "" || a.Crash != "" {
				r.Violation(map[string]string{"class": "crash-on-invalid-document", "part": "map-order"}, 0, kase{Program: inv[invJobs[i].Inv].Name, Job: invJobs[i+k], Observed: a.Crash + b.Crash})
				continue
			}
			if outcomeOf(a.Gen) != outcomeOf(b.Gen) {
				r.Violation(map[string]string{"class": "diagnostic-depends-on-map-iteration-order", "part": "map-order", "site": siteOf(a.Gen.Err, b.Gen.Err)}, len(inv[invJobs[i].Inv].Name),
					kase{Program: inv[invJobs[i].Inv].Name, Job: invJobs[i+k], Expected: firstN(outcomeOf(a.Gen), 700), Observed: firstN(outcomeOf(b.Gen), 700), Detail: string(firstN(string(inv[invJobs[i].Inv].Text), 0))})
			} else if a.Gen.Err != "" {
				r.Nontrivial("inv" + inv[invJobs[i].Inv].Name + invJobs[i+k].Order)
			}
		}
	}

	// ===== 3. templates only read the IR =====
	var hashJobs []job
	for i := range ps {
		hashJobs = append(hashJobs, job{Kind: "hash", Prog: i})
	}
	hashRes := runJobs(self, hashJobs, true, ncpu)
	var hashedNodes int64
	for i, h := range hashRes {
		r.Eval(1)
		switch {
		case h.Crash != "" || len(h.Hash) != 3:
			vf.Fatal("deep hash of %q failed: %s %s", ps[i].Name, h.Crash, h.Gen.Err)
		case h.Hash[0] != h.Hash[1]:
			vf.Fatal("the deep hasher is not stable on an untouched generator (%q)", ps[i].Name)
		case h.Hash[0] != h.Hash[2]:
			r.Violation(map[string]string{"class": "WriteSource-mutates-the-generator-state", "part": "ir-immutable"}, 0, kase{Program: ps[i].Name, Job: hashJobs[i], Expected: h.Hash[0], Observed: h.Hash[2]})
		default:
			r.Nontrivial("hash" + ps[i].Name)
		}
		hashedNodes += int64(h.Nodes)
	}

	// ===== 2. template-task schedules =====
	type sj struct{ prog, limit, bound, max int }
	var sjs []sj
	// program 4 = tiny spec / client only (complete explorations); 3, 1, 0 = larger ones (capped, reported as such)
	if r.Thorough() {
		sjs = []sj{{4, 2, 0, 30000}, {4, 2, 1, 30000}, {4, 2, 2, 30000}, {4, 3, 1, 30000}, {4, 24, 0, 30000}, {4, 24, 1, 30000}, {3, 2, 1, 6000}, {3, 3, 0, 6000}, {3, 24, 0, 4000}, {1, 2, 1, 6000}, {0, 2, 0, 4000}}
	} else {
		sjs = []sj{{4, 2, 0, 4000}, {4, 2, 1, 1000}, {4, 3, 0, 1000}, {4, 24, 0, 600}, {3, 2, 0, 150}}
	}
	var schedJobs []job
	for _, s := range sjs {
		schedJobs = append(schedJobs, job{Kind: "sched", Prog: s.prog, Limit: s.limit, Bound: s.bound, MaxRuns: s.max})
	}
	schedRes := runJobs(self, schedJobs, true, ncpu)
	var schedules int64
	schedInfo := []map[string]any{}
	for i, sr := range schedRes {
		j := schedJobs[i]
		if sr.Crash != "" || sr.Sched == nil {
			vf.Fatal("schedule exploration of %q crashed: %s", ps[j.Prog].Name, sr.Crash)
		}
		s := sr.Sched
		if s.NonDet != "" {
			vf.Fatal("schedule exploration of %q is not deterministic: %s", ps[j.Prog].Name, s.NonDet)
		}
		if s.RefDigest != baseRes[j.Prog].Gen.Digest {
			r.Violation(map[string]string{"class": "sequential-run-in-the-exploration-process-differs-from-the-fresh-process", "part": "schedules"}, 0, kase{Program: ps[j.Prog].Name, Job: j, Expected: baseRes[j.Prog].Gen.Digest, Observed: s.RefDigest})
		}
		schedules += int64(s.Runs)
		states += int64(s.States)
		transitions += int64(s.Transitions)
		traces += int64(s.Runs)
		r.Eval(int64(s.Runs))
		r.NontrivialN(int64(s.States))
		if s.Capped {
			r.NotExhaustive(fmt.Sprintf("schedule exploration of %q (errgroup limit %d, preemption bound %d) stopped at its cap of %d schedules after %d states", ps[j.Prog].Name, j.Limit, j.Bound, j.MaxRuns, s.States))
		}
		schedInfo = append(schedInfo, map[string]any{"program": ps[j.Prog].Name, "errgroup_limit": j.Limit, "preemption_bound": j.Bound, "schedules": s.Runs, "states": s.States, "transitions": s.Transitions, "threads": s.Threads, "distinct_file_write_orders": s.Outcomes, "capped": s.Capped, "seconds": sr.Millis / 1000})
		for _, v := range s.Violations {
			if v.Reproduced < 5 {
				vf.Fatal("a violating schedule did not reproduce every time (%d/5): %s", v.Reproduced, v.Msg)
			}
			cl := "generated-files-depend-on-the-template-task-schedule"
			if strings.Contains(v.Msg, "deadlock") || strings.Contains(v.Msg, "horizon") {
				cl = "deadlock-in-WriteSource"
			}
			r.Violation(map[string]string{"class": cl, "part": "schedules"}, len(v.Choices), kase{Program: ps[j.Prog].Name, Job: j, Observed: v.Msg, Detail: v})
		}
	}

	// ===== 4. histories =====
	nprog := 7
	var seqJobs []job
	for a := 0; a < nprog; a++ {
		seqJobs = append(seqJobs, job{Kind: "seq", Seq: []int{a}})
		for b := 0; b < nprog; b++ {
			seqJobs = append(seqJobs, job{Kind: "seq", Seq: []int{a, b}})
			for c := 0; c < nprog; c++ {
				if r.Thorough() || (a+b+c)%3 == 0 {
					seqJobs = append(seqJobs, job{Kind: "seq", Seq: []int{a, b, c}})
				}
			}
		}
	}
	seqRes := runJobs(self, seqJobs, true, ncpu)
	for i, sr := range seqRes {
		j := seqJobs[i]
		r.Eval(int64(len(j.Seq)))
		traces += int64(len(j.Seq))
		states++
		if sr.Crash != "" || len(sr.Seq) != len(j.Seq) {
			r.Violation(map[string]string{"class": "crash-in-a-sequence-of-generations", "part": "histories"}, len(j.Seq), kase{Job: j, Observed: sr.Crash})
			continue
		}
		okSeq := true
		for k, pi := range j.Seq {
			if sr.Seq[k].Flake {
				r.Add("environment_flakes", 1)
				continue
			}
			if outcomeOf(sr.Seq[k]) != outcomeOf(baseRes[pi].Gen) {
				okSeq = false
				var names []string
				for _, x := range j.Seq {
					names = append(names, ps[x].Name)
				}
				r.Violation(map[string]string{"class": "generation-depends-on-earlier-generations-in-the-process", "part": "histories"}, len(j.Seq),
					kase{Program: ps[pi].Name, Job: j, Expected: outcomeOf(baseRes[pi].Gen), Observed: outcomeOf(sr.Seq[k]), Detail: map[string]any{"sequence": names, "position": k}})
			}
		}
		if okSeq && len(j.Seq) > 1 {
			r.Nontrivial(fmt.Sprint("seq", j.Seq))
		}
	}

	// ===== free-running race pass =====
	raceNote := "not run"
	if r.Replay == "" {
		raceBin := filepath.Join(r.Home, "bin", "c10.race")
		args := []string{"build", "-race", "-o", raceBin}
		if ov := os.Getenv("VERIF_OVERLAY"); ov != "" {
			args = append(args, "-overlay", ov)
		}
		if mf := os.Getenv("VERIF_MODFILE"); mf != "" {
			args = append(args, "-modfile="+mf)
		}
		args = append(args, "./cmd/c10")
		cmd := exec.Command("go", args...)
		cmd.Dir = r.Home
		if out, err := cmd.CombinedOutput(); err != nil {
			raceNote = "race build not possible in this environment: " + firstN(string(out), 300)
		} else {
			raceNote = "clean"
			for _, procs := range []string{"1", "2", "4", "16"} {
				jobs := []job{{Kind: "gen", Prog: 0, DevK: -1, DevK2: -1}, {Kind: "seq", Seq: []int{2, 0, 4}}}
				rr := runJobs(raceBin, jobs, true, 2, "GOMAXPROCS="+procs, "GORACE=halt_on_error=1 exitcode=66")
				r.Add("race_pass_generations", 4)
				for _, x := range rr {
					if strings.Contains(x.Crash, "DATA RACE") {
						raceNote = "DATA RACE"
						r.Violation(map[string]string{"class": "data-race-in-free-running-generation", "part": "race-pass"}, 0, kase{Observed: firstN(x.Crash, 6000), Detail: map[string]any{"GOMAXPROCS": procs}})
					} else if x.Crash != "" {
						vf.Fatal("race pass worker failed: %s", firstN(x.Crash, 2000))
					}
				}
			}
			_ = os.Remove(raceBin)
		}
	}

	if states < 1 {
		states = 1
	}
	r.Set("states", states)
	r.Set("transitions", transitions)
	r.Set("traces_validated_against_impl", traces)
	r.Set("programs", len(ps))
	r.Set("dynamic_map_range_executions_per_program", func() map[string]int64 {
		m := map[string]int64{}
		for i, b := range baseRes {
			m[ps[i].Name] = b.Gen.Ranges
		}
		return m
	}())
	r.Set("single_and_global_deviation_runs", len(devJobs))
	r.Set("invalid_documents", len(invJobs)/3)
	r.Set("invalid_documents_failing", invFailing)
	r.Set("schedule_explorations", schedInfo)
	r.Set("schedules", schedules)
	r.Set("generator_graph_nodes_hashed", hashedNodes)
	r.Set("history_sequences", len(seqJobs))
	r.Set("race_pass", raceNote)
	if dir := os.Getenv("VERIF_MAPSEAM_DIR"); dir != "" {
		if b, err := os.ReadFile(filepath.Join(dir, "sites.json")); err == nil {
			var si struct {
				Sites        []string `json:"sites"`
				Uncontrolled []string `json:"uncontrolled_pointer_keyed_sites"`
			}
			_ = json.Unmarshal(b, &si)
			r.Set("static_map_range_sites_under_control", len(si.Sites))
			r.Set("uncontrolled_pointer_keyed_sites", si.Uncontrolled)
		}
	}
	r.Sample(map[string]any{"part": "map-order", "program": ps[0].Name, "deviation": "dynamic range execution #17 iterates in descending key order, all others ascending"})
	r.Sample(map[string]any{"part": "schedules", "program": ps[3].Name, "errgroup_limit": 2, "preemption_bound": 1, "points": "errgroup Go/Wait, bufPool Get/Put (before and after), FileSystem.WriteFile, task exit"})
	r.Sample(map[string]any{"part": "histories", "sequence": []string{ps[2].Name, ps[0].Name, ps[4].Name}})
	r.Assume("map-order seam: every range over a map and every x/exp/maps.Keys/Values call in the generator packages is rewritten at build time (static sites listed in the evidence); iteration inside text/template and encoding/json is already sorted by those libraries; pointer keys are ordered by the pointee's Name",
		"schedule exploration treats a template task between two hooked operations as one step; the side condition (templates only read the generator state) is checked by the deep hash of the whole *gen.Generator before and after WriteSource in the same run",
		"every run is an execution of the real generator (traces_validated_against_impl counts them); states = distinct scheduler states + history sequences; transitions = scheduler transitions + environment deviations taken",
		"the free-running -race pass is sampling and reported separately; goimports' subprocess timeouts under load are retried and counted as environment_flakes")
	r.Finish("1. map orders: 0 deviations, every single deviation (each dynamic range execution over >= 2 keys x {descending, rotated}; thorough also swap-first-two, last-first and all pairs on two programs) and every global order {descending, rotated, last-first} on 15 programs (incl. one made of reference cycles of every shape and one of order-sensitive shapes: masked + plain media types, one oauth2 scheme in several alternatives, discriminator mappings, pattern properties, extensions); ~500 invalid single-fault mutants under 3 global orders (diagnostics). 2. schedules: WriteSource under the controlled scheduler for errgroup limits 2, 3, 24 and preemption bounds 0-2 with state-key pruning (pc, pool contents incl. full backing arrays). 3. deep hash of the generator before/after WriteSource. 4. all sequences of <= 2 generations and a third (thorough: all) of the triples over 6 programs, each in a fresh process, compared with the fresh-process output. distinct non-trivial = deviation run / scheduler state / sequence whose result equalled the reference.")
}

// siteOf guesses which construct the two diagnostics disagree about (for finding matchers).
func siteOf(a, b string) string {
	for _, k := range []string{"parse content", "contents: media", "responses", "headers", "properties", "securitySchemes", "parameters", "examples", "encoding", "patternProperties", "webhooks", "mapping"} {
		if strings.Contains(a, k) || strings.Contains(b, k) {
			return k
		}
	}
	return "other"
}
