// C16 — JSON Pointers resolve as RFC 6901 prescribes.
//
// Documents: bounded-exhaustive trees (depth <= 3, fan-out <= 2 objects, arrays <= 3) with member
// names rotated through an adversarial name set, plus every pair of names as siblings; each in
// JSON and YAML spelling. Pointers: the valid pointer to every node (plain and three fragment
// encodings), every single-character edit of those, and all strings <= N over the edit alphabet.
// Oracle: an independent RFC 6901 evaluator over the same *yaml.Node tree (node identity).
package main

import (
	"encoding/json"
	"fmt"
	"net/url"
	"regexp"
	"runtime"
	"sort"
	"strconv"
	"strings"
	"sync"

	"github.com/go-faster/yaml"
	"github.com/ogen-go/ogen"
	"github.com/ogen-go/ogen/jsonpointer"
	"github.com/ogen-go/ogen/jsonschema"
	"github.com/ogen-go/ogen/location"
	"github.com/ogen-go/ogen/openapi"
	"github.com/ogen-go/ogen/openapi/parser"

	"verif/internal/vf"
)

// ---------- reference ----------

// refPlain evaluates a plain JSON Pointer. valid=false: the string is not a pointer under the ABNF.
func refPlain(ptr string, n *yaml.Node) (node *yaml.Node, found, lenientTilde bool) {
	return refPlainMode(ptr, n, false)
}

// refPlainMode with lenient=true keeps a bare '~' literally instead of rejecting the pointer.
func refPlainMode(ptr string, n *yaml.Node, lenient bool) (node *yaml.Node, found, lenientTilde bool) {
	if n.Kind == yaml.DocumentNode {
		n = n.Content[0]
	}
	if ptr == "" {
		return n, true, false
	}
	if ptr[0] != '/' {
		return nil, false, false
	}
	for _, tok := range strings.Split(ptr[1:], "/") {
		for i := 0; i < len(tok); i++ {
			if !lenient && tok[i] == '~' && (i+1 >= len(tok) || (tok[i+1] != '0' && tok[i+1] != '1')) {
				return nil, false, true
			}
		}
		// RFC 6901 section 4: first ~1 -> /, then ~0 -> ~
		tok = strings.ReplaceAll(tok, "~1", "/")
		tok = strings.ReplaceAll(tok, "~0", "~")
		// an alias stands for the node it refers to (the data model has no aliases)
		for n.Kind == yaml.AliasNode && n.Alias != nil {
			n = n.Alias
		}
		switch n.Kind {
		case yaml.MappingNode:
			var f *yaml.Node
			for i := 0; i+1 < len(n.Content); i += 2 {
				if n.Content[i].Value == tok {
					f = n.Content[i+1]
					break
				}
			}
			if f == nil {
				return nil, false, false
			}
			n = f
		case yaml.SequenceNode:
			// array-index = %x30 / ( %x31-39 *(%x30-39) )
			if tok == "" || (len(tok) > 1 && tok[0] == '0') || len(tok) > 6 {
				return nil, false, false
			}
			idx := 0
			for _, c := range []byte(tok) {
				if c < '0' || c > '9' {
					return nil, false, false
				}
				idx = idx*10 + int(c-'0')
			}
			if idx >= len(n.Content) {
				return nil, false, false
			}
			n = n.Content[idx]
		default:
			return nil, false, false
		}
	}
	return n, true, false
}

func pctDecode(s string) (string, bool) {
	var b strings.Builder
	for i := 0; i < len(s); i++ {
		if s[i] != '%' {
			b.WriteByte(s[i])
			continue
		}
		if i+2 >= len(s) {
			return "", false
		}
		v, err := strconv.ParseUint(s[i+1:i+3], 16, 8)
		if err != nil || s[i+1] == '+' || s[i+1] == '-' {
			return "", false
		}
		b.WriteByte(byte(v))
		i += 2
	}
	return b.String(), true
}

// ref returns the designated node. inDomain=false for strings that are neither plain pointers nor
// fragments (URL references): only "no panic" and "fragment designates the returned node" apply.
func ref(ptr string, n *yaml.Node) (node *yaml.Node, found, inDomain, lenient bool) {
	switch {
	case ptr == "" || ptr[0] == '/':
		node, found, lenient = refPlain(ptr, n)
		return node, found, true, lenient
	case ptr[0] == '#':
		un, ok := pctDecode(ptr[1:])
		if !ok {
			return nil, false, true, false
		}
		node, found, lenient = refPlain(un, n)
		return node, found, true, lenient
	}
	return nil, false, false, false
}

// ---------- documents ----------

type tree struct {
	kind byte // 'l' leaf, 'o' object, 'a' array
	keys []string
	kids []*tree
	leaf int
}

var names = []string{"", "a", "0", "1", "01", "~", "/", "~0", "~1", "a/b", "m~n", "%", "%25", "é", " ", "-", "#", "00", "~01", "~10", "b",
	// names a YAML parser resolves to something else than a string when they are written plain
	"200", "1e3", "true", "null", "2020-01-01", "0x1F", "1.5", ".inf"}

// plainKeys: the YAML emitter writes keys without quotes wherever YAML allows it, so that their
// nodes carry !!int / !!float / !!bool / !!null / !!timestamp tags: a member name is the key's text.
var plainKeys bool

var plainSafe = regexp.MustCompile(`^([A-Za-z0-9_.é][A-Za-z0-9_.+é-]*|~)$`)

func (t *tree) json(sb *strings.Builder) {
	switch t.kind {
	case 'l':
		fmt.Fprintf(sb, "%d", t.leaf)
	case 'o':
		sb.WriteByte('{')
		for i, k := range t.keys {
			if i > 0 {
				sb.WriteByte(',')
			}
			kb, _ := json.Marshal(k)
			sb.Write(kb)
			sb.WriteByte(':')
			t.kids[i].json(sb)
		}
		sb.WriteByte('}')
	case 'a':
		sb.WriteByte('[')
		for i, k := range t.kids {
			if i > 0 {
				sb.WriteByte(',')
			}
			k.json(sb)
		}
		sb.WriteByte(']')
	}
}

func (t *tree) yaml(sb *strings.Builder, ind string, inline bool) {
	switch t.kind {
	case 'l':
		fmt.Fprintf(sb, " %d\n", t.leaf)
	case 'o':
		if len(t.keys) == 0 {
			sb.WriteString(" {}\n")
			return
		}
		if !inline {
			sb.WriteString("\n")
		}
		for i, k := range t.keys {
			kb, _ := json.Marshal(k)
			if plainKeys && plainSafe.MatchString(k) {
				kb = []byte(k)
			}
			if !(inline && i == 0) {
				sb.WriteString(ind)
			}
			sb.Write(kb)
			sb.WriteString(":")
			t.kids[i].yaml(sb, ind+"  ", false)
		}
	case 'a':
		if len(t.kids) == 0 {
			sb.WriteString(" []\n")
			return
		}
		if !inline {
			sb.WriteString("\n")
		}
		for i, k := range t.kids {
			if !(inline && i == 0) {
				sb.WriteString(ind)
			}
			sb.WriteString("-")
			if k.kind == 'l' || len(k.kids) == 0 {
				k.yaml(sb, "", false)
			} else {
				sb.WriteString(" ")
				k.yaml(sb, ind+"  ", true)
			}
		}
	}
}

// shapes enumerates all tree shapes up to the depth: leaf | obj with 1..2 members | array 0..3.
func shapes(depth int) []*tree {
	out := []*tree{{kind: 'l'}}
	if depth <= 1 {
		return out
	}
	sub := shapes(depth - 1)
	out = append(out, &tree{kind: 'o'}, &tree{kind: 'a'})
	for _, a := range sub {
		out = append(out, &tree{kind: 'o', kids: []*tree{a}}, &tree{kind: 'a', kids: []*tree{a}})
		for _, b := range sub {
			out = append(out, &tree{kind: 'o', kids: []*tree{a, b}}, &tree{kind: 'a', kids: []*tree{a, b}})
		}
	}
	// arrays of three only over depth-1 children (leaf/empty), to keep the product bounded
	if depth >= 2 {
		small := shapes(1)
		if depth >= 3 {
			small = append(small, &tree{kind: 'o'}, &tree{kind: 'a'}, &tree{kind: 'o', kids: []*tree{{kind: 'l'}}})
		}
		for _, a := range small {
			for _, b := range small {
				for _, c := range small {
					out = append(out, &tree{kind: 'a', kids: []*tree{a, b, c}})
				}
			}
		}
	}
	return out
}

// instantiate deep-copies the shape, assigning names from the rotation and distinct leaves.
func instantiate(t *tree, rot *int, step int, leaf *int) *tree {
	n := &tree{kind: t.kind}
	switch t.kind {
	case 'l':
		*leaf++
		n.leaf = *leaf
	case 'o':
		used := map[string]bool{}
		for _, k := range t.kids {
			name := names[*rot%len(names)]
			for used[name] {
				*rot++
				name = names[*rot%len(names)]
			}
			used[name] = true
			*rot += step
			n.keys = append(n.keys, name)
			n.kids = append(n.kids, instantiate(k, rot, step, leaf))
		}
	case 'a':
		for _, k := range t.kids {
			n.kids = append(n.kids, instantiate(k, rot, step, leaf))
		}
	}
	return n
}

type pathNode struct {
	ptr  string
	node *yaml.Node
}

func collect(n *yaml.Node, ptr string, out *[]pathNode) {
	if n.Kind == yaml.DocumentNode {
		n = n.Content[0]
	}
	*out = append(*out, pathNode{ptr, n})
	switch n.Kind {
	case yaml.MappingNode:
		for i := 0; i+1 < len(n.Content); i += 2 {
			k := strings.ReplaceAll(strings.ReplaceAll(n.Content[i].Value, "~", "~0"), "/", "~1")
			collect(n.Content[i+1], ptr+"/"+k, out)
		}
	case yaml.SequenceNode:
		for i, c := range n.Content {
			collect(c, fmt.Sprintf("%s/%d", ptr, i), out)
		}
	}
}

var alphabet = []string{"/", "~", "0", "1", "a", "%", "2", "F", "#", "-"}

type kase struct {
	Doc     string `json:"document"`
	Pointer string `json:"pointer"`
	Want    string `json:"reference_says"`
	Got     string `json:"ogen_returned"`
}

func describe(n *yaml.Node) string {
	if n == nil {
		return "<nil>"
	}
	return fmt.Sprintf("node@%d:%d kind=%d value=%q", n.Line, n.Column, n.Kind, n.Value)
}

// judge evaluates one (document, pointer) pair. class "" = conforms.
func judge(doc string, root *yaml.Node, p string) (cl string, k kase, lenientOutside bool, hit bool) {
	want, wok, inDomain, lenient := ref(p, root)
	var got *yaml.Node
	var err error
	var pan any
	func() {
		defer func() { pan = recover() }()
		got, err = jsonpointer.Resolve(p, root)
	}()
	k = kase{Doc: doc, Pointer: p}
	if wok {
		k.Want = describe(want)
	} else {
		k.Want = "no node"
	}
	if err != nil {
		k.Got = "error: " + err.Error()
	} else {
		k.Got = describe(got)
	}
	hit = wok
	// the same fragment-form pointer taken as a reference inside a document that was itself reached
	// through a reference (non-empty location stack): the key ogen forms must resolve like the
	// reference itself (a $ref nested under another $ref goes through ResolveCtx.Key)
	if pan == nil && strings.HasPrefix(p, "#") {
		ctx := jsonpointer.NewResolveCtx(jsonpointer.DummyURL(), 1000)
		if e := ctx.AddKey(jsonpointer.RefKey{Loc: jsonpointer.DummyURL().String(), Ptr: "#/outer"}, location.File{}); e == nil {
			if key, e := ctx.Key(p); e == nil {
				var got2 *yaml.Node
				var err2 error
				func() {
					defer func() { pan = recover() }()
					got2, err2 = jsonpointer.Resolve(key.Ptr, root)
				}()
				if pan == nil && ((err == nil) != (err2 == nil) || (err == nil && got2 != got)) {
					k.Got = fmt.Sprintf("directly: %s; through the reference key %q: %s (err %v)", k.Got, key.Ptr, describe(got2), err2)
					return "nested-reference-key-resolves-differently", k, false, hit
				}
			}
		}
	}
	switch {
	case pan != nil:
		k.Got = fmt.Sprint("panic: ", pan)
		return "panic", k, false, hit
	case !inDomain:
		// URL reference: a returned node must be the one its fragment designates.
		if err == nil {
			if u, e := url.Parse(p); e == nil {
				w2, ok2, _ := refPlain(u.Fragment, root)
				if _, _, l := refPlain(u.Fragment, root); l {
					return "", k, true, hit
				}
				if !ok2 || w2 != got {
					if ok2 {
						k.Want = describe(w2)
					}
					return "url-reference-wrong-node", k, false, hit
				}
			}
		}
		return "", k, false, hit
	case lenient:
		// '~' not followed by 0/1: not a pointer under the ABNF; ogen resolves it leniently to
		// the member literally containing '~'. Outside the oracle (DESIGN.md C16 domain), counted;
		// but a node that is returned must be the one the literal reading designates.
		if err == nil {
			q := p
			if strings.HasPrefix(q, "#") {
				q, _ = pctDecode(q[1:])
			}
			if w2, ok2, _ := refPlainMode(q, root, true); !ok2 || w2 != got {
				return "lenient-tilde-wrong-node", k, true, hit
			}
		}
		return "", k, true, hit
	case wok && err != nil:
		return "error-but-node-exists", k, false, hit
	case wok && got != want:
		return "wrong-node", k, false, hit
	case !wok && err == nil:
		return "node-returned-where-rfc-has-none", k, false, hit
	}
	return "", k, false, hit
}

// resolverSequences: jsonschema.RootResolver is one object per document that answers every reference
// into it.  Over a document whose member names read like escapes of one another (c%d, c%25d, e^f,
// e%5Ef, a, %41, a~1b, a/b ...) every ordered pair and triple of references (plain and fragment
// spellings, escaped minimally and fully) is resolved on ONE resolver: each answer must be the member
// the reference evaluator designates for that reference alone, whatever was asked before.
func resolverSequences(r *vf.Run, thorough bool) {
	members := []string{"a", "%41", "c%d", "c%25d", "e^f", "e%5Ef", "a/b", "a~1b", "m~n", "m~0n", "", "%", "%25", "\u00e9", "%C3%A9"}
	defs := map[string]any{}
	for _, m := range members {
		defs[m] = map[string]any{"description": "member<" + m + ">"}
	}
	data, _ := json.Marshal(map[string]any{"definitions": defs})
	var root yaml.Node
	if err := yaml.Unmarshal(data, &root); err != nil {
		vf.Fatal("resolverSequences document: %v", err)
	}
	esc := func(tok string) string { return strings.ReplaceAll(strings.ReplaceAll(tok, "~", "~0"), "/", "~1") }
	var refs []string
	seen := map[string]bool{}
	add := func(x string) {
		if !seen[x] {
			seen[x] = true
			refs = append(refs, x)
		}
	}
	for _, m := range members {
		e := esc(m)
		add("/definitions/" + e)                                                  // plain
		add("#/definitions/" + strings.ReplaceAll(url.PathEscape(e), "+", "%2B")) // fragment, minimal escapes
		var full strings.Builder
		for i := 0; i < len(e); i++ {
			fmt.Fprintf(&full, "%%%02X", e[i])
		}
		add("#/definitions/" + full.String()) // fragment, everything escaped
		if !strings.ContainsAny(e, " ") {
			add("#/definitions/" + e) // the text of the plain pointer behind a '#': another reference whenever it holds a '%'
		}
	}
	want := func(rf string) string {
		n, found, inDomain, _ := ref(rf, &root)
		if !inDomain || !found {
			return "(no node)"
		}
		var rs struct {
			Description string `yaml:"description"`
		}
		_ = n.Decode(&rs)
		return rs.Description
	}
	got := func(res *jsonschema.RootResolver, rf string) (out string) {
		defer func() {
			if p := recover(); p != nil {
				out = fmt.Sprint("panic: ", p)
			}
		}()
		rs, err := res.ResolveReference(rf)
		if err != nil || rs == nil {
			return "(no node)"
		}
		return rs.Description
	}
	var n int64
	run := func(seq []string) {
		n++
		res := jsonschema.NewRootResolver(&root)
		for i, rf := range seq {
			if g, w := got(res, rf), want(rf); g != w {
				r.Violation(map[string]string{"class": "resolver-answer-depends-on-earlier-references", "position": fmt.Sprint(i + 1)}, len(strings.Join(seq, "")),
					map[string]any{"references_in_order": seq, "reference": rf, "resolved": g, "designated": w, "document": string(data)})
				return
			}
		}
	}
	for _, a := range refs {
		run([]string{a})
		for _, b := range refs {
			run([]string{a, b})
			if thorough {
				for _, c := range refs {
					run([]string{a, b, c})
				}
			}
		}
	}
	r.Eval(n)
	r.NontrivialN(n)
	r.Set("resolver_reference_sequences", n)
}

// ---------- references of a document: the parser's resolution of $ref ----------

// docRefs: an OpenAPI document whose schema components nest schemas under members and keywords that
// are named like other components (owner, items, properties, 0, A ...).  Every pointer to every
// schema position below components/schemas is the $ref of one request body, in fragment form (plain
// and percent-encoded).  The parser (its shortcuts for already parsed components included) must hand
// back the schema that sits at the node RFC 6901 evaluation designates: positions are unique per node,
// so the position of the resolved schema identifies the node.
func docRefs(r *vf.Run) {
	type M = map[string]any
	obj := func(props M, extra M) M {
		m := M{"type": "object", "properties": props}
		for k, v := range extra {
			m[k] = v
		}
		return m
	}
	schemas := M{
		"A": obj(M{"owner": obj(M{"x": M{"type": "integer"}}, nil), "items": M{"type": "string"}, "properties": M{"type": "boolean"}, "A": M{"type": "number"}, "0": M{"type": "string", "maxLength": 1},
			"a/b": M{"type": "integer", "minimum": 1}, "m~n": M{"type": "integer", "minimum": 2}, "\u00e9": M{"type": "integer", "minimum": 3}, "%": M{"type": "integer", "minimum": 4}, "%25": M{"type": "integer", "minimum": 5}, "a b": M{"type": "integer", "minimum": 6}},
			M{"additionalProperties": M{"type": "integer", "maximum": 7}}),
		"owner":                M{"type": "array", "items": obj(M{"items": M{"type": "integer", "maximum": 8}}, nil)},
		"items":                M{"allOf": []any{obj(M{"a": M{"type": "string", "maxLength": 2}}, nil), obj(M{"0": M{"type": "integer", "maximum": 9}}, nil)}},
		"0":                    obj(M{"owner": M{"type": "string", "maxLength": 3}}, M{"patternProperties": M{"^x": M{"type": "string", "maxLength": 4}}}),
		"properties":           M{"oneOf": []any{M{"type": "string", "maxLength": 5}, M{"type": "integer", "maximum": 10}}},
		"x":                    M{"type": "string", "maxLength": 6},
		"a":                    M{"type": "boolean"},
		"additionalProperties": M{"type": "string", "maxLength": 7},
		"allOf":                M{"type": "integer", "maximum": 11},
		"oneOf":                M{"anyOf": []any{M{"type": "string", "maxLength": 8}, M{"type": "number", "maximum": 12}}},
		"1":                    M{"type": "string", "maxLength": 9},
	}
	// every schema position below components/schemas, as reference tokens
	var ptrs [][]string
	var walk func(s M, at []string)
	walk = func(s M, at []string) {
		ptrs = append(ptrs, append([]string{}, at...))
		for _, kw := range []string{"properties", "patternProperties"} {
			if ps, ok := s[kw].(M); ok {
				for name, sub := range ps {
					walk(sub.(M), append(append([]string{}, at...), kw, name))
				}
			}
		}
		for _, kw := range []string{"items", "additionalProperties"} {
			if sub, ok := s[kw].(M); ok {
				walk(sub, append(append([]string{}, at...), kw))
			}
		}
		for _, kw := range []string{"allOf", "oneOf", "anyOf"} {
			if l, ok := s[kw].([]any); ok {
				for i, sub := range l {
					walk(sub.(M), append(append([]string{}, at...), kw, strconv.Itoa(i)))
				}
			}
		}
	}
	for name, s := range schemas {
		walk(s.(M), []string{"components", "schemas", name})
	}
	sortTokens(ptrs)
	esc := func(tok string) string { return strings.ReplaceAll(strings.ReplaceAll(tok, "~", "~0"), "/", "~1") }
	type site struct {
		op, ref, plain string
	}
	var sites []site
	paths := M{}
	for i, toks := range ptrs {
		var plain, frag, full strings.Builder
		for _, t := range toks {
			e := esc(t)
			plain.WriteString("/" + e)
			frag.WriteString("/" + strings.ReplaceAll(url.PathEscape(e), "+", "%2B"))
			full.WriteString("/")
			for j := 0; j < len(e); j++ {
				fmt.Fprintf(&full, "%%%02x", e[j])
			}
		}
		for j, ref := range []string{"#" + frag.String(), "#" + full.String()} {
			id := fmt.Sprintf("r%dx%d", i, j)
			sites = append(sites, site{id, ref, plain.String()})
			paths["/"+id] = M{"post": M{"operationId": id, "requestBody": M{"required": true, "content": M{"application/json": M{"schema": M{"$ref": ref}}}}, "responses": M{"200": M{"description": "ok"}}}}
		}
	}
	doc := M{"openapi": "3.0.3", "info": M{"title": "t", "version": "1"}, "paths": paths, "components": M{"schemas": schemas}}
	var evals int64
	for _, spelling := range []string{"json-indented", "json-compact"} {
		var data []byte
		if spelling == "json-compact" {
			data, _ = json.Marshal(doc)
		} else {
			data, _ = json.MarshalIndent(doc, "", "  ")
		}
		var root yaml.Node
		if err := yaml.Unmarshal(data, &root); err != nil {
			vf.Fatal("docRefs document: %v", err)
		}
		spec, err := ogen.Parse(data)
		var api *openapi.API
		if err == nil {
			api, err = parser.Parse(spec, parser.Settings{File: location.NewFile("root.json", "root.json", data)})
		}
		if err != nil {
			r.Violation(map[string]string{"class": "document-with-references-below-components-refused", "spelling": spelling}, len(data), map[string]any{"error": err.Error(), "document": string(data)})
			continue
		}
		byID := map[string]*openapi.Operation{}
		for _, op := range api.Operations {
			byID[op.OperationID] = op
		}
		for _, st := range sites {
			evals++
			want, found, _ := refPlain(st.plain, &root)
			if !found {
				vf.Fatal("docRefs: the reference evaluator finds no node for %q", st.plain)
			}
			op := byID[st.op]
			var got string
			if op != nil && op.RequestBody != nil {
				if m := op.RequestBody.Content["application/json"]; m != nil && m.Schema != nil {
					if pos, ok := m.Schema.Pointer.Position(); ok {
						got = fmt.Sprintf("%d:%d", pos.Line, pos.Column)
					}
				}
			}
			if exp := fmt.Sprintf("%d:%d", want.Line, want.Column); got != exp {
				r.Violation(map[string]string{"class": "reference-resolved-to-another-node-by-the-parser", "spelling": spelling}, len(st.ref),
					map[string]any{"reference": st.ref, "pointer": st.plain, "designated_node_at": exp, "resolved_schema_at": got, "document": trunc16(string(data), 3000)})
			}
		}
	}
	r.Eval(evals)
	r.NontrivialN(evals)
	r.Set("document_reference_sites", evals)
}

func sortTokens(p [][]string) {
	sort.Slice(p, func(i, j int) bool { return strings.Join(p[i], "\x00") < strings.Join(p[j], "\x00") })
}

func trunc16(s string, n int) string {
	if len(s) > n {
		return s[:n] + "..."
	}
	return s
}

func main() {
	r := vf.Start("C16", "exploration")
	if r.Replay != "" {
		var k kase
		r.ReplayCase(&k)
		if k.Doc == "" { // a case of the document-level sub-check: the one document is checked again
			docRefs(r)
			resolverSequences(r, r.Thorough())
			r.Finish("")
		}
		var root yaml.Node
		if err := yaml.Unmarshal([]byte(k.Doc), &root); err != nil {
			vf.Fatal("replay document: %v", err)
		}
		if cl, kk, _, _ := judge(k.Doc, &root, k.Pointer); cl != "" {
			fmt.Printf("replay: %s: %+v\n", cl, kk)
			r.Violation(map[string]string{"class": cl, "pointer": k.Pointer}, 0, kk)
		}
		r.Finish("")
	}

	depth, strLen, editMax := 3, 4, 10
	steps := []int{1, 5}
	if r.Thorough() {
		strLen, editMax = 5, 16
		steps = []int{1, 2, 5, 7, 11}
	}
	// ----- documents
	var docs []string
	rot := 0
	for _, step := range steps {
		for _, sh := range shapes(depth) {
			leaf := 0
			t := instantiate(sh, &rot, step, &leaf)
			var sb strings.Builder
			t.json(&sb)
			docs = append(docs, sb.String())
			if t.kind != 'l' {
				var yb strings.Builder
				t.yaml(&yb, "", true)
				docs = append(docs, yb.String())
				plainKeys = true
				var pb strings.Builder
				t.yaml(&pb, "", true)
				plainKeys = false
				if pb.String() != yb.String() {
					docs = append(docs, pb.String())
				}
			}
			rot++
		}
	}
	// every unordered pair of names as siblings, plus a nested twin for names containing '/'
	for i := range names {
		for j := i + 1; j < len(names); j++ {
			t := &tree{kind: 'o', keys: []string{names[i], names[j]}, kids: []*tree{{kind: 'l', leaf: 1}, {kind: 'a', kids: []*tree{{kind: 'l', leaf: 2}, {kind: 'l', leaf: 3}}}}}
			var sb strings.Builder
			t.json(&sb)
			docs = append(docs, sb.String())
			plainKeys = true
			var pb strings.Builder
			t.yaml(&pb, "", true)
			plainKeys = false
			docs = append(docs, pb.String())
		}
	}
	// YAML documents with anchors and aliases: a pointer walks through an alias as through the node it stands for
	docs = append(docs,
		"a: &x\n  b: 1\n  c: [10, 11]\nd: *x\ne:\n  f: *x\n",
		"- &y [1, 2, {k: 3}]\n- *y\n- z: *y\n",
		"s: &s text\nt: *s\nu: [*s, *s]\n",
	)
	docs = append(docs,
		`{"a":{"b":1},"a/b":2,"a~1b":3,"a~0b":4,"a~b":5}`,
		`{"":{"":{"":1}},"/":{"/":2}}`,
		`[0,[1,[2,{"a":[3]}]],{"0":"z","":{"":{"":1}}},[],{},null,"s",1,2,3,4,5]`,
		`{"0":{"0":[10,11,12,13,14,15,16,17,18,19,20,21]},"1":[[1,2],[3,4]]}`,
	)

	var allStrings []string
	cur := []string{""}
	for l := 0; l < strLen; l++ {
		var next []string
		for _, c := range cur {
			for _, a := range alphabet {
				next = append(next, c+a)
			}
		}
		allStrings = append(allStrings, next...)
		cur = next
	}

	type res struct{}
	jobs := make(chan int, 64)
	var wg sync.WaitGroup
	var mu sync.Mutex
	var lenientN, urlRefs, designated int64
	sampled := 0
	for w := 0; w < runtime.NumCPU(); w++ {
		wg.Add(1)
		go func() {
			defer wg.Done()
			for di := range jobs {
				doc := docs[di]
				var root yaml.Node
				if err := yaml.Unmarshal([]byte(doc), &root); err != nil {
					vf.Fatal("document %q does not parse: %v", doc, err)
				}
				var nodes []pathNode
				collect(&root, "", &nodes)
				cands := map[string]bool{}
				for _, pn := range nodes {
					p := pn.ptr
					// self-check of the harness: the reference designates exactly this node
					if n, ok, _ := refPlain(p, &root); !ok || n != pn.node {
						vf.Fatal("reference evaluator disagrees with construction: %q in %s", p, doc)
					}
					cands[p] = true
					cands["#"+p] = true
					cands["#"+(&url.URL{Path: p}).EscapedPath()] = true
					full := ""
					for _, c := range []byte(p) {
						if c == '/' {
							full += "/"
						} else {
							full += fmt.Sprintf("%%%02X", c)
						}
					}
					cands["#"+full] = true
					cands["#"+strings.ToLower(full)] = true
					if len(p) <= editMax {
						for i := 0; i <= len(p); i++ {
							if i < len(p) {
								cands[p[:i]+p[i+1:]] = true
							}
							for _, a := range alphabet {
								cands[p[:i]+a+p[i:]] = true
								if i < len(p) {
									cands[p[:i]+a+p[i+1:]] = true
								}
							}
						}
					}
				}
				if di%97 == 0 || di >= len(docs)-4 {
					for _, s := range allStrings {
						cands[s] = true
					}
				}
				var ln, ur, ds int64
				for p := range cands {
					cl, k, lenient, hit := judge(doc, &root, p)
					if lenient {
						ln++
					}
					if hit {
						ds++
					}
					if p != "" && p[0] != '/' && p[0] != '#' {
						ur++
					}
					if cl != "" {
						attrs := map[string]string{"class": cl, "pointer": p}
						if cl == "node-returned-where-rfc-has-none" {
							attrs["reason"] = reason(p)
							attrs["class"] = cl + "/" + attrs["reason"]
						}
						r.Violation(attrs, len(p)+len(doc), k)
					}
					r.Nontrivial(doc + "\x00" + p)
				}
				r.Eval(int64(len(cands)))
				mu.Lock()
				lenientN += ln
				urlRefs += ur
				designated += ds
				if sampled < 4 && len(nodes) > 3 {
					sampled++
					r.Sample(map[string]any{"document": doc, "pointer": nodes[len(nodes)-1].ptr, "designates": describe(nodes[len(nodes)-1].node)})
				}
				mu.Unlock()
			}
		}()
	}
	for i := range docs {
		jobs <- i
	}
	close(jobs)
	wg.Wait()

	// ----- index sweep: an index token is a decimal number without sign, blanks or leading zeros.
	// Every one-byte token (all 256 bytes) and every two-byte token over digits and 12 other bytes
	// is resolved against arrays of 0..300 elements in four positions (document root, under a member,
	// nested, under an escaped member name), in plain and fragment form (a seeded fast path for
	// one-byte tokens needed an array of more than 10 elements and a non-digit byte).
	{
		var tokens []string
		for b := 0; b < 256; b++ {
			tokens = append(tokens, string([]byte{byte(b)}))
		}
		two := "0123456789-+ :;aA.e~%/"
		for i := 0; i < len(two); i++ {
			for j := 0; j < len(two); j++ {
				tokens = append(tokens, two[i:i+1]+two[j:j+1])
			}
		}
		tokens = append(tokens, "", "100", "253", "254", "255", "256", "299", "300", "301", "0300", "1e2", "18446744073709551615", "18446744073709551616", "4294967296", "-1", "+10")
		var sweepN int64
		for _, n := range []int{0, 1, 2, 9, 10, 11, 12, 17, 18, 49, 50, 64, 100, 253, 254, 255, 256, 257, 300} {
			var arr strings.Builder
			arr.WriteByte('[')
			for i := 0; i < n; i++ {
				if i > 0 {
					arr.WriteByte(',')
				}
				fmt.Fprintf(&arr, "%d", 1000+i)
			}
			arr.WriteByte(']')
			for _, form := range []struct{ doc, prefix string }{{arr.String(), "/"}, {`{"a":` + arr.String() + `}`, "/a/"}, {`[[0],` + arr.String() + `]`, "/1/"}, {`{"x/y":` + arr.String() + `}`, "/x~1y/"}} {
				var root yaml.Node
				if err := yaml.Unmarshal([]byte(form.doc), &root); err != nil {
					vf.Fatal("index sweep document: %v", err)
				}
				for _, tok := range tokens {
					for _, p := range []string{form.prefix + tok, "#" + form.prefix + url.PathEscape(tok)} {
						if strings.ContainsAny(tok, "/~%") && p[0] == '/' {
							continue // these bytes are pointer syntax, not part of a token
						}
						if p[0] == '#' && strings.ContainsAny(tok, "/~") {
							continue
						}
						sweepN++
						cl, k, _, _ := judge(form.doc, &root, p)
						if cl != "" {
							if len(k.Doc) > 200 {
								k.Doc = k.Doc[:200] + fmt.Sprintf("... (array of %d elements)", n)
							}
							attrs := map[string]string{"class": cl, "pointer": p}
							if cl == "node-returned-where-rfc-has-none" {
								attrs["reason"] = reason(p)
								attrs["class"] = cl + "/" + attrs["reason"]
							}
							r.Violation(attrs, len(p)+n, k)
						}
					}
				}
			}
		}
		r.Eval(sweepN)
		r.NontrivialN(sweepN)
		r.Set("index_sweep_pairs", sweepN)
	}
	docRefs(r)
	resolverSequences(r, r.Thorough())
	r.Set("documents", len(docs))
	r.Set("outside_oracle_lenient_tilde", lenientN)
	r.Set("url_reference_strings", urlRefs)
	r.Set("pointers_designating_a_node", designated)
	r.Assume("oracle: the RFC 6901 evaluator in cmd/c16 (with its own percent-decoder); documents are parsed by go-faster/yaml, the parser ogen itself uses",
		"a '~' not followed by 0 or 1 is not a pointer under the RFC's ABNF; ogen's lenient resolution of it is outside the oracle and counted (outside_oracle_lenient_tilde)")
	r.Finish(fmt.Sprintf("documents: all tree shapes of depth <= %d (objects <= 2 members, arrays <= 3) with member names rotated through %d adversarial names under %d rotation steps, in JSON, YAML and plain-key YAML spelling (keys such as 200, 1e3, true, null, 2020-01-01 carry non-string tags), plus all %d sibling pairs of names; pointers: valid pointer to every node in plain / fragment (unescaped, minimal, full upper, full lower percent-encoding) form, every single-character deletion/insertion/substitution over %q for pointers <= %d bytes, and all strings <= %d over that alphabet on every 97th document. Document level: one OpenAPI document whose schema components nest schemas under names of other components; every pointer to every schema position below components/schemas is the $ref of a request body (fragment form, minimal and full percent-encoding) and the schema the parser resolves must sit at the designated node. distinct = (document, pointer) pair; all are non-trivial (each is compared by node identity with the reference).", depth, len(names), len(steps), len(names)*(len(names)-1)/2, alphabet, editMax, strLen))
}

// reason classifies why the reference has no node although ogen returned one (for known-finding
// matching by cause, not by input).
func reason(p string) string {
	q := p
	if strings.HasPrefix(q, "#") {
		if d, ok := pctDecode(q[1:]); ok {
			q = d
		}
	}
	for _, tok := range strings.Split(strings.TrimPrefix(q, "/"), "/") {
		if len(tok) > 1 && tok[0] == '0' && strings.Trim(tok, "0123456789") == "" {
			return "array-index-with-leading-zero"
		}
	}
	return "other"
}
