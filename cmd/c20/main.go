// C20 — failed generation leaves the target directory untouched; --clean removes only own files.
//
// Complete enumeration of: pre-write failure stage x target-directory state (all subsets of five
// state features, plus absent and empty) x --clean x relative/absolute target, each executed with
// the cmd/ogen binary built from the tree under check; oracle = recursive snapshot before/after.
package main

import (
	"crypto/sha256"
	"encoding/hex"
	"fmt"
	"os"
	"os/exec"
	"path/filepath"
	"regexp"
	"runtime"
	"sort"
	"strings"
	"sync"
	"sync/atomic"

	"verif/internal/regen"
	"verif/internal/vf"
)

const okSpec = "openapi: 3.0.3\ninfo: {title: t, version: \"1\"}\npaths:\n  /a:\n    get:\n      responses: {\"200\": {description: ok}}\n"

var fixtures = map[string]string{
	"ok.yml":                           okSpec,
	"bad_yaml.yml":                     "openapi: [\n",
	"bad_json.json":                    `{"openapi": "3.0.3", `,
	"invalid_spec.yml":                 "openapi: 3.0.3\ninfo: {title: t, version: \"1\"}\npaths:\n  a:\n    get:\n      responses: {\"200\": {description: ok}}\n",
	"dup_op.yml":                       "openapi: 3.0.3\ninfo: {title: t, version: \"1\"}\npaths:\n  /a:\n    get:\n      operationId: x\n      responses: {\"200\": {description: ok}}\n  /b:\n    get:\n      operationId: x\n      responses: {\"200\": {description: ok}}\n",
	"notimpl.yml":                      "openapi: 3.0.3\ninfo: {title: t, version: \"1\"}\npaths:\n  /a:\n    get:\n      parameters: [{name: q, in: query, style: spaceDelimited, schema: {type: array, items: {type: string}}}]\n      responses: {\"200\": {description: ok}}\n",
	"ir_err.yml":                       "openapi: 3.0.3\ninfo: {title: t, version: \"1\"}\npaths:\n  /a:\n    get:\n      parameters: [{name: q, in: query, schema: {type: integer, default: \"x\"}}]\n      responses: {\"200\": {description: ok}}\n",
	"route_conflict.yml":               "openapi: 3.0.3\ninfo: {title: t, version: \"1\"}\npaths:\n  /a/{x}{y}:\n    get:\n      parameters: [{name: x, in: path, required: true, schema: {type: string}},{name: y, in: path, required: true, schema: {type: string}}]\n      responses: {\"200\": {description: ok}}\n",
	"dangling_ref.yml":                 "openapi: 3.0.3\ninfo: {title: t, version: \"1\"}\npaths:\n  /a:\n    get:\n      responses: {\"200\": {$ref: '#/components/responses/Nope'}}\n",
	"refused_resp_form.yml":            "openapi: 3.0.3\ninfo: {title: t, version: \"1\"}\npaths:\n  /a:\n    post:\n      responses: {\"200\": {description: ok, content: {\"application/x-www-form-urlencoded\": {schema: {type: object, properties: {a: {type: string}}}}}}}\n",
	"refused_resp_form_param.yml":      "openapi: 3.0.3\ninfo: {title: t, version: \"1\"}\npaths:\n  /a:\n    post:\n      responses: {\"200\": {description: ok, content: {\"application/x-www-form-urlencoded; charset=utf-8\": {schema: {type: object, properties: {a: {type: string}}}}}}}\n",
	"refused_resp_form_case.yml":       "openapi: 3.0.3\ninfo: {title: t, version: \"1\"}\npaths:\n  /a:\n    post:\n      responses: {\"200\": {description: ok, content: {\"Multipart/Form-Data\": {schema: {type: object, properties: {a: {type: string}}}}}}}\n",
	"refused_resp_multipart_param.yml": "openapi: 3.0.3\ninfo: {title: t, version: \"1\"}\npaths:\n  /a:\n    post:\n      responses: {\"default\": {description: ok, content: {\"multipart/form-data; boundary=x\": {schema: {type: object, properties: {a: {type: string}}}}}}}\n",
	"refused_req_xml.yml":              "openapi: 3.0.3\ninfo: {title: t, version: \"1\"}\npaths:\n  /a:\n    post:\n      requestBody: {content: {\"application/xml\": {schema: {type: object, properties: {a: {type: string}}}}}}\n      responses: {\"200\": {description: ok}}\n",
	"refused_req_xml_param.yml":        "openapi: 3.0.3\ninfo: {title: t, version: \"1\"}\npaths:\n  /a:\n    post:\n      requestBody: {content: {\"Application/XML; charset=utf-8\": {schema: {type: object, properties: {a: {type: string}}}}}}\n      responses: {\"200\": {description: ok}}\n",
	"refused_resp_html_object.yml":     "openapi: 3.0.3\ninfo: {title: t, version: \"1\"}\npaths:\n  /a:\n    post:\n      responses: {\"200\": {description: ok, content: {\"text/html; charset=utf-8\": {schema: {type: object}}}}}\n",
	"refused_sum.yml":                  "openapi: 3.0.3\ninfo: {title: t, version: \"1\"}\npaths:\n  /a:\n    post:\n      requestBody: {content: {\"application/json\": {schema: {oneOf: [{type: object, properties: {a: {type: string}}}, {type: object, properties: {a: {type: string}}}]}}}}\n      responses: {\"200\": {description: ok}}\n",
	"refused_oidc.yml":                 "openapi: 3.0.3\ninfo: {title: t, version: \"1\"}\npaths:\n  /a:\n    post:\n      security: [{S: []}]\n      responses: {\"200\": {description: ok}}\ncomponents:\n  securitySchemes:\n    S: {type: openIdConnect, openIdConnectUrl: \"https://x/y\"}\n",
	"refused_cookie_object.yml":        "openapi: 3.0.3\ninfo: {title: t, version: \"1\"}\npaths:\n  /a:\n    post:\n      parameters: [{name: c, in: cookie, explode: true, schema: {type: object, properties: {a: {type: string}}}}]\n      responses: {\"200\": {description: ok}}\n",
	"cfg_bad_yaml.yml":                 "generator: [\n",
	"cfg_unknown_field.yml":            "nope: 1\n",
	"cfg_unknown_feature.yml":          "generator:\n  features:\n    enable: [\"nope\"]\n",
	"cfg_expand.yml":                   "expand: tgt/openapi_expanded_gen.yml\n",
	"cfg_ok.yml":                       "generator:\n  features:\n    disable_all: true\n    enable: [\"paths/client\"]\n",
}

type stage struct {
	Name string
	Args []string
	Want string // substring of the output that identifies the intended failure stage ("" = success)
}

var stages = []stage{
	{"unknown flag", []string{"--nope", "ok.yml"}, "flag provided but not defined"},
	{"missing spec argument", nil, "Usage: ogen"},
	{"package name with a hyphen", []string{"--package", "bad-name", "ok.yml"}, "package name"},
	{"package name is a keyword", []string{"--package", "func", "ok.yml"}, "package name"},
	{"package name starts with a digit", []string{"--package", "1api", "ok.yml"}, "package name"},
	{"package name is a path", []string{"--package", "a/b", "ok.yml"}, "package name"},
	{"IR build error, expanded spec asked into the target", []string{"--config", "cfg_expand.yml", "ir_err.yml"}, "default value is string"},
	{"route conflict, expanded spec asked into the target", []string{"--config", "cfg_expand.yml", "route_conflict.yml"}, "two parameters in a row"},
	{"config file missing", []string{"--config", "missing.yml", "ok.yml"}, "load config"},
	{"config is invalid YAML", []string{"--config", "cfg_bad_yaml.yml", "ok.yml"}, "load config"},
	{"config has unknown field", []string{"--config", "cfg_unknown_field.yml", "ok.yml"}, "not found in type"},
	{"config enables unknown feature", []string{"--config", "cfg_unknown_feature.yml", "ok.yml"}, "unknown feature"},
	{"spec file missing", []string{"missing.yml"}, "resolve spec"},
	{"spec is a directory", []string{"specdir.yml"}, "is a directory"},
	{"malformed YAML", []string{"bad_yaml.yml"}, "did not find expected node content"},
	{"malformed JSON", []string{"bad_json.json"}, "did not find expected node content"},
	{"invalid spec (path without slash)", []string{"invalid_spec.yml"}, "MUST begin with a forward slash"},
	{"invalid spec (duplicate operationId)", []string{"dup_op.yml"}, "duplicate operationId"},
	{"invalid spec (dangling $ref)", []string{"dangling_ref.yml"}, "Nope"},
	{"not implemented feature", []string{"notimpl.yml"}, "is not implemented yet"},
	// documents the generator refuses as not implemented / not generatable, the same construct in
	// several spellings of its media type (canonical, with a parameter, in another letter case): the
	// refusal has to come before anything is written whichever way the document spells it
	{"refused: response with form content only", []string{"refused_resp_form.yml"}, "unsupported content types"},
	{"refused: response with form content only (media type with a parameter)", []string{"refused_resp_form_param.yml"}, "unsupported content types"},
	{"refused: response with form content only (media type in another case)", []string{"refused_resp_form_case.yml"}, "unsupported content types"},
	{"refused: default response with multipart content only (boundary parameter)", []string{"refused_resp_multipart_param.yml"}, "unsupported content types"},
	{"refused: request body of an unsupported media type", []string{"refused_req_xml.yml"}, "unsupported content types"},
	{"refused: request body of an unsupported media type (parameter, case)", []string{"refused_req_xml_param.yml"}, "unsupported content types"},
	{"refused: object as text/html response", []string{"refused_resp_html_object.yml"}, "unsupported content types"},
	{"refused: sum without discriminating members", []string{"refused_sum.yml"}, "failed to infer fields discriminator"},
	{"refused: openIdConnect security", []string{"refused_oidc.yml"}, "openIdConnect security"},
	{"refused: exploded object cookie parameter", []string{"refused_cookie_object.yml"}, "style:explode combination"},
	{"IR build error", []string{"ir_err.yml"}, "default value is string"},
	{"route conflict", []string{"route_conflict.yml"}, "two parameters in a row"},
	{"none (success)", []string{"ok.yml"}, ""},
	{"none (success, config)", []string{"--config", "cfg_ok.yml", "ok.yml"}, ""},
}

// state features of the target directory; a state is "absent", "empty" or any subset of these
var features = []string{"previous", "user", "nested", "symlink", "readonly"}

var otherStage int64

var genName = regexp.MustCompile(`^(oas|openapi).*_gen(_test)?\.go$`)

type snapEntry struct {
	Kind string
	Mode string
	Sum  string
}

func snap(dir string) map[string]snapEntry {
	if _, err := os.Lstat(dir); err != nil {
		return nil
	}
	out := map[string]snapEntry{}
	_ = filepath.Walk(dir, func(p string, info os.FileInfo, err error) error {
		if err != nil || p == dir {
			return nil
		}
		rel, _ := filepath.Rel(dir, p)
		switch {
		case info.Mode()&os.ModeSymlink != 0:
			t, _ := os.Readlink(p)
			out[rel] = snapEntry{"link", "", t}
		case info.IsDir():
			out[rel] = snapEntry{"dir", info.Mode().Perm().String(), ""}
		default:
			b, _ := os.ReadFile(p)
			h := sha256.Sum256(b)
			out[rel] = snapEntry{"file", info.Mode().Perm().String(), hex.EncodeToString(h[:8])}
		}
		return nil
	})
	return out
}

func mkState(ogen, w, dir string, state []string) {
	_ = os.Chmod(filepath.Join(dir, "oas_ro_gen.go"), 0o644)
	_ = os.RemoveAll(dir)
	if len(state) == 1 && state[0] == "absent" {
		return
	}
	_ = os.MkdirAll(dir, 0o755)
	for _, f := range state {
		switch f {
		case "previous":
			cmd := exec.Command(ogen, "--target", dir, filepath.Join(w, "ok.yml"))
			cmd.Dir = w
			if b, err := cmd.CombinedOutput(); err != nil {
				vf.Fatal("cannot build the 'previous generation' state: %v\n%s", err, b)
			}
			_ = os.WriteFile(filepath.Join(dir, "oas_stale_gen.go"), []byte("package api\n"), 0o644)
			_ = os.WriteFile(filepath.Join(dir, "openapi_stale_gen_test.go"), []byte("package api\n"), 0o644)
		case "user":
			for _, n := range []string{"oas_notes.txt", "myoas_x_gen.go", "oas_x_gen.go.bak", "openapi.yaml", "Oas_x_gen.go", "main.go", "oas_gen.go.txt", "oasx_gen_test.go.orig", "x_oas_y_gen.go"} {
				_ = os.WriteFile(filepath.Join(dir, n), []byte("user "+n), 0o644)
			}
		case "nested":
			_ = os.MkdirAll(filepath.Join(dir, "oas_dir_gen.go"), 0o755)
			_ = os.WriteFile(filepath.Join(dir, "oas_dir_gen.go", "oas_inner_gen.go"), []byte("inner"), 0o644)
			_ = os.MkdirAll(filepath.Join(dir, "sub"), 0o755)
			_ = os.WriteFile(filepath.Join(dir, "sub", "oas_deep_gen.go"), []byte("deep"), 0o644)
		case "symlink":
			_ = os.WriteFile(filepath.Join(dir, "linked_user_file.go"), []byte("package api // user"), 0o644)
			_ = os.Symlink("linked_user_file.go", filepath.Join(dir, "notes_link.go"))
		case "readonly":
			_ = os.WriteFile(filepath.Join(dir, "oas_ro_gen.go"), []byte("package api\n"), 0o644)
			_ = os.Chmod(filepath.Join(dir, "oas_ro_gen.go"), 0o444)
		}
	}
}

type kase struct {
	Stage    string   `json:"stage"`
	State    []string `json:"target_state"`
	Clean    bool     `json:"clean"`
	Absolute bool     `json:"absolute_target"`
	Exit     int      `json:"exit_code"`
	Problems []string `json:"problems"`
	Output   string   `json:"output_tail"`
}

func diffSnap(before, after map[string]snapEntry) (removed, changed, created []string) {
	for k, b := range before {
		a, ok := after[k]
		if !ok {
			removed = append(removed, k)
		} else if a != b {
			changed = append(changed, k)
		}
	}
	for k := range after {
		if _, ok := before[k]; !ok {
			created = append(created, k)
		}
	}
	sort.Strings(removed)
	sort.Strings(changed)
	sort.Strings(created)
	return
}

func topLevelGen(rel string) bool { return !strings.Contains(rel, "/") && genName.MatchString(rel) }

func runCase(r *vf.Run, ogen, w string, st stage, state []string, clean, abs bool) {
	dir := filepath.Join(w, "tgt")
	mkState(ogen, w, dir, state)
	before := snap(dir)
	cwdBefore := snap(w)
	args := []string{}
	if clean {
		args = append(args, "--clean")
	}
	tgt := "tgt"
	if abs {
		tgt = dir
	}
	args = append(args, "--target", tgt)
	args = append(args, st.Args...)
	cmd := exec.Command(ogen, args...)
	cmd.Dir = w
	outb, err := cmd.CombinedOutput()
	exit := 0
	if err != nil {
		exit = 1
		if ee, ok := err.(*exec.ExitError); ok {
			exit = ee.ExitCode()
		}
	}
	after := snap(dir)
	removed, changed, created := diffSnap(before, after)
	k := kase{Stage: st.Name, State: state, Clean: clean, Absolute: abs, Exit: exit, Output: lastN(string(outb), 400)}
	class := ""
	if st.Want != "" {
		switch {
		case exit == 0:
			// the property demands a non-zero exit for these inputs
			class = "failing-input-exits-zero"
			k.Problems = append(k.Problems, "the command exited 0 on an input that cannot be generated")
		case !strings.Contains(string(outb), st.Want):
			// failed, but not with the diagnostic this fixture was written for: the target must be untouched all the same
			atomic.AddInt64(&otherStage, 1)
		}
		if class == "" && ((before == nil) != (after == nil) || len(removed)+len(changed)+len(created) > 0) {
			class = "target-changed-by-failed-generation"
			if after != nil && before == nil {
				k.Problems = append(k.Problems, "absent target directory was created")
			}
			k.Problems = append(k.Problems, fmt.Sprintf("removed=%v changed=%v created=%v", removed, changed, created))
		}
	} else {
		if exit != 0 {
			// a read-only generated file may legitimately make writing fail; nothing else may
			if !contains(state, "readonly") {
				k.Problems = append(k.Problems, "a valid input failed to generate into this target state (exit "+fmt.Sprint(exit)+")")
			}
		}
		for _, n := range removed {
			switch {
			case !clean:
				k.Problems = append(k.Problems, "removed without --clean: "+n)
			case !topLevelGen(n) || before[n].Kind == "dir":
				k.Problems = append(k.Problems, "--clean removed a file that is not the generator's: "+n)
			}
		}
		for _, n := range changed {
			if !topLevelGen(n) {
				k.Problems = append(k.Problems, "user file or sub-directory changed: "+n)
			}
		}
		for _, n := range created {
			if !topLevelGen(n) {
				k.Problems = append(k.Problems, "created a file outside the generator's naming pattern: "+n)
			}
		}
		if clean && exit == 0 {
			for n, e := range before {
				if topLevelGen(n) && e.Kind != "dir" && strings.Contains(n, "stale") {
					if _, still := after[n]; still {
						k.Problems = append(k.Problems, "--clean left a stale generated file: "+n)
					}
				}
			}
		}
		if len(k.Problems) > 0 {
			class = "success-run-touched-foreign-files"
		}
	}
	// the working directory outside the target is never touched
	cwdAfter := snap(w)
	strip := func(m map[string]snapEntry) map[string]snapEntry {
		o := map[string]snapEntry{}
		for k, v := range m {
			if k != "tgt" && !strings.HasPrefix(k, "tgt/") {
				o[k] = v
			}
		}
		return o
	}
	if rm, ch, cr := diffSnap(strip(cwdBefore), strip(cwdAfter)); len(rm)+len(ch)+len(cr) > 0 {
		class = "working-directory-changed"
		k.Problems = append(k.Problems, fmt.Sprintf("cwd: removed=%v changed=%v created=%v", rm, ch, cr))
	}
	r.Eval(1)
	r.Nontrivial(fmt.Sprint(st.Name, state, clean, abs))
	if class != "" {
		r.Violation(map[string]string{"class": class, "stage": st.Name, "clean": fmt.Sprint(clean)}, len(state)*10+len(st.Name), k)
	}
}

func contains(l []string, s string) bool {
	for _, x := range l {
		if x == s {
			return true
		}
	}
	return false
}

func lastN(s string, n int) string {
	if len(s) > n {
		return "..." + s[len(s)-n:]
	}
	return s
}

func main() {
	r := vf.Start("C20", "fault_enumeration")
	sc := regen.NewScratch(r)
	defer sc.Close()
	ogen := sc.Path("ogen.bin")
	cmd := exec.Command("go", "build", "-o", ogen, "./cmd/ogen")
	cmd.Dir = r.Repo
	cmd.Env = append(os.Environ(), "GOFLAGS=-mod=mod", "GOPROXY=off", "GOSUMDB=off", "GOTOOLCHAIN=local")
	if b, err := cmd.CombinedOutput(); err != nil {
		vf.Fatal("go build ./cmd/ogen: %v\n%s", err, b)
	}
	var states [][]string
	states = append(states, []string{"absent"}, []string{})
	for mask := 1; mask < 1<<len(features); mask++ {
		var s []string
		for i, f := range features {
			if mask&(1<<i) != 0 {
				s = append(s, f)
			}
		}
		if !r.Thorough() && len(s) > 2 && len(s) < len(features) {
			continue // quick: single features, all pairs, and all five together
		}
		states = append(states, s)
	}
	type job struct {
		st    stage
		state []string
		clean bool
		abs   bool
	}
	var jobs []job
	for _, st := range stages {
		for _, s := range states {
			for _, c := range []bool{false, true} {
				for _, a := range []bool{false, true} {
					jobs = append(jobs, job{st, s, c, a})
				}
			}
		}
	}
	ch := make(chan job, len(jobs))
	var wg sync.WaitGroup
	for wi := 0; wi < runtime.NumCPU(); wi++ {
		wg.Add(1)
		w := sc.Path(fmt.Sprintf("w%d", wi))
		_ = os.MkdirAll(filepath.Join(w, "specdir.yml"), 0o755)
		for n, c := range fixtures {
			_ = os.WriteFile(filepath.Join(w, n), []byte(c), 0o644)
		}
		go func() {
			defer wg.Done()
			for j := range ch {
				runCase(r, ogen, w, j.st, j.state, j.clean, j.abs)
			}
			_ = os.Chmod(filepath.Join(w, "tgt", "oas_ro_gen.go"), 0o644)
		}()
	}
	for _, j := range jobs {
		ch <- j
	}
	close(ch)
	wg.Wait()
	r.Set("stages", len(stages))
	r.Set("failure_runs_with_another_diagnostic_than_the_fixture_expects", otherStage)
	r.Set("target_states", len(states))
	r.Sample(map[string]any{"stage": "malformed YAML", "target_state": []string{"previous", "user", "nested"}, "clean": true, "absolute_target": false})
	r.Sample(map[string]any{"stage": "none (success)", "target_state": []string{"user", "symlink", "readonly"}, "clean": true, "absolute_target": true})
	r.Assume("every failure fixture is verified on every run to fail at its intended stage (recognised by the error text); a fixture that generates is a harness error, not a verdict",
		"the process runs as root in this sandbox, so a read-only generated file does not make writing fail; the readonly state still checks that nothing else is touched")
	r.Finish(fmt.Sprintf("complete product: %d stages (16 pre-write failure stages: flags, config, spec read, YAML/JSON syntax, spec validation, dangling $ref, not-implemented, IR build, route build; 2 successful runs) x %d target states (absent, empty, subsets of {previous generation + stale generated files, user files with look-alike names, sub-directories with generated-looking names, symlink, read-only generated file}: quick = singles, pairs and all five; thorough = all 31 subsets) x --clean on/off x relative/absolute target, each run with the cmd/ogen built from the working tree. Oracle: recursive snapshot (names, modes, SHA-256, link targets) of the target and of the working directory before and after. Each combination is distinct and executes the binary (non-trivial).", len(stages), len(states)))
}
