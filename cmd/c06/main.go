// C06 — parameter serialization follows the OpenAPI style table and is lossless.
//
// Cells: every (location, style, explode, shape) that the real parser + generator admit (decided
// at run time by generating one spec per candidate combination). Values: bounded-exhaustive
// strings over an alphabet with every delimiter, escape and reserved byte. Pipeline: exactly the
// generated code's (Encoder callbacks -> wire -> net/http, net/url -> Decoder callbacks).
// Oracle: reference serializer written from the style table (RFC 6570 forms) + round-trip.
package main

import (
	"context"
	"encoding/json"
	"fmt"
	"net/http"
	"net/url"
	"os"
	"path/filepath"
	"reflect"
	"runtime"
	"sort"
	"strings"
	"sync"

	"github.com/ogen-go/ogen"
	"github.com/ogen-go/ogen/gen"
	"github.com/ogen-go/ogen/uri"

	"verif/internal/vf"
)

type cell struct {
	Loc     string `json:"in"`
	Style   string `json:"style"`
	Explode bool   `json:"explode"`
	Shape   string `json:"shape"` // prim, array, object
}

func (c cell) String() string {
	return fmt.Sprintf("%s/%s/explode=%v/%s", c.Loc, c.Style, c.Explode, c.Shape)
}

type value struct {
	Prim   string      `json:"prim,omitempty"`
	Items  []string    `json:"items,omitempty"`
	Fields []uri.Field `json:"fields,omitempty"`
}

// ---------- which cells does ogen admit? (real parser + generator) ----------

func specFor(c cell) string {
	schema := map[string]string{
		"prim":   `{"type":"string"}`,
		"array":  `{"type":"array","items":{"type":"string"}}`,
		"object": `{"type":"object","properties":{"a":{"type":"string"},"b":{"type":"string"}}}`,
	}[c.Shape]
	path := "/x"
	req := "false"
	if c.Loc == "path" {
		path = "/x/{p}"
		req = "true"
	}
	return fmt.Sprintf(`{"openapi":"3.0.3","info":{"title":"t","version":"1"},"paths":{%q:{"get":{"operationId":"op",
"parameters":[{"name":"p","in":%q,"required":%s,"style":%q,"explode":%v,"schema":%s}],
"responses":{"200":{"description":"ok"}}}}}}`, path, c.Loc, req, c.Style, c.Explode, schema)
}

func admitted(c cell) (ok bool, why string) {
	defer func() {
		if r := recover(); r != nil {
			ok, why = false, fmt.Sprint("panic: ", r)
		}
	}()
	spec, err := ogen.Parse([]byte(specFor(c)))
	if err != nil {
		return false, err.Error()
	}
	_, err = gen.NewGenerator(spec, gen.Options{})
	if err != nil {
		return false, err.Error()
	}
	return true, ""
}

// specPair is a document with two parameters that share one component schema: first of cell c1,
// then of cell c2, in one operation (layout 0), with c1 at path level (1), in an earlier path (2) or
// as a component parameter (3).
func specPair(c1, c2 cell, layout int) string {
	schema := map[string]string{
		"prim":   `{"type":"string"}`,
		"array":  `{"type":"array","items":{"type":"string"}}`,
		"object": `{"type":"object","properties":{"a":{"type":"string"},"b":{"type":"string"}}}`,
	}[c1.Shape]
	param := func(name string, c cell) string {
		req := "false"
		if c.Loc == "path" {
			req = "true"
		}
		return fmt.Sprintf(`{"name":%q,"in":%q,"required":%s,"style":%q,"explode":%v,"schema":{"$ref":"#/components/schemas/S"}}`, name, c.Loc, req, c.Style, c.Explode)
	}
	seg := func(name string, c cell) string {
		if c.Loc == "path" {
			return "/{" + name + "}"
		}
		return ""
	}
	op := func(id, params string) string {
		return fmt.Sprintf(`{"operationId":%q,"parameters":[%s],"responses":{"200":{"description":"ok"}}}`, id, params)
	}
	var paths, comps string
	switch layout {
	case 0:
		paths = fmt.Sprintf(`%q:{"get":%s}`, "/x"+seg("p1", c1)+seg("p2", c2), op("op", param("p1", c1)+","+param("p2", c2)))
	case 1:
		paths = fmt.Sprintf(`%q:{"parameters":[%s],"get":%s}`, "/x"+seg("p1", c1)+seg("p2", c2), param("p1", c1), op("op", param("p2", c2)))
	case 2:
		paths = fmt.Sprintf(`%q:{"get":%s},%q:{"get":%s}`, "/a"+seg("p1", c1), op("op1", param("p1", c1)), "/b"+seg("p2", c2), op("op2", param("p2", c2)))
	default:
		comps = `,"parameters":{"P1":` + param("p1", c1) + `}`
		paths = fmt.Sprintf(`%q:{"get":%s}`, "/x"+seg("p1", c1)+seg("p2", c2), op("op", `{"$ref":"#/components/parameters/P1"},`+param("p2", c2)))
	}
	return fmt.Sprintf(`{"openapi":"3.0.3","info":{"title":"t","version":"1"},"paths":{%s},"components":{"schemas":{"S":%s}%s}}`, paths, schema, comps)
}

func admittedDoc(doc string) (ok bool) {
	defer func() {
		if r := recover(); r != nil {
			ok = false
		}
	}()
	spec, err := ogen.Parse([]byte(doc))
	if err != nil {
		return false
	}
	_, err = gen.NewGenerator(spec, gen.Options{})
	return err == nil
}

// ---------- driving the uri package the way generated code does ----------

func encodeInto(e uri.Encoder, c cell, v value) error {
	switch c.Shape {
	case "prim":
		return e.EncodeValue(v.Prim)
	case "array":
		return e.EncodeArray(func(e uri.Encoder) error {
			for _, it := range v.Items {
				if err := e.EncodeValue(it); err != nil {
					return err
				}
			}
			return nil
		})
	default:
		for _, f := range v.Fields {
			f := f
			if err := e.EncodeField(f.Name, func(e uri.Encoder) error { return e.EncodeValue(f.Value) }); err != nil {
				return err
			}
		}
		return nil
	}
}

func decodeFrom(d uri.Decoder, c cell) (value, error) {
	var out value
	switch c.Shape {
	case "prim":
		s, err := d.DecodeValue()
		out.Prim = s
		return out, err
	case "array":
		out.Items = []string{}
		err := d.DecodeArray(func(d uri.Decoder) error {
			s, err := d.DecodeValue()
			if err != nil {
				return err
			}
			out.Items = append(out.Items, s)
			return nil
		})
		return out, err
	default:
		out.Fields = []uri.Field{}
		err := d.DecodeFields(func(name string, d uri.Decoder) error {
			s, err := d.DecodeValue()
			if err != nil {
				return err
			}
			out.Fields = append(out.Fields, uri.Field{Name: name, Value: s})
			return nil
		})
		return out, err
	}
}

var fieldNames = []string{"a", "b", "", "a,b", "a=b", "a.b", "a;b", "é"}

type wire struct {
	Text   string     // path: raw (escaped) segment; header: value; cookie: Cookie header
	Query  url.Values // query
	Absent bool       // the server sees no parameter at all
}

const pname = "p"

func roundTrip(c cell, v value) (w wire, got value, encErr, decErr error, pan any) {
	defer func() {
		if r := recover(); r != nil {
			pan = r
		}
	}()
	switch c.Loc {
	case "path":
		e := uri.NewPathEncoder(uri.PathEncoderConfig{Param: pname, Style: uri.PathStyle(c.Style), Explode: c.Explode})
		if encErr = encodeInto(e, c, v); encErr != nil {
			return
		}
		w.Text, encErr = e.Result()
		if encErr != nil {
			return
		}
		un, err := url.PathUnescape(w.Text)
		if err != nil {
			decErr = err
			return
		}
		if len(un) == 0 {
			// an empty path segment never reaches a path parameter (router: no match)
			w.Absent = true
			decErr = fmt.Errorf("empty path segment")
			return
		}
		d := uri.NewPathDecoder(uri.PathDecoderConfig{Param: pname, Value: un, Style: uri.PathStyle(c.Style), Explode: c.Explode})
		got, decErr = decodeFrom(d, c)
	case "query":
		q := uri.NewQueryEncoder()
		encErr = q.EncodeParam(uri.QueryParameterEncodingConfig{Name: pname, Style: uri.QueryStyle(c.Style), Explode: c.Explode}, func(e uri.Encoder) error { return encodeInto(e, c, v) })
		if encErr != nil {
			return
		}
		raw := q.Values().Encode()
		vals, err := url.ParseQuery(raw)
		if err != nil {
			decErr = err
			return
		}
		w.Query = vals
		w.Text = raw
		cfg := uri.QueryParameterDecodingConfig{Name: pname, Style: uri.QueryStyle(c.Style), Explode: c.Explode}
		if c.Shape == "object" {
			for _, f := range fieldNames {
				cfg.Fields = append(cfg.Fields, uri.QueryParameterObjectField{Name: f})
			}
		}
		d := uri.NewQueryDecoder(vals)
		if err := d.HasParam(cfg); err != nil {
			w.Absent = true
			decErr = err
			return
		}
		decErr = d.DecodeParam(cfg, func(d uri.Decoder) error {
			var err error
			got, err = decodeFrom(d, c)
			return err
		})
	case "header":
		h := http.Header{}
		e := uri.NewHeaderEncoder(h)
		encErr = e.EncodeParam(uri.HeaderParameterEncodingConfig{Name: pname, Explode: c.Explode}, func(e uri.Encoder) error { return encodeInto(e, c, v) })
		if encErr != nil {
			return
		}
		w.Text = strings.Join(h.Values(pname), "\x00")
		d := uri.NewHeaderDecoder(h)
		cfg := uri.HeaderParameterDecodingConfig{Name: pname, Explode: c.Explode}
		if err := d.HasParam(cfg); err != nil {
			w.Absent = true
			decErr = err
			return
		}
		decErr = d.DecodeParam(cfg, func(d uri.Decoder) error {
			var err error
			got, err = decodeFrom(d, c)
			return err
		})
	case "cookie":
		req, _ := http.NewRequestWithContext(context.Background(), "GET", "http://x/", nil)
		e := uri.NewCookieEncoder(req)
		encErr = e.EncodeParam(uri.CookieParameterEncodingConfig{Name: pname, Explode: c.Explode}, func(e uri.Encoder) error { return encodeInto(e, c, v) })
		if encErr != nil {
			return
		}
		w.Text = req.Header.Get("Cookie")
		req2, _ := http.NewRequestWithContext(context.Background(), "GET", "http://x/", nil)
		if w.Text != "" {
			req2.Header.Set("Cookie", w.Text)
		}
		d := uri.NewCookieDecoder(req2)
		cfg := uri.CookieParameterDecodingConfig{Name: pname, Explode: c.Explode}
		if err := d.HasParam(cfg); err != nil {
			w.Absent = true
			decErr = err
			return
		}
		decErr = d.DecodeParam(cfg, func(d uri.Decoder) error {
			var err error
			got, err = decodeFrom(d, c)
			return err
		})
	default:
		panic("harness: unknown location " + c.Loc)
	}
	return
}

// ---------- reference serializer (OpenAPI style table / RFC 6570), unescaped forms ----------

func join(v value, c cell, itemSep, kvSep, fieldSep string) string {
	switch c.Shape {
	case "prim":
		return v.Prim
	case "array":
		return strings.Join(v.Items, itemSep)
	default:
		var parts []string
		for _, f := range v.Fields {
			parts = append(parts, f.Name+kvSep+f.Value)
		}
		return strings.Join(parts, fieldSep)
	}
}

// refWire returns the unescaped text (path, header, cookie value) or the query multimap.
func refWire(c cell, v value) (text string, q url.Values, ok bool) {
	switch c.Loc {
	case "path":
		switch c.Style {
		case "simple":
			if c.Explode {
				return join(v, c, ",", "=", ","), nil, true
			}
			return join(v, c, ",", ",", ","), nil, true
		case "label":
			if c.Explode {
				return "." + join(v, c, ".", "=", "."), nil, true
			}
			return "." + join(v, c, ",", ",", ","), nil, true
		case "matrix":
			if !c.Explode || c.Shape == "prim" {
				return ";" + pname + "=" + join(v, c, ",", ",", ","), nil, true
			}
			if c.Shape == "array" {
				var parts []string
				for _, it := range v.Items {
					parts = append(parts, ";"+pname+"="+it)
				}
				return strings.Join(parts, ""), nil, true
			}
			return ";" + join(v, c, "", "=", ";"), nil, true
		}
	case "header":
		if c.Style == "simple" {
			if c.Explode {
				return join(v, c, ",", "=", ","), nil, true
			}
			return join(v, c, ",", ",", ","), nil, true
		}
	case "cookie":
		if c.Style == "form" && (!c.Explode || c.Shape == "prim") {
			return join(v, c, ",", ",", ","), nil, true
		}
	case "query":
		q = url.Values{}
		switch {
		case c.Style == "deepObject" && c.Shape == "object" && c.Explode:
			for _, f := range v.Fields {
				q.Add(pname+"["+f.Name+"]", f.Value)
			}
			return "", q, true
		case (c.Style == "form" || c.Style == "pipeDelimited") && c.Explode && c.Shape == "array":
			for _, it := range v.Items {
				q.Add(pname, it)
			}
			return "", q, true
		case c.Style == "form" && c.Explode && c.Shape == "object":
			for _, f := range v.Fields {
				q.Add(f.Name, f.Value)
			}
			return "", q, true
		case c.Style == "form":
			q.Add(pname, join(v, c, ",", ",", ","))
			return "", q, true
		case c.Style == "pipeDelimited" && c.Shape == "array":
			q.Add(pname, strings.Join(v.Items, "|"))
			return "", q, true
		}
	}
	return "", nil, false
}

// activeDelims: characters that make a component ambiguous in the cell's serialization.
func ambiguous(c cell, v value) bool {
	var itemSep, kvSep, fieldSep string
	switch {
	case c.Loc == "query" && c.Style == "deepObject":
		// name is bracketed, value is a separate query value: nothing is ambiguous except ']'/'[' in names
		for _, f := range v.Fields {
			if strings.ContainsAny(f.Name, "[]") {
				return true
			}
		}
		return false
	case c.Loc == "query" && c.Explode:
		return false // every item/field is its own query pair
	case c.Loc == "query" && c.Style == "pipeDelimited":
		itemSep = "|"
	case c.Loc == "path" && c.Style == "label" && c.Explode:
		itemSep, kvSep, fieldSep = ".", "=", "."
	case c.Loc == "path" && c.Style == "matrix" && c.Explode:
		itemSep, kvSep, fieldSep = ";", "=", ";"
	case c.Explode:
		itemSep, kvSep, fieldSep = ",", "=", ","
	default:
		itemSep, kvSep, fieldSep = ",", ",", ","
	}
	switch c.Shape {
	case "array":
		for _, it := range v.Items {
			if strings.Contains(it, itemSep) {
				return true
			}
		}
	case "object":
		for _, f := range v.Fields {
			if strings.Contains(f.Name, kvSep) || strings.Contains(f.Name, fieldSep) || strings.Contains(f.Value, fieldSep) {
				return true
			}
		}
	}
	return false
}

func isCore(c cell, v value) bool {
	chk := func(s string) bool {
		return s != "" && !strings.ContainsAny(s, ",.;=|[]") && strings.TrimSpace(s) == s
	}
	switch c.Shape {
	case "prim":
		return v.Prim != "" && strings.TrimSpace(v.Prim) == v.Prim
	case "array":
		if len(v.Items) == 0 {
			return false
		}
		for _, it := range v.Items {
			if !chk(it) {
				return false
			}
		}
		return true
	default:
		if len(v.Fields) == 0 {
			return false
		}
		seen := map[string]bool{}
		for _, f := range v.Fields {
			if !chk(f.Name) || !chk(f.Value) || seen[f.Name] || f.Name == pname {
				return false
			}
			seen[f.Name] = true
		}
		return true
	}
}

func strs(alpha []string, n int) []string {
	out := []string{""}
	prev := []string{""}
	for i := 0; i < n; i++ {
		var next []string
		for _, p := range prev {
			for _, a := range alpha {
				next = append(next, p+a)
			}
		}
		out = append(out, next...)
		prev = next
	}
	return out
}

var (
	ambMu       sync.Mutex
	ambAccepted = map[string]int{}
	ambSample   = map[string]string{}
)

type kase struct {
	Cell     cell   `json:"cell"`
	Value    value  `json:"value"`
	Wire     string `json:"wire"`
	Expected string `json:"reference_wire,omitempty"`
	Got      value  `json:"decoded"`
	EncErr   string `json:"encoder_error,omitempty"`
	DecErr   string `json:"decoder_error,omitempty"`
	Panic    string `json:"panic,omitempty"`
}

// shapeSig abstracts a value to what matters for serialization: per item / field name / field value
// E = empty, d = contains a delimiter character or an edge blank, x = plain text.
var (
	baselineMu sync.Mutex
	baseline   = map[string]bool{}
)

func shapeSig(c cell, v value) string {
	one := func(s string) string {
		switch {
		case s == "":
			return "E"
		case strings.ContainsAny(s, ",.;=|[]") || strings.TrimSpace(s) != s:
			return "d"
		}
		return "x"
	}
	switch c.Shape {
	case "prim":
		return one(v.Prim)
	case "array":
		var sb strings.Builder
		for _, it := range v.Items {
			sb.WriteString(one(it))
		}
		return "[" + sb.String() + "]"
	default:
		var parts []string
		for _, f := range v.Fields {
			parts = append(parts, one(f.Name)+"="+one(f.Value))
		}
		return "{" + strings.Join(parts, " ") + "}"
	}
}

func valueClass(c cell, v value) string {
	switch c.Shape {
	case "array":
		if len(v.Items) == 0 {
			return "empty-array"
		}
		all := true
		for _, it := range v.Items {
			if it != "" {
				all = false
			}
		}
		if all && len(v.Items) == 1 {
			return "array-of-one-empty-string"
		}
		if all {
			return "array-of-empty-strings"
		}
		if v.Items[len(v.Items)-1] == "" || v.Items[0] == "" {
			return "array-with-empty-edge-item"
		}
	case "object":
		if len(v.Fields) == 0 {
			return "empty-object"
		}
	case "prim":
		if v.Prim == "" {
			return "empty-string"
		}
	}
	return "other"
}

func judge(r *vf.Run, c cell, v value) (nontrivial bool) {
	w, got, encErr, decErr, pan := roundTrip(c, v)
	core := isCore(c, v)
	k := kase{Cell: c, Value: v, Wire: w.Text, Got: got}
	if encErr != nil {
		k.EncErr = encErr.Error()
	}
	if decErr != nil {
		k.DecErr = decErr.Error()
	}
	attrs := func(class string) map[string]string {
		return map[string]string{"class": class + "/" + c.String(), "kind": class, "cell": c.String(), "in": c.Loc, "style": c.Style,
			"explode": fmt.Sprint(c.Explode), "shape": c.Shape, "value_class": valueClass(c, v)}
	}
	size := len(fmt.Sprint(v))
	amb := ambiguous(c, v)
	switch {
	case pan != nil:
		k.Panic = fmt.Sprint(pan)
		r.Violation(attrs("panic"), size, k)
		return true
	case encErr != nil:
		if core {
			r.Violation(attrs("core-value-refused-by-encoder"), size, k)
		}
		return amb
	}
	if amb {
		ambMu.Lock()
		ambAccepted[c.String()]++
		if _, ok := ambSample[c.String()]; !ok {
			ambSample[c.String()] = fmt.Sprintf("%+v -> %q dec=%+v err=%v", v, w.Text, got, decErr)
		}
		ambMu.Unlock()
		r.Violation(attrs("ambiguous-value-accepted-by-encoder"), size, k)
	}
	// encoder accepted: wire form must be the reference serialization for core values
	if core {
		text, q, ok := refWire(c, v)
		if !ok {
			r.Violation(attrs("admitted-cell-unknown-to-the-style-table"), size, k)
			return true
		}
		var have string
		switch c.Loc {
		case "path":
			have, _ = url.PathUnescape(w.Text)
		case "header":
			have = w.Text
		case "cookie":
			// "p=<escaped>": reference unescape (percent-decoding of the escaped bytes)
			have = strings.TrimPrefix(w.Text, pname+"=")
			if u, err := url.PathUnescape(have); err == nil {
				have = u
			}
		case "query":
			if !reflect.DeepEqual(map[string][]string(w.Query), map[string][]string(q)) {
				k.Expected = q.Encode()
				r.Violation(attrs("wire-form-differs-from-style-table"), size, k)
			}
			have, text = "", ""
		}
		if have != text {
			k.Expected = text
			r.Violation(attrs("wire-form-differs-from-style-table"), size, k)
		}
	}
	if decErr != nil {
		if core {
			r.Violation(attrs("core-value-rejected-by-decoder"), size, k)
		} else {
			// the encoder accepted the value and wrote a wire form its own decoder cannot read:
			// not a silent change, but not lossless either (the value should have been refused)
			a := attrs("accepted-value-rejected-by-own-decoder")
			a["sig"] = shapeSig(c, v)
			a["cellsig"] = c.String() + " " + a["sig"]
			if os.Getenv("VERIF_C06_BASELINE") != "" {
				baselineMu.Lock()
				baseline[a["cellsig"]] = true
				baselineMu.Unlock()
				return true
			}
			r.Violation(a, size, k)
		}
		return true
	}
	want := v
	if c.Shape == "object" && c.Loc == "query" && (c.Explode || c.Style == "deepObject") {
		// decoder walks declared fields: compare as sets
		sort.Slice(got.Fields, func(i, j int) bool { return got.Fields[i].Name < got.Fields[j].Name })
		wf := append([]uri.Field{}, want.Fields...)
		sort.Slice(wf, func(i, j int) bool { return wf[i].Name < wf[j].Name })
		want.Fields = wf
	}
	if c.Shape == "array" && want.Items == nil {
		want.Items = []string{}
	}
	if c.Shape == "object" && want.Fields == nil {
		want.Fields = []uri.Field{}
	}
	if !reflect.DeepEqual(want, got) {
		cl := "different-value-delivered"
		if core {
			cl = "core-value-changed"
		}
		r.Violation(attrs(cl), size, k)
	}
	return true
}

// ---------- cookie escaping ----------

func validCookieValueByte(b byte) bool {
	// net/http's sanitiser keeps exactly these; values containing ' ' or ',' get quoted
	return 0x20 < b && b < 0x7f && b != '"' && b != ';' && b != '\\' && b != ','
}

func cookieEscapes(r *vf.Run, maxLen int) {
	type ck struct {
		Input   string `json:"input_quoted"`
		Escaped string `json:"escaped"`
		Back    string `json:"unescaped_quoted"`
	}
	bad := func(class string, s, e, b string) {
		r.Violation(map[string]string{"class": "cookie-escape/" + class, "kind": "cookie-escape"}, len(s), ck{fmt.Sprintf("%q", s), e, fmt.Sprintf("%q", b)})
	}
	var wg sync.WaitGroup
	ch := make(chan int, 256)
	for w := 0; w < runtime.NumCPU(); w++ {
		wg.Add(1)
		go func() {
			defer wg.Done()
			buf := make([]byte, 0, 4)
			for first := range ch {
				var n int64
				var rec func(depth int)
				rec = func(depth int) {
					s := string(buf)
					n++
					e := uri.VerifEscapeCookie(s)
					b, ok := uri.VerifUnescapeCookie(e)
					if !ok || b != s {
						bad("not-inverse", s, e, b)
					}
					for i := 0; i < len(e); i++ {
						if !validCookieValueByte(e[i]) {
							bad("escaped-form-not-a-cookie-value", s, e, b)
							break
						}
					}
					if len(buf) <= 2 && len(buf) > 0 {
						// through net/http itself: the sanitiser must leave the escaped form alone
						req, _ := http.NewRequestWithContext(context.Background(), "GET", "http://x/", nil)
						req.AddCookie(&http.Cookie{Name: "p", Value: e})
						if got := req.Header.Get("Cookie"); got != "p="+e {
							bad("net/http-sanitiser-changes-escaped-form", s, e, got)
						}
					}
					if depth == 0 {
						return
					}
					for c := 0; c < 256; c++ {
						buf = append(buf, byte(c))
						rec(depth - 1)
						buf = buf[:len(buf)-1]
					}
				}
				buf = append(buf[:0], byte(first))
				rec(maxLen - 1)
				r.Eval(n)
				r.NontrivialN(n)
			}
		}()
	}
	for c := 0; c < 256; c++ {
		ch <- c
	}
	close(ch)
	wg.Wait()
	// unescape on arbitrary (not escaper-produced) short inputs: must not panic; ok=false iff malformed escape
	alpha := []byte{'%', '4', '1', 'g', 'a', 'F'}
	var rec func(cur []byte, depth int)
	rec = func(cur []byte, depth int) {
		s := string(cur)
		func() {
			defer func() {
				if p := recover(); p != nil {
					bad("unescape-panic", s, "", fmt.Sprint(p))
				}
			}()
			out, ok := uri.VerifUnescapeCookie(s)
			want, wok := refUnescape(s)
			if ok != wok || (ok && out != want) {
				bad("unescape-differs-from-reference", s, out, want)
			}
		}()
		r.Eval(1)
		if depth == 0 {
			return
		}
		for _, a := range alpha {
			rec(append(cur, a), depth-1)
		}
	}
	rec(nil, 6)
}

// pathAssembly: generated clients build the request path with uri.AddPathParts(base, parts...),
// the parts being static text and already-escaped path arguments.  For every base URL path of a
// small set (plain, with a needless escape, with escapes net/url keeps or drops from RawPath, with
// an escaped slash) and every sequence of <= 3 parts, the escaped path of the result must be the
// escaped base followed by the parts, byte for byte: an escape of a part must never be undone.
func pathAssembly(r *vf.Run) {
	bases := []string{"http://h", "http://h/", "http://h/v1", "http://h/v1/", "http://h/a%20b", "http://h/a%2Fb", "http://h/%C3%A9", "http://h/x%41", "http://h/a,b", "http://h/a%21b"}
	parts := []string{"/p/", "/", "a", "a%2Fb", "a%20b", "x,y", "%25", "%C3%A9", "a-b.c_d~e", "/end"}
	var n int64
	var seqs [][]string
	for _, a := range parts {
		seqs = append(seqs, []string{a})
		for _, b := range parts {
			seqs = append(seqs, []string{a, b})
			for _, c := range parts {
				seqs = append(seqs, []string{a, b, c})
			}
		}
	}
	for _, b := range bases {
		for _, seq := range seqs {
			u, err := url.Parse(b)
			if err != nil {
				vf.Fatal("base %q: %v", b, err)
			}
			want := u.EscapedPath() + strings.Join(seq, "")
			var pan any
			func() {
				defer func() { pan = recover() }()
				uri.AddPathParts(u, seq...)
			}()
			n++
			got := u.EscapedPath()
			dec, derr := url.PathUnescape(want)
			switch {
			case pan != nil:
				r.Violation(map[string]string{"class": "path-assembly/panic"}, len(b)+len(seq), map[string]any{"base": b, "parts": seq, "panic": fmt.Sprint(pan)})
			case got != want:
				r.Violation(map[string]string{"class": "path-assembly/escaped-path-differs-from-base-plus-parts", "base_has_raw_path": fmt.Sprint(strings.Contains(b, "%"))}, len(b)+10*len(seq),
					map[string]any{"base": b, "parts": seq, "escaped_path": got, "expected": want, "url_path": u.Path, "url_raw_path": u.RawPath})
			case derr == nil && u.Path != dec:
				r.Violation(map[string]string{"class": "path-assembly/decoded-path-differs"}, len(b)+10*len(seq), map[string]any{"base": b, "parts": seq, "url_path": u.Path, "expected": dec})
			}
		}
	}
	r.Eval(n)
	r.NontrivialN(n)
	r.Set("path_assemblies", n)
}

func refUnescape(s string) (string, bool) {
	var b strings.Builder
	for i := 0; i < len(s); i++ {
		if s[i] != '%' {
			b.WriteByte(s[i])
			continue
		}
		if i+2 >= len(s) {
			return "", false
		}
		h := func(c byte) int {
			switch {
			case c >= '0' && c <= '9':
				return int(c - '0')
			case c >= 'a' && c <= 'f':
				return int(c-'a') + 10
			case c >= 'A' && c <= 'F':
				return int(c-'A') + 10
			}
			return -1
		}
		a, c := h(s[i+1]), h(s[i+2])
		if a < 0 || c < 0 {
			return "", false
		}
		b.WriteByte(byte(a<<4 | c))
		i += 2
	}
	return b.String(), true
}

// defaults: a parameter that leaves out `style` and / or `explode` gets the defaults of the OpenAPI
// specification (style: simple for path and header, form for query and cookie; explode: true for
// form, false for every other style).  Every (location, style given or not, shape) with explode left
// out is generated; the operation the generator builds must carry the prescribed cell.  deepObject is
// only defined with explode=true and is skipped.
func defaults(r *vf.Run) {
	schema := map[string]string{
		"prim":   `{"type":"string"}`,
		"array":  `{"type":"array","items":{"type":"string"}}`,
		"object": `{"type":"object","properties":{"a":{"type":"string"},"b":{"type":"string"}}}`,
	}
	defStyle := map[string]string{"path": "simple", "header": "simple", "query": "form", "cookie": "form"}
	var n int64
	for _, loc := range []string{"path", "query", "header", "cookie"} {
		for _, st := range []string{"", "simple", "label", "matrix", "form", "spaceDelimited", "pipeDelimited"} {
			for _, sh := range []string{"prim", "array", "object"} {
				path, req := "/x", "false"
				if loc == "path" {
					path, req = "/x/{p}", "true"
				}
				styleMember := ""
				if st != "" {
					styleMember = fmt.Sprintf(`"style":%q,`, st)
				}
				doc := fmt.Sprintf(`{"openapi":"3.0.3","info":{"title":"t","version":"1"},"paths":{%q:{"get":{"operationId":"op","parameters":[{"name":"p","in":%q,"required":%s,%s"schema":%s}],"responses":{"200":{"description":"ok"}}}}}}`, path, loc, req, styleMember, schema[sh])
				var g *gen.Generator
				func() {
					defer func() { _ = recover() }()
					spec, err := ogen.Parse([]byte(doc))
					if err != nil {
						return
					}
					g, _ = gen.NewGenerator(spec, gen.Options{})
				}()
				if g == nil || len(g.Operations()) != 1 || len(g.Operations()[0].Params) != 1 {
					continue // refused: nothing is serialized
				}
				n++
				ps := g.Operations()[0].Params[0].Spec
				wantStyle := st
				if wantStyle == "" {
					wantStyle = defStyle[loc]
				}
				wantExplode := wantStyle == "form"
				if string(ps.Style) != wantStyle || ps.Explode != wantExplode {
					r.Violation(map[string]string{"class": "default-style-or-explode-differs-from-the-specification", "in": loc, "style": wantStyle, "shape": sh}, len(doc),
						map[string]any{"in": loc, "style_written": st, "shape": sh, "generated_style": string(ps.Style), "generated_explode": ps.Explode, "prescribed_style": wantStyle, "prescribed_explode": wantExplode, "document": doc})
				}
			}
		}
	}
	r.Eval(n)
	r.NontrivialN(n)
	r.Set("documents_with_defaulted_style_or_explode_generated", n)
}

// headerNames: the header encoder serializes an array differently when the parameter is called
// Set-Cookie (one header line per item, RFC 6265: the lines must not be folded).  The name is part of
// the cell: arrays of 0-3 items over the delimiter alphabet under that name (three letter cases,
// both explode settings) must come back unchanged, be refused by the encoder, or make the decoder fail.
func headerNames(r *vf.Run, items []string) {
	var n int64
	for _, name := range []string{"Set-Cookie", "set-cookie", "SET-COOKIE"} {
		for _, ex := range []bool{false, true} {
			var vals [][]string
			for _, a := range items {
				vals = append(vals, []string{a})
				for _, b := range items {
					vals = append(vals, []string{a, b})
				}
			}
			vals = append(vals, []string{"a=1; Path=/", "b=2; Expires=Wed, 21 Oct 2015 07:28:00 GMT", "c=3"})
			for _, v := range vals {
				n++
				h := http.Header{}
				c := cell{"header", "simple", ex, "array"}
				var got value
				var encErr, decErr error
				var pan any
				func() {
					defer func() { pan = recover() }()
					encErr = uri.NewHeaderEncoder(h).EncodeParam(uri.HeaderParameterEncodingConfig{Name: name, Explode: ex}, func(e uri.Encoder) error { return encodeInto(e, c, value{Items: v}) })
					if encErr != nil {
						return
					}
					d := uri.NewHeaderDecoder(h)
					cfg := uri.HeaderParameterDecodingConfig{Name: name, Explode: ex}
					if decErr = d.HasParam(cfg); decErr != nil {
						return
					}
					decErr = d.DecodeParam(cfg, func(d uri.Decoder) error {
						var err error
						got, err = decodeFrom(d, c)
						return err
					})
				}()
				core := true
				for _, it := range v {
					if it == "" || strings.TrimSpace(it) != it || strings.ContainsAny(it, "\r\n\x00") {
						core = false
					}
				}
				class := ""
				switch {
				case pan != nil:
					class = "panic"
				case encErr != nil || decErr != nil:
					if core {
						class = "core-value-not-delivered"
					}
				case !reflect.DeepEqual(got.Items, v):
					class = "different-value-delivered"
				}
				if class != "" {
					r.Violation(map[string]string{"class": class + "/header-named-set-cookie", "in": "header", "name": "set-cookie", "explode": fmt.Sprint(ex)}, len(strings.Join(v, ","))+len(v),
						map[string]any{"header_name": name, "explode": ex, "sent": v, "header_lines": h.Values(name), "received": got.Items, "encoder_error": fmt.Sprint(encErr), "decoder_error": fmt.Sprint(decErr), "panic": fmt.Sprint(pan)})
				}
			}
		}
	}
	r.Eval(n)
	r.NontrivialN(n)
	r.Set("set_cookie_header_arrays", n)
}

// ---------- several parameters through one encoder / one decoder ----------

// sequences: the generated client encodes all parameters of a location with ONE encoder object (one
// QueryEncoder per request, one HeaderEncoder, one CookieEncoder) and the server decodes them with one
// decoder.  Every ordered pair (thorough: triple) of (cell, core value) at one location goes through
// one encoder and one decoder; each parameter must come back as it does when it is the only one.
func sequences(r *vf.Run, cells []cell, thorough bool) {
	type pv struct {
		c cell
		v value
	}
	valuesFor := func(c cell, pos int) []value {
		sfx := fmt.Sprint(pos)
		switch c.Shape {
		case "prim":
			return []value{{Prim: "x" + sfx}, {Prim: "yy" + sfx}}
		case "array":
			return []value{{Items: []string{"a" + sfx}}, {Items: []string{"b" + sfx, "c" + sfx}}, {Items: []string{"d" + sfx, "e" + sfx, "f" + sfx}}}
		default:
			return []value{{Fields: []uri.Field{{Name: "k" + sfx, Value: "1"}}}, {Fields: []uri.Field{{Name: "k" + sfx, Value: "1"}, {Name: "m" + sfx, Value: "2"}}}}
		}
	}
	var evals int64
	for _, loc := range []string{"query", "header", "cookie"} {
		var lc []cell
		for _, c := range cells {
			if c.Loc == loc {
				lc = append(lc, c)
			}
		}
		run := func(seq []pv) {
			evals++
			names := make([]string, len(seq))
			for i := range seq {
				names[i] = fmt.Sprintf("p%d", i+1)
			}
			got := make([]value, len(seq))
			errs := make([]string, len(seq))
			var pan any
			func() {
				defer func() {
					if rec := recover(); rec != nil {
						pan = rec
					}
				}()
				fieldsOf := func(i int) (fs []uri.QueryParameterObjectField) {
					if seq[i].c.Shape == "object" {
						for _, f := range []string{"k", "m"} {
							fs = append(fs, uri.QueryParameterObjectField{Name: f + fmt.Sprint(i+1)})
						}
					}
					return fs
				}
				switch loc {
				case "query":
					q := uri.NewQueryEncoder()
					for i, x := range seq {
						x := x
						if err := q.EncodeParam(uri.QueryParameterEncodingConfig{Name: names[i], Style: uri.QueryStyle(x.c.Style), Explode: x.c.Explode}, func(e uri.Encoder) error { return encodeInto(e, x.c, x.v) }); err != nil {
							errs[i] = "encode: " + err.Error()
						}
					}
					vals, err := url.ParseQuery(q.Values().Encode())
					if err != nil {
						errs[0] += " parse: " + err.Error()
						return
					}
					d := uri.NewQueryDecoder(vals)
					for i, x := range seq {
						i, x := i, x
						cfg := uri.QueryParameterDecodingConfig{Name: names[i], Style: uri.QueryStyle(x.c.Style), Explode: x.c.Explode, Fields: fieldsOf(i)}
						if err := d.HasParam(cfg); err != nil {
							errs[i] += " absent: " + err.Error()
							continue
						}
						if err := d.DecodeParam(cfg, func(d uri.Decoder) error {
							var err error
							got[i], err = decodeFrom(d, x.c)
							return err
						}); err != nil {
							errs[i] += " decode: " + err.Error()
						}
					}
				case "header":
					h := http.Header{}
					e := uri.NewHeaderEncoder(h)
					for i, x := range seq {
						x := x
						if err := e.EncodeParam(uri.HeaderParameterEncodingConfig{Name: names[i], Explode: x.c.Explode}, func(e uri.Encoder) error { return encodeInto(e, x.c, x.v) }); err != nil {
							errs[i] = "encode: " + err.Error()
						}
					}
					d := uri.NewHeaderDecoder(h)
					for i, x := range seq {
						i, x := i, x
						cfg := uri.HeaderParameterDecodingConfig{Name: names[i], Explode: x.c.Explode}
						if err := d.HasParam(cfg); err != nil {
							errs[i] += " absent: " + err.Error()
							continue
						}
						if err := d.DecodeParam(cfg, func(d uri.Decoder) error {
							var err error
							got[i], err = decodeFrom(d, x.c)
							return err
						}); err != nil {
							errs[i] += " decode: " + err.Error()
						}
					}
				case "cookie":
					req, _ := http.NewRequestWithContext(context.Background(), "GET", "http://x/", nil)
					e := uri.NewCookieEncoder(req)
					for i, x := range seq {
						x := x
						if err := e.EncodeParam(uri.CookieParameterEncodingConfig{Name: names[i], Explode: x.c.Explode}, func(e uri.Encoder) error { return encodeInto(e, x.c, x.v) }); err != nil {
							errs[i] = "encode: " + err.Error()
						}
					}
					req2, _ := http.NewRequestWithContext(context.Background(), "GET", "http://x/", nil)
					for _, line := range req.Header.Values("Cookie") {
						req2.Header.Add("Cookie", line)
					}
					d := uri.NewCookieDecoder(req2)
					for i, x := range seq {
						i, x := i, x
						cfg := uri.CookieParameterDecodingConfig{Name: names[i], Explode: x.c.Explode}
						if err := d.HasParam(cfg); err != nil {
							errs[i] += " absent: " + err.Error()
							continue
						}
						if err := d.DecodeParam(cfg, func(d uri.Decoder) error {
							var err error
							got[i], err = decodeFrom(d, x.c)
							return err
						}); err != nil {
							errs[i] += " decode: " + err.Error()
						}
					}
				}
			}()
			for i, x := range seq {
				ok := pan == nil && errs[i] == "" && reflect.DeepEqual(normalize(got[i]), normalize(x.v))
				if ok {
					continue
				}
				var desc []string
				for j, y := range seq {
					desc = append(desc, fmt.Sprintf("%s=%s %+v", names[j], y.c, y.v))
				}
				cl := "parameter-changed-next-to-another-one"
				if pan != nil {
					cl = "panic-with-several-parameters"
				} else if errs[i] != "" {
					cl = "parameter-lost-next-to-another-one"
				}
				r.Violation(map[string]string{"class": cl + "/" + loc, "in": loc, "cell": x.c.String(), "position": fmt.Sprint(i + 1), "of": fmt.Sprint(len(seq))}, len(fmt.Sprint(desc)),
					map[string]any{"parameters_in_order": desc, "parameter": names[i], "sent": x.v, "received": got[i], "error": errs[i], "panic": fmt.Sprint(pan)})
			}
		}
		var all []func(pos int) []pv
		for _, c := range lc {
			c := c
			all = append(all, func(pos int) []pv {
				var out []pv
				for _, v := range valuesFor(c, pos) {
					out = append(out, pv{c, v})
				}
				return out
			})
		}
		for _, f1 := range all {
			for _, a := range f1(1) {
				for _, f2 := range all {
					for _, b := range f2(2) {
						run([]pv{a, b})
						if thorough {
							for _, f3 := range all {
								for _, c3 := range f3(3) {
									run([]pv{a, b, c3})
								}
							}
						}
					}
				}
			}
		}
	}
	r.Eval(evals)
	r.NontrivialN(evals)
	r.Set("parameter_sequences_through_one_encoder", evals)
}

// normalize: nil and empty collections are the same value here.
func normalize(v value) value {
	if len(v.Items) == 0 {
		v.Items = nil
	}
	if len(v.Fields) == 0 {
		v.Fields = nil
	}
	return v
}

func main() {
	r := vf.Start("C06", "exploration")
	if r.Replay != "" {
		var k kase
		r.ReplayCase(&k)
		if k.Cell.Loc != "" {
			judge(r, k.Cell, k.Value)
			r.Finish("")
		}
		// a case of the several-parameters sub-check: the whole (cheap) enumeration is run again
	}
	// ----- cells admitted by the real parser and generator
	var cells []cell
	var rejected int
	styles := []string{"simple", "label", "matrix", "form", "spaceDelimited", "pipeDelimited", "deepObject"}
	for _, loc := range []string{"path", "query", "header", "cookie"} {
		for _, st := range styles {
			for _, ex := range []bool{false, true} {
				for _, sh := range []string{"prim", "array", "object"} {
					c := cell{loc, st, ex, sh}
					if ok, _ := admitted(c); ok {
						cells = append(cells, c)
					} else {
						rejected++
					}
				}
			}
		}
	}
	// admission next to another parameter: a cell refused on its own may still get through when an
	// earlier parameter uses the same component schema (whatever a parser remembers about a schema
	// is remembered per schema, not per cell); every cell that gets through anywhere is driven
	var refused []cell
	isAdmitted := map[cell]bool{}
	for _, c := range cells {
		isAdmitted[c] = true
	}
	for _, loc := range []string{"path", "query", "header", "cookie"} {
		for _, st := range styles {
			for _, ex := range []bool{false, true} {
				for _, sh := range []string{"prim", "array", "object"} {
					if c := (cell{loc, st, ex, sh}); !isAdmitted[c] {
						refused = append(refused, c)
					}
				}
			}
		}
	}
	var pairDocs, contextOnly int
	var contextCells []string
	{
		type res struct {
			c   cell
			via string
		}
		var mu sync.Mutex
		var found []res
		var wg sync.WaitGroup
		sem := make(chan struct{}, runtime.NumCPU())
		for _, c2 := range refused {
			c2 := c2
			wg.Add(1)
			sem <- struct{}{}
			go func() {
				defer wg.Done()
				defer func() { <-sem }()
				n := 0
				for _, c1 := range cells {
					if c1.Shape != c2.Shape {
						continue
					}
					for layout := 0; layout < 4; layout++ {
						n++
						if admittedDoc(specPair(c1, c2, layout)) {
							mu.Lock()
							found = append(found, res{c2, fmt.Sprintf("after %s (layout %d)", c1, layout)})
							mu.Unlock()
						}
					}
				}
				mu.Lock()
				pairDocs += n
				mu.Unlock()
			}()
		}
		wg.Wait()
		sort.Slice(found, func(i, j int) bool { return found[i].c.String()+found[i].via < found[j].c.String()+found[j].via })
		for _, f := range found {
			if !isAdmitted[f.c] {
				isAdmitted[f.c] = true
				cells = append(cells, f.c)
				contextOnly++
				contextCells = append(contextCells, f.c.String()+" "+f.via)
			}
		}
	}
	// shapes the uri package cannot represent by contract (uri/interface.go: "does not support nested
	// types and panic if you try to encode/decode them"): an array or object below the top level,
	// however it is spelled (inside a map, through a recursive reference).  Whatever is admitted
	// panics in the generated client on the first value that has the nested part.
	// the product outer x inner, the inner part written in place and through a component, plus recursion
	nested := map[string]string{"recursive-object": `{"$ref":"#/components/schemas/Rec"}`}
	inners := map[string]string{
		"arrays":  `{"type":"array","items":{"type":"string"}}`,
		"objects": `{"type":"object","properties":{"a":{"type":"string"}}}`,
		"maps":    `{"type":"object","additionalProperties":{"type":"string"}}`,
	}
	for in, inner := range inners {
		for _, viaRef := range []bool{false, true} {
			sfx := ""
			if viaRef {
				inner = `{"$ref":"#/components/schemas/In` + in + `"}`
				sfx = "-by-reference"
			}
			nested["array-of-"+in+sfx] = `{"type":"array","items":` + inner + `}`
			nested["object-of-"+in+sfx] = `{"type":"object","properties":{"name":{"type":"string"},"o":` + inner + `}}`
			nested["map-of-"+in+sfx] = `{"type":"object","additionalProperties":` + inner + `}`
		}
	}
	var nestedNames []string
	for k := range nested {
		nestedNames = append(nestedNames, k)
	}
	sort.Strings(nestedNames)
	nestedProbed := 0
	for _, loc := range []string{"path", "query", "header", "cookie"} {
		for _, st := range styles {
			for _, ex := range []bool{false, true} {
				for _, sn := range nestedNames {
					path, req := "/x", "false"
					if loc == "path" {
						path, req = "/x/{p}", "true"
					}
					doc := fmt.Sprintf(`{"openapi":"3.0.3","info":{"title":"t","version":"1"},"paths":{%q:{"get":{"operationId":"op","parameters":[{"name":"p","in":%q,"required":%s,"style":%q,"explode":%v,"schema":%s}],"responses":{"200":{"description":"ok"}}}}},"components":{"schemas":{"Rec":{"type":"object","properties":{"name":{"type":"string"},"next":{"$ref":"#/components/schemas/Rec"}}},"Inarrays":{"type":"array","items":{"type":"string"}},"Inobjects":{"type":"object","properties":{"a":{"type":"string"}}},"Inmaps":{"type":"object","additionalProperties":{"type":"string"}}}}}`, path, loc, req, st, ex, nested[sn])
					nestedProbed++
					if admittedDoc(doc) {
						r.Violation(map[string]string{"class": "nested-shape-admitted-as-parameter/" + sn, "shape": sn, "in": loc}, len(sn),
							map[string]any{"in": loc, "style": st, "explode": ex, "shape": sn, "schema": json.RawMessage(nested[sn]), "consequence": "the uri encoders panic on nested arrays / objects by contract: the generated client panics on the first value that has the nested part"})
					}
					// the same shape behind an earlier parameter of the operation (and of the path item) that
					// uses the inner component at the top level, where it is allowed: what is remembered
					// about a component must not admit it in a nested position
					if i := strings.Index(nested[sn], `"$ref":"#/components/schemas/In`); i >= 0 {
						inner := nested[sn][i+len(`"$ref":"`):]
						inner = inner[:strings.IndexByte(inner, '"')]
						first := fmt.Sprintf(`{"name":"q0","in":"query","style":"form","explode":true,"schema":{"$ref":%q}}`, inner)
						second := fmt.Sprintf(`{"name":"p","in":%q,"required":%s,"style":%q,"explode":%v,"schema":%s}`, loc, req, st, ex, nested[sn])
						for layout, params := range []string{
							`"get":{"operationId":"op","parameters":[` + first + `,` + second + `],"responses":{"200":{"description":"ok"}}}`,
							`"parameters":[` + first + `],"get":{"operationId":"op","parameters":[` + second + `],"responses":{"200":{"description":"ok"}}}`,
						} {
							doc2 := strings.Replace(doc, doc[strings.Index(doc, `"get":`):strings.Index(doc, `},"components"`)-1], params, 1)
							nestedProbed++
							if admittedDoc(doc2) {
								r.Violation(map[string]string{"class": "nested-shape-admitted-behind-another-parameter/" + sn, "shape": sn, "in": loc, "layout": fmt.Sprint(layout)}, len(sn),
									map[string]any{"in": loc, "style": st, "explode": ex, "shape": sn, "document": doc2, "consequence": "the uri encoders panic on nested arrays / objects by contract"})
							}
						}
					}
				}
			}
		}
	}
	r.Eval(int64(nestedProbed))
	r.NontrivialN(int64(nestedProbed))
	r.Set("nested_shape_documents_probed", nestedProbed)
	r.Set("two_parameter_documents_probed", pairDocs)
	r.Set("cells_admitted_only_next_to_another_parameter", contextCells)
	var names []string
	for _, c := range cells {
		names = append(names, c.String())
	}
	r.Set("admitted_cells", names)
	r.Set("admitted_cell_count", len(cells))
	r.Set("candidate_cells_rejected_by_parser_or_generator", rejected)
	if len(cells) < 10 {
		vf.Fatal("only %d cells admitted: the admission probe is broken", len(cells))
	}

	alpha := []string{"a", ",", ".", ";", "=", "|", " ", "%", "/", "&", "+", "?", "#", "\"", "\\", "[", "]", "é"}
	primLen, itemLen := 2, 1
	if r.Thorough() {
		primLen, itemLen = 3, 2
	}
	sPrim := strs(alpha, primLen)
	s2 := strs(alpha, 2)
	s1 := strs(alpha, 1)
	sItem := strs(alpha, itemLen)

	type job struct {
		c cell
		v value
	}
	jobs := make(chan job, 4096)
	var wg sync.WaitGroup
	for w := 0; w < runtime.NumCPU(); w++ {
		wg.Add(1)
		go func() {
			defer wg.Done()
			var n, nt int64
			for j := range jobs {
				n++
				if judge(r, j.c, j.v) {
					nt++
				}
			}
			r.Eval(n)
			r.NontrivialN(nt)
		}()
	}
	for _, c := range cells {
		switch c.Shape {
		case "prim":
			for _, s := range sPrim {
				jobs <- job{c, value{Prim: s}}
			}
		case "array":
			jobs <- job{c, value{Items: []string{}}}
			for _, a := range s2 {
				jobs <- job{c, value{Items: []string{a}}}
			}
			for _, a := range sItem {
				for _, b := range sItem {
					jobs <- job{c, value{Items: []string{a, b}}}
				}
			}
			for _, a := range s1 {
				for _, b := range s1 {
					for _, d := range []string{"", "a", ",", "|", ".", ";"} {
						jobs <- job{c, value{Items: []string{a, b, d}}}
					}
				}
			}
		default:
			jobs <- job{c, value{Fields: []uri.Field{}}}
			for _, n := range fieldNames {
				for _, a := range s2 {
					jobs <- job{c, value{Fields: []uri.Field{{Name: n, Value: a}}}}
				}
			}
			for _, n1 := range fieldNames {
				for _, n2 := range fieldNames {
					if n1 == n2 {
						continue
					}
					for _, a := range s1 {
						for _, b := range s1 {
							jobs <- job{c, value{Fields: []uri.Field{{Name: n1, Value: a}, {Name: n2, Value: b}}}}
						}
					}
				}
			}
		}
	}
	close(jobs)
	wg.Wait()

	r.Set("ambiguous_values_accepted_by_encoder_per_cell", ambAccepted)
	r.Set("ambiguous_values_accepted_by_encoder_sample", ambSample)
	cookieLen := 2
	if r.Thorough() {
		cookieLen = 3
	}
	cookieEscapes(r, cookieLen)
	pathAssembly(r)
	sequences(r, cells, true)
	defaults(r)
	headerNames(r, sItem)

	r.Sample(kase{Cell: cell{"path", "matrix", true, "object"}, Value: value{Fields: []uri.Field{{Name: "a", Value: "x y"}, {Name: "b", Value: "é"}}}, Wire: ";a=x%20y;b=%C3%A9", Expected: ";a=x y;b=é"})
	r.Sample(kase{Cell: cell{"query", "pipeDelimited", false, "array"}, Value: value{Items: []string{"a", "b|c"}}, EncErr: "(must be refused or rejected: '|' is the active delimiter)"})
	r.Assume("reference serializer: OpenAPI style table with RFC 6570 forms (label non-exploded arrays are comma-joined, as in OAS 3.1 / RFC 6570)",
		"wire transport is net/url (PathUnescape, ParseQuery, Values.Encode) and net/http (Header, AddCookie, Request.Cookie) exactly as in generated clients and servers",
		"core domain: non-empty text without leading/trailing blanks and without any of , . ; = | [ ]; unique non-empty field names")
	if os.Getenv("VERIF_C06_BASELINE") != "" {
		// maintenance command (never part of a registered check): enumerate, on the tree under check,
		// the (cell, value shape) pairs the encoder accepts and its own decoder rejects
		var items []string
		for k := range baseline {
			items = append(items, k)
		}
		sort.Strings(items)
		b, _ := json.MarshalIndent(items, "", " ")
		_ = os.WriteFile(filepath.Join(r.Home, "cmd", "c06", "undecodable_shapes.json"), append(b, '\n'), 0o644)
		fmt.Printf("baseline of %d (cell, shape) pairs written\n", len(items))
		os.Exit(0)
	}
	r.Finish(fmt.Sprintf("cells = every (in, style, explode, shape) for which the real ogen.Parse + gen.NewGenerator accept a one-parameter spec (%d of %d candidates); values over an 18-symbol alphabet (every delimiter, escape, reserved byte, non-ASCII): primitives all strings <= %d, arrays of 0-1 items (<= 2 symbols), 2 items (<= %d symbols each), 3 items over single symbols x 6 tails, objects with 0-2 fields over 8 adversarial names. Oracle per value: no panic; core value => encoder accepts, wire == reference serialization, decoder returns it; any value => refused, rejected, or delivered unchanged; a value the encoder accepts and its own decoder rejects is reported unless its (cell, shape of empties/delimiters) is in the committed enumeration of the recorded finding. Cookie escaping: all byte strings <= %d over all 256 bytes (inverse pair, escaped form is a valid cookie value, net/http leaves it unchanged) and all strings <= 6 over %%,4,1,g,a,F through unescape vs a reference. non-trivial = value accepted by the encoder or containing an active delimiter (distinct by construction).", len(cells), len(cells)+rejected, primLen, itemLen, cookieLen))
}
