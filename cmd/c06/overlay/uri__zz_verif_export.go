package uri

// Overlay-only exports for the C06 harness (never committed to /repo; applied with go build -overlay).

func VerifEscapeCookie(s string) string           { return escapeCookie(s) }
func VerifUnescapeCookie(s string) (string, bool) { return unescapeCookie(s) }
