// C02 — everything the generator writes is a Go package that compiles.
//
// Programs x configurations, each generated with the generator under check and compiled by the
// real Go compiler in a scratch module: (A) hostile-name matrix (one name position at a time x a
// hostile alphabet, plus collision pairs), (B) the repository corpus x feature configurations,
// (C) feature-set sweep on a feature-rich spec x convenient errors on/off, (D) shape fixtures.
// Oracle: generation returns an error that is neither a panic nor ErrGoFormat, or the written
// files build (and vet, where test files are generated).
package main

import (
	"bytes"
	"encoding/json"
	"fmt"
	"net/url"
	"os"
	"os/exec"
	"path/filepath"
	"regexp"
	"runtime"
	"runtime/debug"
	"sort"
	"strings"
	"sync"

	"github.com/go-faster/errors"
	"github.com/ogen-go/ogen"
	"github.com/ogen-go/ogen/gen"
	"github.com/ogen-go/ogen/gen/genfs"
	"github.com/ogen-go/ogen/location"

	"verif/internal/grammar"
	"verif/internal/regen"
	"verif/internal/vf"
)

type M = map[string]any

type program struct {
	ID    string
	Group string // hostile, corpus, sweep, fixture, skipped, minimal, cross
	Spec  []byte
	Opts  func() gen.Options
	Attrs map[string]string
	Desc  any
	Tests bool // test files are generated: vet as well
}

var names = []string{"a", "A", "1a", "_", "type", "func", "a b", "a-b", "a.b", `a"b`, `a\b`, "a`b", "a\nb", "é", "日本", "", "$", "a/b", "Validate", "Encode", "Decode", "Get", "Set", "Value", "Error", "Client", "Server", "Handler", "String", "OptString", "NilString", "Type", "Res", "Params", "OK", "Default", "init", "main", "error", "string", "int", "nil", "true", "Invoker", "Route", "Option", "Middleware", "Operation", "Request", "Response", "Labeler", "x-y_z", "X__Y", "9", "-", "+1", "a{b}", "a%41", "😀", "SetFake", "MarshalJSON", "UnmarshalJSON", "Reset", "IsSet", "Or", "To", "SecurityHandler", "SecuritySource", "UnimplementedHandler", "WebhookServer", "ErrorHandler", "fmt", "http", "context", "errors", "jx", "uri", "ctx", "s", "e", "d", "r", "w", "args", "params", "request", "response", "err", "ok"}

func nameClass(n string) string {
	switch {
	case n == "":
		return "empty"
	case strings.ContainsAny(n, "\n"):
		return "newline"
	case regexp.MustCompile(`^[A-Za-z_][A-Za-z0-9_]*$`).MatchString(n):
		return "identifier"
	}
	return "non-identifier"
}

func ptr(n string) string {
	return strings.ReplaceAll(strings.ReplaceAll(n, "~", "~0"), "/", "~1")
}

func hostileSpec(pos, n, n2 string) []byte {
	d := M{"openapi": "3.0.3", "info": M{"title": "t", "version": "1"}, "paths": M{}, "components": M{"schemas": M{}}}
	op := M{"operationId": "opA", "responses": M{"200": M{"description": "ok"}}}
	path := "/a"
	schemas := d["components"].(M)["schemas"].(M)
	obj := func() M { return M{"type": "object", "properties": M{"f": M{"type": "string"}}} }
	switch pos {
	case "schema":
		schemas[n] = obj()
		op["requestBody"] = M{"required": true, "content": M{"application/json": M{"schema": M{"$ref": "#/components/schemas/" + ptr(n)}}}}
		op["responses"].(M)["200"].(M)["content"] = M{"application/json": M{"schema": M{"$ref": "#/components/schemas/" + ptr(n)}}}
		if n2 != "" {
			schemas[n2] = M{"type": "object", "properties": M{"g": M{"type": "integer"}}}
			op["responses"].(M)["201"] = M{"description": "c", "content": M{"application/json": M{"schema": M{"$ref": "#/components/schemas/" + ptr(n2)}}}}
		}
	case "property":
		props := M{n: M{"type": "string", "minLength": 1}, "other": M{"type": "integer"}}
		if n2 != "" {
			props[n2] = M{"type": "boolean"}
		}
		op["requestBody"] = M{"required": true, "content": M{"application/json": M{"schema": M{"type": "object", "required": []string{n}, "properties": props}}}}
	case "query", "header", "cookie":
		ps := []any{M{"name": n, "in": pos, "schema": M{"type": "string"}}, M{"name": "other", "in": "query", "schema": M{"type": "string"}}}
		if n2 != "" {
			ps = append(ps, M{"name": n2, "in": pos, "schema": M{"type": "integer"}})
		}
		op["parameters"] = ps
	case "param-locations":
		op["parameters"] = []any{M{"name": n, "in": "query", "schema": M{"type": "string"}}, M{"name": n, "in": "header", "schema": M{"type": "string"}}, M{"name": n, "in": "cookie", "schema": M{"type": "string"}}}
	case "pathparam":
		path = "/a/{" + n + "}"
		op["parameters"] = []any{M{"name": n, "in": "path", "required": true, "schema": M{"type": "string"}}}
	case "operationId":
		op["operationId"] = n
	case "enum":
		vals := []any{n, "zzz"}
		if n2 != "" {
			vals = append(vals, n2)
		}
		op["parameters"] = []any{M{"name": "q", "in": "query", "schema": M{"type": "string", "enum": vals}}}
	case "security":
		d["components"].(M)["securitySchemes"] = M{n: M{"type": "apiKey", "in": "header", "name": "X-K"}}
		op["security"] = []any{M{n: []any{}}}
	case "apikeyname":
		d["components"].(M)["securitySchemes"] = M{"S": M{"type": "apiKey", "in": "query", "name": n}}
		op["security"] = []any{M{"S": []any{}}}
	case "resp_header":
		op["responses"].(M)["200"].(M)["headers"] = M{n: M{"schema": M{"type": "string"}}}
		if n2 != "" {
			op["responses"].(M)["200"].(M)["headers"].(M)[n2] = M{"schema": M{"type": "integer"}}
		}
	case "resp_header_body":
		hs := M{n: M{"schema": M{"type": "string"}}}
		if n2 != "" {
			hs[n2] = M{"schema": M{"type": "integer"}}
		}
		op["responses"].(M)["200"] = M{"description": "ok", "headers": hs, "content": M{"application/json": M{"schema": M{"type": "string"}}}}
		op["responses"].(M)["201"] = M{"description": "created", "headers": hs, "content": M{"application/json": M{"schema": obj()}}}
	case "objparam_property":
		props := M{n: M{"type": "string"}, "other": M{"type": "integer"}}
		if n2 != "" {
			props[n2] = M{"type": "boolean"}
		}
		op["parameters"] = []any{M{"name": "filter", "in": "query", "style": "deepObject", "explode": true, "schema": M{"type": "object", "properties": props}},
			M{"name": "form", "in": "query", "style": "form", "explode": true, "schema": M{"type": "object", "required": []string{n}, "properties": props}}}
	case "server_variable":
		vars := M{n: M{"default": "d"}}
		url := "https://{" + n + "}.example.com/{" + n + "}"
		if n2 != "" {
			vars[n2] = M{"default": "e"}
			url += "/{" + n2 + "}"
		}
		d["servers"] = []any{M{"url": url, "x-ogen-server-name": "Main", "variables": vars}}
	case "tag":
		op["tags"] = []any{n}
	case "pathstatic":
		path = "/a/" + n
	case "default":
		op["requestBody"] = M{"required": true, "content": M{"application/json": M{"schema": M{"type": "object", "properties": M{"f": M{"type": "string", "default": n}}}}}}
	case "discriminator":
		schemas["A"] = M{"type": "object", "required": []string{"k"}, "properties": M{"k": M{"type": "string"}, "a": M{"type": "string"}}}
		schemas["B"] = M{"type": "object", "required": []string{"k"}, "properties": M{"k": M{"type": "string"}, "b": M{"type": "string"}}}
		op["requestBody"] = M{"required": true, "content": M{"application/json": M{"schema": M{"oneOf": []any{M{"$ref": "#/components/schemas/A"}, M{"$ref": "#/components/schemas/B"}}, "discriminator": M{"propertyName": "k", "mapping": M{n: "#/components/schemas/A", "bbb": "#/components/schemas/B"}}}}}}
	case "servername":
		sn := n
		if sn == "" {
			sn = "S"
		}
		d["servers"] = []any{M{"url": "https://{x}.example.com", "x-ogen-server-name": sn, "variables": M{"x": M{"default": n}}}}
	case "description":
		op["description"] = n + " */ // \n\t" + n
		op["summary"] = n
	case "content-type":
		op["requestBody"] = M{"required": true, "content": M{"application/" + n + "+json": M{"schema": obj()}}}
	case "x-ogen-name":
		schemas["S"] = M{"type": "object", "x-ogen-name": n, "properties": M{"f": M{"type": "string", "x-ogen-name": n}}}
		op["requestBody"] = M{"required": true, "content": M{"application/json": M{"schema": M{"$ref": "#/components/schemas/S"}}}}
	case "webhook":
		d["openapi"] = "3.1.0"
		d["webhooks"] = M{n: M{"post": M{"operationId": "hookA", "requestBody": M{"content": M{"application/json": M{"schema": obj()}}}, "responses": M{"200": M{"description": "ok"}}}}}
	}
	d["paths"].(M)[path] = M{"post": op}
	b, _ := json.Marshal(d)
	return b
}

var positions = []string{"schema", "property", "query", "header", "cookie", "param-locations", "pathparam", "operationId", "enum", "security", "apikeyname", "resp_header", "resp_header_body", "objparam_property", "server_variable", "tag", "pathstatic", "default", "discriminator", "servername", "description", "content-type", "x-ogen-name", "webhook"}

func featureOpts(feats []string, convenient string) func() gen.Options {
	return func() gen.Options {
		o := regen.Features(feats...)
		if convenient != "" {
			_ = o.Generator.ConvenientErrors.Set(convenient)
		}
		return o
	}
}

var hostileFeatures = []string{"paths/server", "paths/client", "webhooks/client", "webhooks/server", "ogen/unimplemented"}

func programs(r *vf.Run) []program {
	var ps []program
	// ----- (A) hostile names
	for _, pos := range positions {
		for i, n := range names {
			if !r.Thorough() && i >= 59 && pos != "property" && pos != "schema" && pos != "operationId" && pos != "query" {
				continue // quick: the extended name list only on the four positions that produce identifiers directly
			}
			ps = append(ps, program{ID: fmt.Sprintf("h_%s_%03d", strings.ReplaceAll(pos, "-", "_"), i), Group: "hostile", Spec: hostileSpec(pos, n, ""),
				Opts: featureOpts(hostileFeatures, ""), Attrs: map[string]string{"position": pos, "name_class": nameClass(n), "name": n}, Desc: M{"position": pos, "name": n}})
		}
	}
	// collision pairs: names that coincide after normalisation
	coll := [][2]string{{"a_b", "aB"}, {"a-b", "a_b"}, {"a b", "a_b"}, {"A_B", "a_b"}, {"ab", "Ab"}, {"ab", "AB"}, {"a", "A"}, {"a1", "a_1"}, {"é", "e"}, {"a.b", "a/b"}, {"x", "x "}, {"Opt", "opt"}, {"1a", "_1a"}, {"type", "Type"}, {"a__b", "a_b"},
		{"foo", "get_foo"}, {"foo", "GetFoo"}, {"foo", "set_foo"}, {"X-Rate", "X_Rate"}, {"x", "X"}}
	for _, pos := range []string{"schema", "property", "query", "header", "cookie", "enum", "resp_header", "resp_header_body", "objparam_property", "server_variable"} {
		for i, c := range coll {
			ps = append(ps, program{ID: fmt.Sprintf("hp_%s_%02d", pos, i), Group: "hostile", Spec: hostileSpec(pos, c[0], c[1]),
				Opts: featureOpts(hostileFeatures, ""), Attrs: map[string]string{"position": pos + "-pair", "name_class": "collision", "name": c[0] + " | " + c[1]}, Desc: M{"position": pos, "names": c}})
		}
	}
	// ----- (B) corpus
	configs := map[string][]string{"default": nil, "client-only": {"paths/client", "webhooks/client"}, "server-only": {"paths/server", "webhooks/server", "ogen/unimplemented"}}
	var all []string
	for _, f := range gen.AllFeatures {
		all = append(all, f.Name)
	}
	configs["all"] = all
	var files []string
	for _, root := range []string{"_testdata/positive", "_testdata/examples"} {
		_ = filepath.Walk(filepath.Join(r.Repo, root), func(p string, info os.FileInfo, err error) error {
			if err != nil || info.IsDir() || info.Size() == 0 {
				return nil
			}
			if strings.Contains(p, "file_reference_external") {
				return nil
			}
			ext := filepath.Ext(p)
			if ext == ".json" || ext == ".yml" || ext == ".yaml" {
				files = append(files, p)
			}
			return nil
		})
	}
	sort.Strings(files)
	for fi, f := range files {
		data, err := os.ReadFile(f)
		if err != nil {
			continue
		}
		big := len(data) > 300<<10
		for _, cname := range []string{"default", "all", "client-only", "server-only"} {
			if big && (!r.Thorough() || cname != "default") {
				continue // specs over 300 KiB: thorough tier, default configuration only
			}
			if !r.Thorough() && cname != "default" && cname != "all" {
				continue
			}
			f, data, feats := f, data, configs[cname]
			rel, _ := filepath.Rel(r.Repo, f)
			ps = append(ps, program{ID: fmt.Sprintf("c_%03d_%s", fi, strings.ReplaceAll(cname, "-", "_")), Group: "corpus", Spec: data, Tests: cname == "all",
				Attrs: map[string]string{"spec": rel, "config": cname}, Desc: M{"spec": rel, "config": cname},
				Opts: func() gen.Options {
					var o gen.Options
					if feats != nil {
						o = regen.Features(feats...)
					}
					o.Parser.InferSchemaType = true
					o.Parser.File = location.NewFile(filepath.Base(f), f, data)
					o.Generator.IgnoreNotImplemented = []string{"all"}
					if filepath.Base(filepath.Dir(f)) == "convenient_errors" {
						_ = o.Generator.ConvenientErrors.Set("on")
					}
					if filepath.Base(f) == "file_reference.yml" {
						o.Parser.AllowRemote = true
						o.Parser.RootURL = &url.URL{Scheme: "file", Path: f}
					}
					return o
				}})
		}
	}
	// ----- (C) feature sweep
	sweep, err := os.ReadFile(filepath.Join(r.Home, "cmd", "c02", "specs", "sweep2.yml"))
	if err != nil {
		vf.Fatal("%v", err)
	}
	nf := len(gen.AllFeatures)
	for mask := 0; mask < 1<<nf; mask++ {
		bits := 0
		for i := 0; i < nf; i++ {
			if mask&(1<<i) != 0 {
				bits++
			}
		}
		if !r.Thorough() && !(bits <= 2 || bits >= nf-1) {
			continue // quick: none, singles, pairs, all-but-one, all
		}
		var feats []string
		for i, f := range gen.AllFeatures {
			if mask&(1<<i) != 0 {
				feats = append(feats, f.Name)
			}
		}
		for _, ce := range []string{"on", "off"} {
			ps = append(ps, program{ID: fmt.Sprintf("s_%04d_%s", mask, ce), Group: "sweep", Spec: sweep, Opts: featureOpts(feats, ce), Tests: mask&(1<<(nf-1)) != 0,
				Attrs: map[string]string{"features": strings.Join(feats, ","), "convenient_errors": ce}, Desc: M{"features": feats, "convenient_errors": ce}})
		}
	}
	// ----- (D) spec-shape fixtures (each found an uncompilable output once)
	fixtures := map[string]string{
		"shared_header_ref_two_names":             `{"openapi":"3.0.3","info":{"title":"t","version":"1"},"paths":{"/a":{"get":{"operationId":"a","responses":{"200":{"description":"ok","headers":{"X-A":{"$ref":"#/components/headers/H"},"X-B":{"$ref":"#/components/headers/H"}}}}}}},"components":{"headers":{"H":{"schema":{"type":"string"}}}}}`,
		"pattern_responses_share_schema":          `{"openapi":"3.0.3","info":{"title":"t","version":"1"},"paths":{"/a":{"get":{"operationId":"a","responses":{"200":{"description":"ok"},"4XX":{"description":"c","content":{"application/json":{"schema":{"$ref":"#/components/schemas/E"}}}},"5XX":{"description":"s","content":{"application/json":{"schema":{"$ref":"#/components/schemas/E"}}}}}}}},"components":{"schemas":{"E":{"type":"object","properties":{"m":{"type":"string"}}}}}}`,
		"pattern_and_default_share_schema":        `{"openapi":"3.0.3","info":{"title":"t","version":"1"},"paths":{"/a":{"get":{"operationId":"a","responses":{"200":{"description":"ok"},"4XX":{"description":"c","content":{"application/json":{"schema":{"$ref":"#/components/schemas/E"}}}},"default":{"description":"s","content":{"application/json":{"schema":{"$ref":"#/components/schemas/E"}}}}}}}},"components":{"schemas":{"E":{"type":"object","properties":{"m":{"type":"string"}}}}}}`,
		"global_security_with_webhooks":           `{"openapi":"3.1.0","info":{"title":"t","version":"1"},"security":[{"K":[]}],"paths":{"/a":{"get":{"operationId":"a","responses":{"200":{"description":"ok"}}}}},"webhooks":{"evt":{"post":{"operationId":"hook","requestBody":{"content":{"application/json":{"schema":{"type":"object"}}}},"responses":{"200":{"description":"ok"}}}}},"components":{"securitySchemes":{"K":{"type":"apiKey","in":"header","name":"X-K"}}}}`,
		"response_component_for_code_and_default": `{"openapi":"3.0.3","info":{"title":"t","version":"1"},"paths":{"/a":{"get":{"operationId":"a","responses":{"200":{"$ref":"#/components/responses/R"},"default":{"$ref":"#/components/responses/R"}}}}},"components":{"responses":{"R":{"description":"r","headers":{"X-H":{"schema":{"type":"string"}}},"content":{"application/json":{"schema":{"$ref":"#/components/schemas/S"}}}}},"schemas":{"S":{"type":"object","properties":{"m":{"type":"string"}}}}}}`,
		"same_schema_two_header_sets":             `{"openapi":"3.0.3","info":{"title":"t","version":"1"},"paths":{"/a":{"get":{"operationId":"a","responses":{"200":{"description":"x","headers":{"X-1":{"schema":{"type":"string"}}},"content":{"application/json":{"schema":{"$ref":"#/components/schemas/S"}}}}}}},"/b":{"get":{"operationId":"b","responses":{"200":{"description":"y","headers":{"X-2":{"schema":{"type":"string"}}},"content":{"application/json":{"schema":{"$ref":"#/components/schemas/S"}}}}}}}},"components":{"schemas":{"S":{"type":"object","properties":{"m":{"type":"string"}}}}}}`,
		"enum_constant_equals_schema_name":        `{"openapi":"3.0.3","info":{"title":"t","version":"1"},"paths":{"/a":{"post":{"operationId":"a","requestBody":{"content":{"application/json":{"schema":{"$ref":"#/components/schemas/Color"}}}},"responses":{"200":{"description":"ok","content":{"application/json":{"schema":{"$ref":"#/components/schemas/ColorRed"}}}}}}}},"components":{"schemas":{"Color":{"type":"string","enum":["red","green"]},"ColorRed":{"type":"object","properties":{"m":{"type":"string"}}}}}}`,
		"default_out_of_range_for_the_format":     `{"openapi":"3.0.3","info":{"title":"t","version":"1"},"paths":{"/a":{"get":{"operationId":"a","parameters":[{"name":"q","in":"query","schema":{"type":"integer","format":"int8","default":1000}},{"name":"u","in":"query","schema":{"type":"integer","format":"uint8","default":-1}},{"name":"i","in":"query","schema":{"type":"integer","format":"int32","default":4294967296}}],"responses":{"200":{"description":"ok"}}}}}}`,
		"nested_sum_sharing_a_json_type":          `{"openapi":"3.0.3","info":{"title":"t","version":"1"},"paths":{"/a":{"post":{"operationId":"a","requestBody":{"content":{"application/json":{"schema":{"oneOf":[{"type":"string"},{"$ref":"#/components/schemas/Inner"}]}}}},"responses":{"200":{"description":"ok"}}}}},"components":{"schemas":{"Inner":{"oneOf":[{"type":"string"},{"type":"integer"}]}}}}`,
		"operation_security_on_a_webhook":         `{"openapi":"3.1.0","info":{"title":"t","version":"1"},"paths":{"/a":{"get":{"operationId":"a","responses":{"200":{"description":"ok"}}}}},"webhooks":{"evt":{"post":{"operationId":"hook","security":[{"K":[]}],"requestBody":{"content":{"application/json":{"schema":{"type":"object"}}}},"responses":{"200":{"description":"ok"}}}}},"components":{"securitySchemes":{"K":{"type":"apiKey","in":"header","name":"X-K"}}}}`,
		"recursive_member_nullable_and_optional":  `{"openapi":"3.0.3","info":{"title":"t","version":"1"},"paths":{"/a":{"post":{"operationId":"a","requestBody":{"required":true,"content":{"application/json":{"schema":{"$ref":"#/components/schemas/RNode"}}}},"responses":{"200":{"description":"ok"}}}}},"components":{"schemas":{"RNode":{"type":"object","required":["id"],"properties":{"id":{"type":"integer"},"next":{"nullable":true,"allOf":[{"$ref":"#/components/schemas/RNode"}]}}}}}}`,
		"codes_share_schema":                      `{"openapi":"3.0.3","info":{"title":"t","version":"1"},"paths":{"/a":{"get":{"operationId":"a","responses":{"400":{"description":"c","content":{"application/json":{"schema":{"$ref":"#/components/schemas/E"}}}},"404":{"description":"s","content":{"application/json":{"schema":{"$ref":"#/components/schemas/E"}}}}}}}},"components":{"schemas":{"E":{"type":"object","properties":{"m":{"type":"string"}}}}}}`,
	}
	var fnames []string
	for n := range fixtures {
		fnames = append(fnames, n)
	}
	sort.Strings(fnames)
	for _, n := range fnames {
		for _, ce := range []string{"on", "off"} {
			ps = append(ps, program{ID: "f_" + n + "_" + ce, Group: "fixture", Spec: []byte(fixtures[n]), Opts: featureOpts(hostileFeatures, ce),
				Attrs: map[string]string{"fixture": n, "convenient_errors": ce}, Desc: M{"fixture": n, "convenient_errors": ce}})
		}
	}
	// ----- (E) operations skipped as not implemented, next to healthy operations that share every
	// kind of component with them: skipping an operation must leave no trace in what is generated
	// for the others (a seeded reordering left a cached security entry without its type)
	uniq := M{"type": "array", "uniqueItems": true, "items": M{"type": "object", "properties": M{"a": M{"type": "string"}}}}
	poisons := []struct {
		name string
		at   string // body, response, path, query, header, resp-header, form
		s    M
	}{
		{"complex uniqueItems in the request body", "body", uniq},
		{"complex uniqueItems in the response", "response", uniq},
		{"complex uniqueItems in a response header", "resp-header", uniq},
		{"sum type as required path parameter", "path", M{"oneOf": []any{M{"type": "string"}, M{"type": "integer"}}}},
		{"any type as query parameter", "query", M{}},
		{"complex anyOf in the request body", "body", M{"anyOf": []any{M{"type": "object", "properties": M{"a": M{"type": "string"}}}, M{"type": "object", "properties": M{"a": M{"type": "integer"}}}}}},
		{"allOf enum merging in the response", "response", M{"allOf": []any{M{"type": "string", "enum": []any{"a", "b"}}, M{"type": "string", "enum": []any{"b", "c"}}}}},
		{"non-primitive enum as header parameter", "header", M{"type": "array", "items": M{"type": "string"}, "enum": []any{[]any{"a"}}}},
		{"complex form schema", "form", M{"type": "object", "properties": M{"o": M{"type": "object", "properties": M{"deep": M{"type": "object", "properties": M{"x": M{"type": "array", "items": M{"type": "object"}}}}}}}}},
		{"object default", "body", M{"type": "object", "properties": M{"a": M{"type": "object", "properties": M{"b": M{"type": "string"}}, "default": M{"b": "x"}}}}},
	}
	ref := func(p string) M { return M{"$ref": p} }
	for pi, po := range poisons {
		for li, layout := range [][]bool{{true, false}, {false, true}, {false, true, false}, {true, false, true}} {
			paths := M{}
			for oi, bad := range layout {
				o := M{"operationId": fmt.Sprintf("op%d", oi),
					"security":    []any{M{"K": []any{}}, M{"B": []any{}, "T": []any{}}, M{"O": []any{"read"}}},
					"parameters":  []any{ref("#/components/parameters/P")},
					"requestBody": ref("#/components/requestBodies/RB"),
					"responses":   M{"200": ref("#/components/responses/R"), "default": ref("#/components/responses/E")}}
				path := fmt.Sprintf("/p%d", oi)
				if bad {
					switch po.at {
					case "body":
						o["requestBody"] = M{"required": true, "content": M{"application/json": M{"schema": po.s}}}
					case "form":
						o["requestBody"] = M{"required": true, "content": M{"application/x-www-form-urlencoded": M{"schema": po.s}}}
					case "response":
						o["responses"] = M{"200": M{"description": "ok", "headers": M{"X-H": ref("#/components/headers/H")}, "content": M{"application/json": M{"schema": po.s}}}, "default": ref("#/components/responses/E")}
					case "resp-header":
						o["responses"] = M{"200": M{"description": "ok", "headers": M{"X-H": ref("#/components/headers/H"), "X-Bad": M{"schema": po.s}}, "content": M{"application/json": M{"schema": ref("#/components/schemas/S")}}}, "default": ref("#/components/responses/E")}
					case "path":
						path += "/{id}"
						o["parameters"] = []any{ref("#/components/parameters/P"), M{"name": "id", "in": "path", "required": true, "schema": po.s}}
					default:
						o["parameters"] = []any{ref("#/components/parameters/P"), M{"name": "bad", "in": po.at, "required": true, "schema": po.s}}
					}
				}
				paths[path] = M{"post": o}
			}
			spec := M{"openapi": "3.0.3", "info": M{"title": "t", "version": "1"}, "paths": paths, "components": M{
				"securitySchemes": M{"K": M{"type": "apiKey", "in": "header", "name": "X-K"}, "B": M{"type": "http", "scheme": "basic"}, "T": M{"type": "http", "scheme": "bearer"},
					"O": M{"type": "oauth2", "flows": M{"clientCredentials": M{"tokenUrl": "https://x/t", "scopes": M{"read": "r", "write": "w"}}}}},
				"schemas":       M{"S": M{"type": "object", "required": []any{"a"}, "properties": M{"a": M{"type": "string", "minLength": 1}, "n": ref("#/components/schemas/N")}}, "N": M{"type": "integer", "minimum": 0}, "Err": M{"type": "object", "properties": M{"m": M{"type": "string"}}}},
				"parameters":    M{"P": M{"name": "q", "in": "query", "schema": ref("#/components/schemas/N")}},
				"headers":       M{"H": M{"schema": M{"type": "string"}}},
				"requestBodies": M{"RB": M{"required": true, "content": M{"application/json": M{"schema": ref("#/components/schemas/S")}}}},
				"responses": M{"R": M{"description": "ok", "headers": M{"X-H": ref("#/components/headers/H")}, "content": M{"application/json": M{"schema": ref("#/components/schemas/S")}}},
					"E": M{"description": "e", "content": M{"application/json": M{"schema": ref("#/components/schemas/Err")}}}}}}
			data, _ := json.Marshal(spec)
			for _, ce := range []string{"on", "off"} {
				ps = append(ps, program{ID: fmt.Sprintf("k_%02d_%d_%s", pi, li, ce), Group: "skipped", Spec: data,
					Attrs: map[string]string{"not_implemented": po.name, "layout": fmt.Sprint(layout), "convenient_errors": ce}, Desc: M{"not_implemented": po.name, "skipped_operations": layout, "convenient_errors": ce},
					Opts: func() gen.Options {
						o := featureOpts(hostileFeatures, ce)()
						o.Generator.IgnoreNotImplemented = []string{"all"}
						return o
					}})
			}
		}
	}
	// ----- (S) the synthetic documents the other checks generate from (they only generate, this compiles)
	for _, sd := range []struct{ name, text string }{{"custom-unmarshalers", grammar.CustomSpec}, {"order-sensitive-shapes", grammar.ShapesSpec}, {"path-item-parameters", grammar.PathItemsSpec}, {"component-references", grammar.RefsSpec},
		{"recursive-defaults", grammar.RecursiveDefaultsSpec}, {"recursive-oddity-1", grammar.RecursiveOddities[0]}, {"reference-cycles", grammar.CyclesSpec},
		{"odd-enum-values-and-custom-security", grammar.Oddities[1]}, {"repeated-inline-constructs", grammar.RepeatsSpec}} { // Oddities[0] is only generated (C11): its Go types nest by value 2^40 deep, which is the compiler's problem
		// the same document with every path item (that has no path parameter) turned into a webhook and
		// no path operations left: passes that run "once per document" are easily hung on the path
		// operations and then skipped (a seeded early return left recursive types of a webhooks-only
		// document unbroken)
		var asWebhooks []byte
		{
			var d M
			if json.Unmarshal([]byte(sd.text), &d) == nil {
				hooks, _ := d["webhooks"].(M)
				if hooks == nil {
					hooks = M{}
				}
				if paths, ok := d["paths"].(M); ok {
					for p, item := range paths {
						if !strings.Contains(p, "{") {
							if im, ok := item.(M); ok && im["$ref"] == nil {
								for _, o := range im {
									if om, ok := o.(M); ok {
										delete(om, "security") // security on webhooks: recorded finding, fixtures of its own
									}
								}
								hooks["hook"+strings.NewReplacer("/", "_", "-", "_").Replace(p)] = item
							}
						}
					}
				}
				if len(hooks) > 0 {
					d["webhooks"], d["paths"], d["openapi"] = hooks, M{}, "3.1.0"
					delete(d, "security")
					asWebhooks, _ = json.Marshal(d)
				}
			}
		}
		if asWebhooks != nil {
			sd := sd
			ps = append(ps, program{ID: "y_" + strings.ReplaceAll(sd.name, "-", "_") + "_webhooks_only", Group: "synthetic", Spec: asWebhooks,
				Attrs: map[string]string{"synthetic": sd.name, "convenient_errors": "", "layout": "webhooks-only"}, Desc: M{"synthetic_document": sd.name, "layout": "every path item as a webhook, no path operations"},
				Opts: func() gen.Options {
					o := featureOpts(hostileFeatures, "")()
					o.Parser.InferSchemaType = true
					o.Generator.IgnoreNotImplemented = []string{"all"}
					return o
				}})
		}
		for _, ce := range []string{"on", "off"} {
			sd, ce := sd, ce
			ps = append(ps, program{ID: "y_" + strings.ReplaceAll(sd.name, "-", "_") + "_" + ce, Group: "synthetic", Spec: []byte(sd.text), Tests: true,
				Attrs: map[string]string{"synthetic": sd.name, "convenient_errors": ce}, Desc: M{"synthetic_document": sd.name, "convenient_errors": ce},
				Opts: func() gen.Options {
					var all []string
					for _, f := range gen.AllFeatures {
						all = append(all, f.Name)
					}
					o := featureOpts(all, ce)()
					o.Parser.InferSchemaType = true
					o.Generator.IgnoreNotImplemented = []string{"all"}
					return o
				}})
		}
	}
	// ----- (F) one construct alone: which helper files are written (validators, defaults, ...)
	// depends on whether ANY type of the document needs them, so a construct that is fine inside a rich
	// document can break a document made of nothing else (a seeded change dropped the validators file
	// when sum types were the only validated types)
	{
		schemas, _, comps := grammar.Schemas(r.Thorough())
		extra := []M{
			{"oneOf": []any{M{"type": "string", "minLength": 1}, M{"type": "array", "items": M{"type": "string"}}}},
			{"anyOf": []any{M{"type": "number"}, M{"type": "boolean"}}},
			{"type": "array", "items": M{"oneOf": []any{M{"type": "string", "pattern": "^a"}, M{"type": "integer"}}}},
			{"type": "string", "format": "uuid"}, {"type": "string", "format": "date-time", "default": "2020-01-01T00:00:00Z"}, {"type": "string", "format": "ipv4"}, {"type": "string", "format": "uri"},
			{"type": "string", "format": "byte"}, {"type": "string", "format": "duration"}, {"type": "integer", "format": "int64", "default": 5}, {"type": "number", "format": "float", "default": 1.5},
			{"type": "object", "additionalProperties": true}, {"type": "object", "patternProperties": M{"^x": M{"type": "integer", "minimum": 0}}}, {},
		}
		schemas = append(schemas, extra...)
		for i, sch := range schemas {
			if !r.Thorough() && i%2 == 1 && i < len(schemas)-len(extra) {
				continue
			}
			for _, where := range []string{"request", "response"} {
				op := M{"operationId": "op", "responses": M{"204": M{"description": "ok"}}}
				if where == "request" {
					op["requestBody"] = M{"required": true, "content": M{"application/json": M{"schema": sch}}}
				} else {
					op["responses"] = M{"200": M{"description": "ok", "content": M{"application/json": M{"schema": sch}}}}
				}
				spec := M{"openapi": "3.0.3", "info": M{"title": "t", "version": "1"}, "paths": M{"/a": M{"post": op}}}
				if b, _ := json.Marshal(sch); strings.Contains(string(b), "#/components/") {
					spec["components"] = M{"schemas": comps}
				}
				data, _ := json.Marshal(spec)
				sj, _ := json.Marshal(sch)
				// which sides are generated decides which files use the shared tables (compiled
				// patterns, rationals) and helper files: a construct that feeds those tables is
				// compiled under every one-sided configuration, the others take turns
				sides := [][]string{{"paths/server", "paths/client", "ogen/unimplemented"}, {"paths/client"}, {"paths/server", "ogen/unimplemented"},
					{"paths/client", "client/request/validation", "client/request/options"}, {"paths/server", "server/response/validation"}, {"paths/client", "webhooks/server", "webhooks/client"}}
				sideNames := []string{"client+server", "client-only", "server-only", "client-only+request-validation", "server-only+response-validation", "client+webhook-sides"}
				for k, feats := range sides {
					if !(strings.Contains(string(sj), `"pattern"`) || strings.Contains(string(sj), `"multipleOf"`)) && k != i%len(sides) && k != 0 {
						continue
					}
					ps = append(ps, program{ID: fmt.Sprintf("m_%04d_%s_%d", i, where, k), Group: "minimal", Spec: data, Opts: featureOpts(feats, ""),
						Attrs: map[string]string{"where": where, "schema": string(sj), "sides": sideNames[k]}, Desc: M{"only_construct": json.RawMessage(sj), "as": where, "generated_sides": sideNames[k]}})
				}
			}
		}
	}
	// ----- (G) cross products of small closed sets, each combination alone in a document:
	// type x format (as JSON body and as query parameter), parameter shape x nullable x required x
	// location, and form / multipart bodies of degenerate shapes
	{
		mk := func(id string, op M, attrs map[string]string, desc M) {
			spec := M{"openapi": "3.0.3", "info": M{"title": "t", "version": "1"}, "paths": M{"/a/{pp}": M{"post": op}}}
			// the path parameter is declared unless the operation brings its own
			ps0, _ := op["parameters"].([]any)
			hasPath := false
			for _, p := range ps0 {
				if p.(M)["in"] == "path" {
					hasPath = true
				}
			}
			if !hasPath {
				op["parameters"] = append(ps0, M{"name": "pp", "in": "path", "required": true, "schema": M{"type": "string"}})
			}
			data, _ := json.Marshal(spec)
			ps = append(ps, program{ID: id, Group: "cross", Spec: data, Opts: featureOpts([]string{"paths/server", "paths/client", "ogen/unimplemented"}, ""), Attrs: attrs, Desc: desc})
		}
		ok204 := func() M { return M{"204": M{"description": "ok"}} }
		formats := []string{"int8", "int16", "int32", "int64", "uint", "uint8", "uint16", "uint32", "uint64", "unix", "unix-seconds", "unix-nano", "unix-micro", "unix-milli", "float", "double", "float32", "float64",
			"byte", "base64", "date-time", "date", "time", "duration", "uuid", "mac", "ip", "ipv4", "ipv6", "uri", "password", "email", "hostname", "binary", "int", "decimal", "unknown-format"}
		n := 0
		for _, typ := range []string{"string", "integer", "number", "boolean", "array", "object"} {
			for _, f := range formats {
				sch := M{"type": typ, "format": f}
				if typ == "array" {
					sch["items"] = M{"type": "string"}
				}
				n++
				mk(fmt.Sprintf("x_tf_%03d_body", n), M{"operationId": "op", "requestBody": M{"required": true, "content": M{"application/json": M{"schema": sch}}}, "responses": ok204()},
					map[string]string{"cross": "type-format-body", "type": typ, "format": f}, M{"type": typ, "format": f, "as": "JSON body"})
				if typ != "object" {
					mk(fmt.Sprintf("x_tf_%03d_query", n), M{"operationId": "op", "parameters": []any{M{"name": "q", "in": "query", "schema": sch}}, "responses": ok204()},
						map[string]string{"cross": "type-format-query", "type": typ, "format": f}, M{"type": typ, "format": f, "as": "query parameter"})
				}
			}
		}
		shapes := map[string]M{"string": {"type": "string"}, "integer": {"type": "integer", "minimum": 0}, "array": {"type": "array", "items": M{"type": "string"}}, "array-of-int": {"type": "array", "items": M{"type": "integer"}, "minItems": 1},
			"object": {"type": "object", "properties": M{"a": M{"type": "string"}, "b": M{"type": "integer"}}}, "enum": {"type": "string", "enum": []any{"a", "b"}}, "uuid": {"type": "string", "format": "uuid"}, "date-time": {"type": "string", "format": "date-time"}}
		var shapeNames []string
		for k := range shapes {
			shapeNames = append(shapeNames, k)
		}
		sort.Strings(shapeNames)
		for _, sn := range shapeNames {
			for _, nullable := range []bool{false, true} {
				for _, required := range []bool{false, true} {
					for _, in := range []string{"query", "header", "cookie", "path"} {
						if in == "path" && !required {
							continue
						}
						for _, dflt := range []bool{false, true} {
							sch := grammar.Merge(shapes[sn])
							if nullable {
								sch["nullable"] = true
							}
							if dflt {
								switch sn {
								case "string", "enum":
									sch["default"] = "a"
								case "integer":
									sch["default"] = 1
								default:
									continue
								}
							}
							name := "q"
							if in == "path" {
								name = "pp"
							}
							id := fmt.Sprintf("x_p_%s_%v_%v_%s_%v", strings.ReplaceAll(sn, "-", ""), nullable, required, in, dflt)
							mk(id, M{"operationId": "op", "parameters": []any{M{"name": name, "in": in, "required": required, "schema": sch}}, "responses": ok204()},
								map[string]string{"cross": "parameter", "shape": sn, "nullable": fmt.Sprint(nullable), "required": fmt.Sprint(required), "in": in, "default": fmt.Sprint(dflt)},
								M{"parameter": sn, "nullable": nullable, "required": required, "in": in, "default": dflt})
						}
					}
				}
			}
		}
		bodies := map[string]M{
			"no-properties":           {"type": "object"},
			"empty-properties":        {"type": "object", "properties": M{}},
			"additional-only":         {"type": "object", "additionalProperties": M{"type": "string"}},
			"one-optional":            {"type": "object", "properties": M{"a": M{"type": "string"}}},
			"nullable-member":         {"type": "object", "properties": M{"a": M{"type": "string", "nullable": true}, "n": M{"type": "integer", "nullable": true}}, "required": []any{"a"}},
			"array-members":           {"type": "object", "properties": M{"a": M{"type": "array", "items": M{"type": "string"}}, "n": M{"type": "array", "items": M{"type": "integer"}, "nullable": true}}, "required": []any{"n"}},
			"nested-object":           {"type": "object", "properties": M{"o": M{"type": "object", "properties": M{"x": M{"type": "string"}}}}},
			"enum-and-default-member": {"type": "object", "properties": M{"e": M{"type": "string", "enum": []any{"a", "b"}, "default": "a"}, "t": M{"type": "string", "format": "date-time"}}},
			"only-files":              {"type": "object", "properties": M{"f": M{"type": "string", "format": "binary"}, "fs": M{"type": "array", "items": M{"type": "string", "format": "binary"}}}},
			"optional-file":           {"type": "object", "properties": M{"f": M{"type": "string", "format": "binary"}, "a": M{"type": "integer"}}, "required": []any{"a"}},
			"all-of":                  {"allOf": []any{M{"type": "object", "properties": M{"a": M{"type": "string"}}}, M{"type": "object", "properties": M{"b": M{"type": "integer"}}, "required": []any{"b"}}}},
		}
		var bodyNames []string
		for k := range bodies {
			bodyNames = append(bodyNames, k)
		}
		sort.Strings(bodyNames)
		for _, bn := range bodyNames {
			for _, ct := range []string{"application/x-www-form-urlencoded", "multipart/form-data"} {
				for _, required := range []bool{true, false} {
					mk(fmt.Sprintf("x_b_%s_%s_%v", strings.ReplaceAll(bn, "-", ""), ct[:9], required), M{"operationId": "op", "requestBody": M{"required": required, "content": M{ct: M{"schema": bodies[bn]}}}, "responses": ok204()},
						map[string]string{"cross": "form-body", "body": bn, "media": ct, "required": fmt.Sprint(required)}, M{"form_body": bn, "media": ct, "required": required})
				}
			}
		}
		// one payload in two places of one operation: responses of an operation form one Go interface
		// and one type switch, so two places that resolve to the same Go type must be told apart
		// (per-status aliases); whether they are depends on how the payload is spelled
		payloadComps := M{
			"Obj":     M{"type": "object", "properties": M{"a": M{"type": "string"}}},
			"NObj":    M{"type": "object", "nullable": true, "properties": M{"a": M{"type": "string"}}},
			"NStr":    M{"type": "string", "nullable": true},
			"Str":     M{"type": "string"},
			"En":      M{"type": "string", "enum": []any{"a", "b"}},
			"Arr":     M{"type": "array", "items": M{"type": "string"}},
			"NArr":    M{"type": "array", "nullable": true, "items": M{"type": "integer"}},
			"Map":     M{"type": "object", "additionalProperties": M{"type": "integer"}},
			"Sum":     M{"oneOf": []any{M{"type": "string"}, M{"type": "integer"}}},
			"NSum":    M{"nullable": true, "oneOf": []any{M{"type": "string"}, M{"type": "integer"}}},
			"AliasTo": M{"$ref": "#/components/schemas/Obj"},
		}
		ref := func(n string) M { return M{"$ref": "#/components/schemas/" + n} }
		payloads := []struct {
			name string
			sch  M
		}{
			{"ref-object", ref("Obj")}, {"ref-nullable-object", ref("NObj")}, {"ref-nullable-string", ref("NStr")}, {"ref-string", ref("Str")}, {"ref-enum", ref("En")},
			{"ref-array", ref("Arr")}, {"ref-nullable-array", ref("NArr")}, {"ref-map", ref("Map")}, {"ref-sum", ref("Sum")}, {"ref-nullable-sum", ref("NSum")}, {"ref-to-ref", ref("AliasTo")},
			{"nullable-allof-ref", M{"nullable": true, "allOf": []any{ref("Obj")}}},
			{"inline-string", M{"type": "string"}}, {"inline-nullable-string", M{"type": "string", "nullable": true}}, {"inline-integer", M{"type": "integer"}}, {"inline-nullable-integer", M{"type": "integer", "nullable": true}},
			{"inline-object", M{"type": "object", "properties": M{"a": M{"type": "string"}}}}, {"inline-array-of-ref", M{"type": "array", "items": ref("Obj")}}, {"inline-array-of-string", M{"type": "array", "items": M{"type": "string"}}},
			{"inline-nullable-array", M{"type": "array", "nullable": true, "items": M{"type": "string"}}}, {"inline-map", M{"type": "object", "additionalProperties": M{"type": "string"}}}, {"any", M{}},
			{"binary", M{"type": "string", "format": "binary"}},
		}
		for _, pl := range payloads {
			js := func() M { return M{"application/json": M{"schema": pl.sch}} }
			resp := func() M { return M{"description": "r", "content": js()} }
			placements := []struct {
				name string
				op   M
			}{
				{"two-codes", M{"operationId": "op", "responses": M{"200": resp(), "201": resp()}}},
				{"three-codes", M{"operationId": "op", "responses": M{"200": resp(), "202": resp(), "404": resp()}}},
				{"code-and-default", M{"operationId": "op", "responses": M{"200": resp(), "default": resp()}}},
				{"code-and-no-content", M{"operationId": "op", "responses": M{"200": resp(), "204": M{"description": "n"}}}},
				{"two-media-types-of-a-code", M{"operationId": "op", "responses": M{"200": M{"description": "r", "content": M{"application/json": M{"schema": pl.sch}, "application/problem+json": M{"schema": pl.sch}}}}}},
				{"json-and-text-of-a-code", M{"operationId": "op", "responses": M{"200": M{"description": "r", "content": M{"application/json": M{"schema": pl.sch}, "text/plain": M{"schema": M{"type": "string"}}}}, "201": resp()}}},
				{"two-request-media-types", M{"operationId": "op", "requestBody": M{"required": true, "content": M{"application/json": M{"schema": pl.sch}, "application/merge-patch+json": M{"schema": pl.sch}}}, "responses": ok204()}},
				{"request-and-two-codes", M{"operationId": "op", "requestBody": M{"content": js()}, "responses": M{"200": resp(), "201": resp()}}},
				{"with-headers-on-one", M{"operationId": "op", "responses": M{"200": M{"description": "r", "headers": M{"X-A": M{"schema": M{"type": "string"}}}, "content": js()}, "201": resp()}}},
			}
			for _, plc := range placements {
				for _, conv := range []string{"", "off"} {
					spec := M{"openapi": "3.0.3", "info": M{"title": "t", "version": "1"}, "paths": M{"/a": M{"post": plc.op}}, "components": M{"schemas": payloadComps}}
					data, _ := json.Marshal(spec)
					id := fmt.Sprintf("x_same_%s_%s_%s", strings.ReplaceAll(pl.name, "-", ""), strings.ReplaceAll(plc.name, "-", ""), conv)
					ps = append(ps, program{ID: id, Group: "cross", Spec: data, Opts: featureOpts([]string{"paths/server", "paths/client", "ogen/unimplemented"}, conv),
						Attrs: map[string]string{"cross": "same-payload-twice", "payload": pl.name, "placement": plc.name, "convenient_errors": conv},
						Desc:  M{"payload": pl.name, "placement": plc.name, "convenient_errors": conv}})
				}
			}
		}
	}
	return ps
}

type outcome struct {
	kind string // ok, rejected, panic, goformat, writeerr
	msg  string
}

func generate(p program, dir string) (o outcome) {
	defer func() {
		if rec := recover(); rec != nil {
			o = outcome{"panic", fmt.Sprintf("%v\n%s", rec, trunc(string(debug.Stack()), 1500))}
		}
	}()
	spec, err := ogen.Parse(p.Spec)
	if err != nil {
		return outcome{"rejected", trunc(err.Error(), 200)}
	}
	g, err := gen.NewGenerator(spec, p.Opts())
	if err != nil {
		return outcome{"rejected", trunc(err.Error(), 200)}
	}
	_ = os.MkdirAll(dir, 0o755)
	if err := g.WriteSource(genfs.FormattedSource{Root: dir}, "api"); err != nil {
		_ = os.RemoveAll(dir)
		var fe *gen.ErrGoFormat
		if errors.As(err, &fe) {
			return outcome{"goformat", trunc(err.Error(), 400)}
		}
		return outcome{"writeerr", trunc(err.Error(), 400)}
	}
	return outcome{"ok", ""}
}

func trunc(s string, n int) string {
	if len(s) > n {
		return s[:n] + "..."
	}
	return s
}

var errLine = regexp.MustCompile(`^(?:\./)?pk/([A-Za-z0-9_]+)/(\S+?):(\d+):(\d+): (.*)$`)

func errClass(msg string) string {
	switch {
	case strings.Contains(msg, "redeclared"):
		return "redeclared"
	case strings.Contains(msg, "field and method with the same name"):
		return "field-and-method-same-name"
	case strings.Contains(msg, "duplicate case"):
		return "duplicate-case"
	case strings.Contains(msg, "undefined"):
		return "undefined"
	case strings.Contains(msg, "duplicate field") || strings.Contains(msg, "duplicate method") || strings.Contains(msg, "already declared"):
		return "duplicate-member"
	case strings.Contains(msg, "syntax error") || strings.Contains(msg, "expected"):
		return "syntax"
	}
	return "other"
}

func main() {
	r := vf.Start("C02", "exploration")
	sc := regen.NewScratch(r)
	defer sc.Close()
	ps := programs(r)
	if r.Replay != "" {
		var c struct {
			ID string `json:"program_id"`
		}
		r.ReplayCase(&c)
		var only []program
		for _, p := range ps {
			if p.ID == c.ID {
				only = append(only, p)
			}
		}
		ps = only
	}
	outs := make([]outcome, len(ps))
	var wg sync.WaitGroup
	sem := make(chan struct{}, runtime.NumCPU())
	for i := range ps {
		wg.Add(1)
		sem <- struct{}{}
		go func(i int) {
			defer wg.Done()
			defer func() { <-sem }()
			outs[i] = generate(ps[i], sc.Path("pk/"+ps[i].ID))
		}(i)
	}
	wg.Wait()
	// goimports runs the go command; under load that subprocess can time out ("exec: WaitDelay
	// expired"). That is the environment, not the generator: such cases are re-run alone.
	flakes := 0
	for i := range ps {
		for try := 0; try < 3 && outs[i].kind == "goformat" && strings.Contains(outs[i].msg, "exec:"); try++ {
			flakes++
			outs[i] = generate(ps[i], sc.Path("pk/"+ps[i].ID))
		}
		if outs[i].kind == "goformat" && strings.Contains(outs[i].msg, "exec:") {
			vf.Fatal("goimports cannot run its subprocess even when run alone: %s", outs[i].msg)
		}
	}
	r.Set("goimports_subprocess_timeouts_retried", flakes)
	byID := map[string]int{}
	counts := map[string]map[string]int{}
	for i, p := range ps {
		byID[p.ID] = i
		if counts[p.Group] == nil {
			counts[p.Group] = map[string]int{}
		}
		counts[p.Group][outs[i].kind]++
	}
	// compile everything that was written
	compileErrs := map[string][]string{}
	collect := func(out []byte, vet bool) {
		for _, l := range strings.Split(string(out), "\n") {
			if vet {
				// analyzer findings are not compile errors; type-check failures carry the "vet: " prefix
				if !strings.HasPrefix(l, "vet: ") {
					continue
				}
				l = strings.TrimPrefix(l, "vet: ")
			}
			if m := errLine.FindStringSubmatch(l); m != nil {
				compileErrs[m[1]] = append(compileErrs[m[1]], m[2]+": "+m[5])
			}
		}
	}
	run := func(args ...string) []byte {
		cmd := exec.Command("go", args...)
		cmd.Dir = sc.Dir
		cmd.Env = append(os.Environ(), "GOFLAGS=-mod=mod", "GOPROXY=off", "GOSUMDB=off", "GOTOOLCHAIN=local")
		var buf bytes.Buffer
		cmd.Stdout, cmd.Stderr = &buf, &buf
		_ = cmd.Run()
		return buf.Bytes()
	}
	out := run("build", "./pk/...")
	collect(out, false)
	if bytes.Contains(out, []byte("cannot find module")) || bytes.Contains(out, []byte("no required module")) {
		vf.Fatal("scratch module is broken: %s", trunc(string(out), 2000))
	}
	var vetPkgs []string
	for i, p := range ps {
		if p.Tests && outs[i].kind == "ok" && len(compileErrs[p.ID]) == 0 {
			vetPkgs = append(vetPkgs, "./pk/"+p.ID)
		}
	}
	for lo := 0; lo < len(vetPkgs); lo += 200 {
		hi := lo + 200
		if hi > len(vetPkgs) {
			hi = len(vetPkgs)
		}
		collect(run(append([]string{"vet"}, vetPkgs[lo:hi]...)...), true)
	}
	compiled := 0
	var abnormal []M
	for i, p := range ps {
		o := outs[i]
		attrs := map[string]string{"group": p.Group}
		for k, v := range p.Attrs {
			attrs[k] = v
		}
		detail := M{"program_id": p.ID, "program": p.Desc, "spec": trunc(string(p.Spec), 1500)}
		size := len(p.Spec)
		switch {
		case o.kind == "panic":
			attrs["class"] = "generator-panic/" + p.Group
			detail["panic"] = o.msg
			r.Violation(attrs, size, detail)
		case o.kind == "goformat":
			attrs["class"] = "templates-emitted-unparsable-go/" + p.Group + "/" + attrs["position"]
			detail["error"] = o.msg
			r.Violation(attrs, size, detail)
		case o.kind == "writeerr":
			attrs["class"] = "write-error/" + p.Group
			detail["error"] = o.msg
			r.Violation(attrs, size, detail)
		case o.kind == "ok" && len(compileErrs[p.ID]) > 0:
			ec := errClass(compileErrs[p.ID][0])
			attrs["err_class"] = ec
			attrs["class"] = "generated-package-does-not-compile/" + p.Group + "/" + ec + "/" + attrs["position"] + attrs["fixture"]
			detail["compiler"] = compileErrs[p.ID]
			if len(compileErrs[p.ID]) > 6 {
				detail["compiler"] = compileErrs[p.ID][:6]
			}
			r.Violation(attrs, size, detail)
			abnormal = append(abnormal, M{"id": p.ID, "attrs": p.Attrs, "error": compileErrs[p.ID][0]})
		case o.kind == "ok":
			compiled++
		}
		if o.kind == "panic" || o.kind == "goformat" || o.kind == "writeerr" {
			abnormal = append(abnormal, M{"id": p.ID, "attrs": p.Attrs, "error": trunc(o.msg, 200)})
		}
		r.Eval(1)
		if o.kind != "rejected" {
			r.Nontrivial(p.ID)
		}
		if i%997 == 5 {
			r.Sample(M{"program": p.Desc, "outcome": o.kind})
		}
	}
	r.Set("abnormal_programs", abnormal)
	r.Set("programs", len(ps))
	r.Set("packages_compiled_cleanly", compiled)
	r.Set("outcomes_by_group", counts)
	r.Set("packages_vetted_with_test_files", len(vetPkgs))
	r.Assume("compilation is the real `go build` (and `go vet` for packages with generated test files) in a scratch module whose ogen requirement is replaced by the tree under check",
		"a program the generator rejects with an ordinary error is conforming (counted as rejected, not non-trivial)")
	r.Finish(fmt.Sprintf("(A) hostile names: %d positions (schema, property, parameters per location, path parameter, operationId, enum value, security scheme, api key name, response header, tag, static path, default value, discriminator value, server name, description, content type, x-ogen-name, webhook name) x %d names (keywords, digits-first, quotes, backslash, backquote, newline, Unicode, empty, names of generated identifiers, imported packages and template variables) + 15 collision pairs x 6 positions; (B) every non-empty spec under _testdata/positive and _testdata/examples x {default, all} features (thorough: + client-only, server-only, and specs over 300 KiB); (C) feature subsets of the 11 features on a feature-rich spec x convenient errors on/off (quick: <= 2 or >= 10 features; thorough: all 2048); (D) 5 spec-shape fixtures x convenient errors. distinct non-trivial = program that was written to disk or failed abnormally.", len(positions), len(names)))
}
