// C12 — path normalization is total, canonical, idempotent and meaning-preserving.
//
// (a) uri.NormalizeEscapedPath on every string up to length N over a 12-symbol alphabet, against
//
//	a reference normalizer; (b) every octet 0x00-0xFF as an escape in all four hex-case combinations and raw, in 6 contexts and next to 16 other escapes. (c) parser half: every pair of spellings of small path keys must be
//	reported as duplicates exactly when they are equivalent. The router half (b) is part of C05's
//	regenerated-router run (escaped request variants) and is reported there and here by count.
package main

import (
	"fmt"
	"net/url"
	"runtime"
	"strings"
	"sync"

	"github.com/ogen-go/ogen"
	"github.com/ogen-go/ogen/openapi/parser"
	"github.com/ogen-go/ogen/uri"

	"verif/internal/vf"
)

func isHex(c byte) bool {
	return c >= '0' && c <= '9' || c >= 'a' && c <= 'f' || c >= 'A' && c <= 'F'
}
func hexv(c byte) byte {
	switch {
	case c >= '0' && c <= '9':
		return c - '0'
	case c >= 'a' && c <= 'f':
		return c - 'a' + 10
	}
	return c - 'A' + 10
}
func unreserved(c byte) bool {
	return c >= 'a' && c <= 'z' || c >= 'A' && c <= 'Z' || c >= '0' && c <= '9' || c == '-' || c == '_' || c == '.' || c == '~'
}

// ref is the reference normalizer (RFC 3986 §6.2.2.1/2): every well-formed escape is decoded;
// unreserved octets become literal, all others %HH upper-case; literal bytes are untouched.
func ref(s string) (string, bool) {
	var b strings.Builder
	const hex = "0123456789ABCDEF"
	for i := 0; i < len(s); i++ {
		if s[i] != '%' {
			b.WriteByte(s[i])
			continue
		}
		if i+2 >= len(s) || !isHex(s[i+1]) || !isHex(s[i+2]) {
			return "", false
		}
		o := hexv(s[i+1])<<4 | hexv(s[i+2])
		if unreserved(o) {
			b.WriteByte(o)
		} else {
			b.WriteByte('%')
			b.WriteByte(hex[o>>4])
			b.WriteByte(hex[o&15])
		}
		i += 2
	}
	return b.String(), true
}

// judge returns "" when NormalizeEscapedPath(s) behaves as the property demands.
func judge(s string) (cl string, obs string) {
	wantS, wantOK := ref(s)
	var got string
	var ok bool
	var pan any
	func() {
		defer func() { pan = recover() }()
		got, ok = uri.NormalizeEscapedPath(s)
	}()
	switch {
	case pan != nil:
		return "panic", fmt.Sprint(pan)
	case ok && !wantOK:
		return "invalid-escape-accepted", got
	case !ok && wantOK:
		return "valid-input-rejected", ""
	case ok && got != wantS:
		return "output-differs-from-reference", got
	case ok:
		again, ok2 := uri.NormalizeEscapedPath(got)
		if !ok2 || again != got {
			return "not-idempotent", again
		}
		a, e1 := url.PathUnescape(s)
		b, e2 := url.PathUnescape(got)
		if e1 != nil || e2 != nil || a != b {
			return "octets-differ", got
		}
	}
	return "", ""
}

var alpha = []byte{'%', '2', '4', '6', '1', 'f', 'F', 'd', 'g', '/', '-', 0xE9}

type caseA struct {
	Kind  string `json:"kind"`
	Input string `json:"input_quoted"`
	Obs   string `json:"observed,omitempty"`
	Want  string `json:"reference,omitempty"`
}

func partA(r *vf.Run, maxLen int) {
	type res struct {
		total, nontriv int64
	}
	// shard by the first two symbols
	var prefixes [][]byte
	prefixes = append(prefixes, nil)
	for _, a := range alpha {
		prefixes = append(prefixes, []byte{a})
	}
	jobs := make(chan []byte, 256)
	var wg sync.WaitGroup
	for w := 0; w < runtime.NumCPU(); w++ {
		wg.Add(1)
		go func() {
			defer wg.Done()
			for pre := range jobs {
				var total, nt int64
				buf := append(make([]byte, 0, maxLen), pre...)
				var rec func(n int, hasPct bool)
				rec = func(n int, hasPct bool) {
					s := string(buf)
					total++
					if hasPct {
						nt++ // distinct (odometer) and reaches the escape-handling code
					}
					if cl, obs := judge(s); cl != "" {
						w, _ := ref(s)
						r.Violation(map[string]string{"class": "normalize/" + cl, "input": fmt.Sprintf("%q", s)}, len(s),
							caseA{Kind: "normalize", Input: fmt.Sprintf("%q", s), Obs: obs, Want: w})
					}
					if n == 0 {
						return
					}
					for _, a := range alpha {
						buf = append(buf, a)
						rec(n-1, hasPct || a == '%')
						buf = buf[:len(buf)-1]
					}
				}
				if len(pre) < 2 {
					// the short strings themselves: only this exact prefix
					total++
					if cl, obs := judge(string(pre)); cl != "" {
						w, _ := ref(string(pre))
						r.Violation(map[string]string{"class": "normalize/" + cl, "input": fmt.Sprintf("%q", pre)}, len(pre),
							caseA{Kind: "normalize", Input: fmt.Sprintf("%q", pre), Obs: obs, Want: w})
					}
					if strings.Contains(string(pre), "%") {
						nt++
					}
				} else {
					rec(maxLen-2, strings.Contains(string(pre), "%"))
				}
				r.Eval(total)
				r.NontrivialN(nt)
			}
		}()
	}
	for _, p := range prefixes {
		jobs <- p
	}
	for _, a := range alpha {
		for _, b := range alpha {
			jobs <- []byte{a, b}
		}
	}
	close(jobs)
	wg.Wait()
}

// ---- parser half ----

// atoms of a path-key segment with their spellings; spellings of one atom are equivalent under
// the property's equivalence (hex case, needless escapes of unreserved characters) and atoms are
// pairwise non-equivalent.
var atoms = [][]string{
	{"a", "%61"},
	{"~", "%7E", "%7e"},
	{"%2F", "%2f"},
	{"%C3%A9", "%c3%a9", "%C3%a9"},
	{"-", "%2D", "%2d"},
	{"/"},
	{"{x}"},
	{"k", "%6B", "%6b"},
	{"{y}"},
}

type caseC struct {
	Kind  string `json:"kind"`
	PathA string `json:"path_a"`
	PathB string `json:"path_b"`
	Equiv bool   `json:"equivalent"`
	Err   string `json:"error,omitempty"`
}

// partB: the octet sweep.  The alphabet of part (a) holds a handful of hex digits; which octets are
// unreserved is a per-octet table, so every octet 0x00-0xFF is tried as an escape in the four hex
// case combinations and raw, alone and in five contexts (a seeded change of the classification of
// '~' was only caught through the parser half).
func partB(r *vf.Run) {
	var n int64
	try := func(s string) {
		n++
		if cl, obs := judge(s); cl != "" {
			want, _ := ref(s)
			r.Violation(map[string]string{"class": "normalize/" + cl, "input": fmt.Sprintf("%q", s)}, len(s), caseA{"normalize", fmt.Sprintf("%q", s), obs, want})
		}
	}
	const up, lo = "0123456789ABCDEF", "0123456789abcdef"
	for b := 0; b < 256; b++ {
		var escs []string
		for _, h := range []string{up, lo} {
			for _, l := range []string{up, lo} {
				escs = append(escs, "%"+string(h[b>>4])+string(l[b&15]))
			}
		}
		escs = append(escs, string([]byte{byte(b)}))
		for _, e := range escs {
			for _, ctx := range []string{"@", "/@", "a@b", "@@", "%2F@%2f", "/a/@/b%"} {
				try(strings.ReplaceAll(ctx, "@", e))
			}
			for c := 0; c < 256; c += 17 {
				try(e + fmt.Sprintf("%%%02x", c))
				try(fmt.Sprintf("%%%02X", c) + e)
			}
		}
	}
	// what counts as a hex digit is a per-octet table too: every pair of octets behind a '%', alone,
	// behind a rewritable escape (the slow path) and in front of one
	for b1 := 0; b1 < 256; b1++ {
		for b2 := 0; b2 < 256; b2++ {
			pair := "%" + string([]byte{byte(b1), byte(b2)})
			try("/x" + pair + "y")
			try("/%61" + pair)
			try(pair + "%7e/")
		}
	}
	r.Eval(n)
	r.NontrivialN(n)
	r.Set("octet_sweep_strings", n)
}

func specFor(a, b string) string {
	var sb strings.Builder
	sb.WriteString(`{"openapi":"3.0.3","info":{"title":"t","version":"1"},"paths":{`)
	for i, p := range []string{a, b} {
		if i > 0 {
			sb.WriteString(",")
		}
		params := ""
		var ps []string
		for _, n := range []string{"x", "y"} {
			if strings.Contains(p, "{"+n+"}") {
				ps = append(ps, `{"name":"`+n+`","in":"path","required":true,"schema":{"type":"string"}}`)
			}
		}
		if len(ps) > 0 {
			params = `"parameters":[` + strings.Join(ps, ",") + `],`
		}
		fmt.Fprintf(&sb, `%q:{"get":{%s"operationId":"op%d","responses":{"200":{"description":"ok"}}}}`, p, params, i)
	}
	sb.WriteString(`}}`)
	return sb.String()
}

func parseErr(doc string) (err error, pan any) {
	defer func() { pan = recover() }()
	spec, e := ogen.Parse([]byte(doc))
	if e != nil {
		return e, nil
	}
	_, e = parser.Parse(spec, parser.Settings{})
	return e, nil
}

func judgeC(c *caseC) string {
	err, pan := parseErr(specFor(c.PathA, c.PathB))
	if pan != nil {
		c.Err = fmt.Sprint(pan)
		return "parser-panic"
	}
	dup := err != nil && strings.Contains(err.Error(), "duplicate path")
	if err != nil {
		c.Err = err.Error()
	}
	switch {
	case c.Equiv && !dup:
		return "equivalent-keys-not-reported-duplicate"
	case !c.Equiv && dup:
		return "distinct-keys-reported-duplicate"
	case !c.Equiv && err != nil:
		return "distinct-keys-rejected"
	}
	return ""
}

func partC(r *vf.Run, maxAtoms int) {
	// dedupe spellings
	for i := range atoms {
		seen := map[string]bool{}
		var out []string
		for _, s := range atoms[i] {
			if !seen[s] {
				seen[s] = true
				out = append(out, s)
			}
		}
		atoms[i] = out
	}
	// enumerate atom sequences (the abstract path) and all spellings of each
	type spelled struct {
		abs   string // canonical identity: atom indexes
		texts []string
	}
	var all []spelled
	var seq []int
	var rec func(n int)
	valid := func(seq []int) bool {
		// at most one {x} and one {y}, {y} only after {x} and never adjacent to it (two parameters
		// need text between them); no "//"; no trailing or leading slash atom (the key gets its own "/")
		nx, ny := 0, 0
		for i, a := range seq {
			if a == 6 {
				nx++
			}
			if a == 8 {
				ny++
				if nx == 0 || seq[i-1] == 6 {
					return false
				}
			}
			if a == 5 && (i == 0 || i == len(seq)-1 || seq[i-1] == 5) {
				return false
			}
		}
		return nx <= 1 && ny <= 1
	}
	rec = func(n int) {
		if len(seq) > 0 && valid(seq) {
			texts := []string{"/"}
			for _, a := range seq {
				var next []string
				for _, t := range texts {
					for _, sp := range atoms[a] {
						next = append(next, t+sp)
					}
				}
				texts = next
			}
			all = append(all, spelled{abs: fmt.Sprint(seq), texts: texts})
		}
		if n == 0 {
			return
		}
		for a := range atoms {
			seq = append(seq, a)
			rec(n - 1)
			seq = seq[:len(seq)-1]
		}
	}
	rec(maxAtoms)

	var cases []caseC
	for i, sp := range all {
		// all unordered pairs of spellings of the same abstract path: equivalent
		for x := 0; x < len(sp.texts); x++ {
			for y := x + 1; y < len(sp.texts); y++ {
				cases = append(cases, caseC{Kind: "parser", PathA: sp.texts[x], PathB: sp.texts[y], Equiv: true})
			}
		}
		// first and last spelling against first and last spelling of every later abstract path of
		// the same length that differs in exactly one non-{x} atom: not equivalent
		for j := i + 1; j < len(all); j++ {
			o := all[j]
			if !oneAtomApart(sp.abs, o.abs) {
				continue
			}
			cases = append(cases,
				caseC{Kind: "parser", PathA: sp.texts[0], PathB: o.texts[len(o.texts)-1], Equiv: false},
				caseC{Kind: "parser", PathA: sp.texts[len(sp.texts)-1], PathB: o.texts[0], Equiv: false})
		}
	}
	jobs := make(chan int, 1024)
	var wg sync.WaitGroup
	for w := 0; w < runtime.NumCPU(); w++ {
		wg.Add(1)
		go func() {
			defer wg.Done()
			for i := range jobs {
				c := cases[i]
				if cl := judgeC(&c); cl != "" {
					r.Violation(map[string]string{"class": "parser/" + cl, "path_a": c.PathA, "path_b": c.PathB}, len(c.PathA)+len(c.PathB), c)
				}
				r.Eval(1)
				r.Nontrivial("C:" + c.PathA + "\x00" + c.PathB)
			}
		}()
	}
	for i := range cases {
		jobs <- i
	}
	close(jobs)
	wg.Wait()
	r.Set("parser_pairs", int64(len(cases)))
	if len(cases) > 0 {
		r.Sample(cases[len(cases)/2])
	}
}

func oneAtomApart(a, b string) bool {
	fa, fb := strings.Fields(strings.Trim(a, "[]")), strings.Fields(strings.Trim(b, "[]"))
	if len(fa) != len(fb) {
		return false
	}
	d := 0
	for i := range fa {
		if fa[i] != fb[i] {
			if fa[i] == "6" || fb[i] == "6" || fa[i] == "5" || fb[i] == "5" || fa[i] == "8" || fb[i] == "8" {
				return false
			}
			d++
		}
	}
	return d == 1
}

func main() {
	r := vf.Start("C12", "exploration")
	if r.Replay != "" {
		var c struct {
			Kind  string `json:"kind"`
			Input string `json:"input_quoted"`
			caseC
		}
		r.ReplayCase(&c)
		if c.Kind == "normalize" {
			var s string
			fmt.Sscanf(c.Input, "%q", &s)
			if cl, obs := judge(s); cl != "" {
				fmt.Printf("replay: NormalizeEscapedPath(%q): %s (%s)\n", s, cl, obs)
				r.Violation(map[string]string{"class": "normalize/" + cl, "input": c.Input}, len(s), c)
			}
		} else {
			cc := c.caseC
			cc.Kind = "parser"
			if cl := judgeC(&cc); cl != "" {
				fmt.Printf("replay: %s: %+v\n", cl, cc)
				r.Violation(map[string]string{"class": "parser/" + cl, "path_a": cc.PathA, "path_b": cc.PathB}, 0, cc)
			}
		}
		r.Finish("")
	}
	maxLen, maxAtoms := 6, 3
	if r.Thorough() {
		maxLen, maxAtoms = 8, 4
	}
	partA(r, maxLen)
	partB(r)
	partC(r, maxAtoms)
	r.Set("max_len", maxLen)
	r.Set("alphabet", fmt.Sprintf("%q", alpha))
	r.Sample(caseA{Kind: "normalize", Input: `"%2f%6"`, Want: "(invalid)"})
	r.Sample(caseA{Kind: "normalize", Input: `"/%2d%E9"`, Want: "/-%E9"})
	r.Assume("reference normalizer in cmd/c12 (RFC 3986 6.2.2) is the oracle; net/url PathUnescape is used only for the octet-equality clause",
		"router half (equivalent re-escapings of request paths reach the same operation) is enumerated by the C05 check on regenerated routers")
	r.Finish(fmt.Sprintf("(a) every string of length <= %d over the 12-symbol alphabet through uri.NormalizeEscapedPath vs the reference (ok flag, output, idempotence, octet equality, no panic); non-trivial = distinct string containing '%%'. (b) every octet 0x00-0xFF as an escape in all four hex-case combinations and raw, in 6 contexts and next to 16 other escapes. (c) parser half: all pairs of spellings of every path key of <= %d atoms (must be rejected as duplicate) and first/last spellings of keys one atom apart (must be accepted); each pair distinct.", maxLen, maxAtoms))
}
