// C11 — the generator is total: any input document yields output or a located diagnostic.
//
// Fault enumeration: every node of every base document x every mutation kind (17) in JSON and YAML
// spelling, path keys with broken percent-escapes, and all byte strings <= 5 over a structural
// alphabet, each run through ogen.Parse + gen.NewGenerator (+ WriteSource for survivors) inside
// worker subprocesses (a stack overflow or fatal error kills only the worker and is attributed to
// the job in flight). Oracle: no panic, no crash, terminates; reported positions lie inside the
// document and - for in-place mutations - on the mutated node, its key, an ancestor or a $ref
// pointing at it; JSON and YAML spellings point at the same node.
package main

import (
	"bufio"
	"encoding/json"
	"fmt"
	"io"
	"os"
	"os/exec"
	"path/filepath"
	"regexp"
	"runtime"
	"runtime/debug"
	"sort"
	"strings"
	"sync"
	"time"

	"github.com/go-faster/errors"
	"github.com/go-faster/yaml"
	"github.com/ogen-go/ogen"
	"github.com/ogen-go/ogen/gen"
	"github.com/ogen-go/ogen/location"

	"verif/internal/docmodel"
	"verif/internal/grammar"
	"verif/internal/vf"
)

type job struct {
	Kind  string `json:"kind"` // mutant, pathkey, bytes
	Base  int    `json:"base"`
	Site  int    `json:"site"`
	Mut   int    `json:"mut"`
	Style int    `json:"style"`
	Idx   int    `json:"idx"`    // pathkey variant index
	Pre   string `json:"prefix"` // bytes: all strings with this prefix up to the length bound
	Len   int    `json:"len"`
	Tmpl  int    `json:"tmpl"`          // leaf: template index
	PreIx []int  `json:"pre,omitempty"` // leaf: indices of the first tokens (the job covers every word with this prefix)
}

type result struct {
	Outcome  string   `json:"outcome"` // ok, error, panic
	Err      string   `json:"error,omitempty"`
	Frame    string   `json:"panic_frame,omitempty"`
	Stack    string   `json:"stack,omitempty"`
	Pos      [][2]int `json:"positions,omitempty"` // innermost first
	Millis   int64    `json:"ms"`
	Relation string   `json:"relation,omitempty"` // where the reported position lies relative to the mutated node
	At       string   `json:"reported_at,omitempty"`
	Path     string   `json:"mutated_path,omitempty"`
	Mutation string   `json:"mutation,omitempty"`
	Text     string   `json:"document,omitempty"`
	Errors   int64    `json:"errors,omitempty"` // leaf jobs: documents refused with an error
	Count    int64    `json:"count,omitempty"`  // bytes jobs: strings tried
	Panics   []string `json:"panics,omitempty"` // bytes jobs: inputs that panicked
	Wrote    bool     `json:"write_source,omitempty"`
	Unstable bool     `json:"run_dependent,omitempty"`
	Stderr   string   `json:"worker_stderr,omitempty"`
}

var spellings = []docmodel.Style{{Format: "jsonind"}, {Format: "block", Quote: "plain", Indent: 2}}

var byteAlpha = []string{"{", "}", "[", "]", ":", ",", "\"", "a", "1", "-", "#", "&", "*", "!", "%", " ", "\n", "?"}

type baseDoc struct {
	Name string
	Doc  *docmodel.Node
	// Invalid: the document is refused as it stands, so a diagnostic cannot be attributed to the
	// mutation: only totality and "inside the document" are judged for its mutants
	Invalid bool
}

func loadBases(repo string, thorough bool) []baseDoc {
	files := []string{"_testdata/positive/parameters.json", "_testdata/positive/security.json", "_testdata/positive/allOf.yml", "_testdata/positive/form.json", "_testdata/positive/http_responses.json", "_testdata/positive/webhooks.json"}
	if thorough {
		files = nil
		_ = filepath.Walk(filepath.Join(repo, "_testdata/positive"), func(p string, info os.FileInfo, err error) error {
			if err == nil && !info.IsDir() && info.Size() > 0 && info.Size() < 64<<10 && !strings.Contains(p, "file_reference") {
				rel, _ := filepath.Rel(repo, p)
				files = append(files, rel)
			}
			return nil
		})
		sort.Strings(files)
	}
	var out []baseDoc
	if d, err := docmodel.Parse([]byte(grammar.CustomSpec)); err == nil {
		out = append(out, baseDoc{Name: "custom-unmarshalers (internal/grammar)", Doc: d})
	}
	for i, text := range grammar.RecursiveOddities {
		if d, err := docmodel.Parse([]byte(text)); err == nil {
			out = append(out, baseDoc{Name: fmt.Sprintf("recursive oddity %d (internal/grammar)", i+1), Doc: d, Invalid: i == 1})
		}
	}
	for i, text := range grammar.Oddities {
		if d, err := docmodel.Parse([]byte(text)); err == nil {
			out = append(out, baseDoc{Name: fmt.Sprintf("oddity %d (internal/grammar)", i+1), Doc: d})
		}
	}
	if d, err := docmodel.Parse([]byte(grammar.NestedCompositionsSpec)); err == nil {
		out = append(out, baseDoc{Name: "nested compositions (internal/grammar)", Doc: d})
	}
	if d, err := docmodel.Parse([]byte(grammar.RecursiveDefaultsSpec)); err == nil {
		out = append(out, baseDoc{Name: "recursive schemas in default responses (internal/grammar)", Doc: d})
	}
	if d, err := docmodel.Parse([]byte(grammar.RefsSpec)); err == nil {
		out = append(out, baseDoc{Name: "every component kind reached through references (internal/grammar)", Doc: d})
	}
	if d, err := docmodel.Parse([]byte(grammar.DiamondDefaults(40))); err == nil {
		out = append(out, baseDoc{Name: "equal default responses over two diamond chains of 40 components (internal/grammar)", Doc: d})
	}
	if d, err := docmodel.Parse([]byte(grammar.PathItemsSpec)); err == nil {
		out = append(out, baseDoc{Name: "parameters of path items shared by paths and webhooks (internal/grammar)", Doc: d})
	}
	if d, err := docmodel.Parse([]byte(grammar.ShapesSpec)); err == nil {
		out = append(out, baseDoc{Name: "order-sensitive shapes (internal/grammar)", Doc: d})
	}
	for _, f := range files {
		data, err := os.ReadFile(filepath.Join(repo, f))
		if err != nil {
			continue
		}
		d, err := docmodel.Parse(data)
		if err != nil {
			continue
		}
		out = append(out, baseDoc{Name: f, Doc: d})
	}
	return out
}

var lineZero = regexp.MustCompile(`at [^\s:]*:0(:0)?:`)

var atPos = regexp.MustCompile(`at [^\s:]*:(\d+):(\d+)`)

func cleanFrame(m string) string {
	if i := strings.Index(m, "(0x"); i >= 0 {
		m = m[:i]
	}
	m = strings.TrimSuffix(m, "(...)")
	m = strings.TrimSuffix(m, "(")
	return strings.TrimPrefix(m, "github.com/ogen-go/ogen/")
}

var repoFrame = regexp.MustCompile(`github\.com/ogen-go/ogen[^\s(]*\.[A-Za-z0-9_().*]+`)

// generate runs the pipeline on one document.
// ---------- string-leaf sweeps ----------
// Leaves whose text has its own syntax (path templates with percent-escapes, references, response
// codes, media types, patterns, server URLs, discriminator mappings, security requirement names)
// are parsed by hand-written scanners that index into the string.  Every word up to a length over
// a small alphabet of that syntax's tokens is placed in the leaf of a minimal document, in a JSON
// and a YAML spelling.  Oracle: totality (no panic, crash or hang; success or an error) and a
// reported position inside the document.
type leafTmpl struct {
	Name   string
	Doc    string   // JSON with the hole @@ (replaced by the JSON-quoted word)
	Prefix string   // constant prefix of every word
	Alpha  []string // tokens
	Quick  int      // word length bounds
	Deep   int
}

const leafHead = `{"openapi":"3.0.3","info":{"title":"t","version":"1"},`

var leafTmpls = []leafTmpl{
	{"path template key", leafHead + `"paths":{@@:{"get":{"operationId":"a","parameters":[{"name":"id","in":"path","required":true,"schema":{"type":"string"}}],"responses":{"200":{"description":"ok"}}}}}}`,
		"/", []string{"/", "a", "%", "4", "e", "z", "{id}", "}", "{"}, 5, 6},
	{"two path template keys (second)", leafHead + `"paths":{"/a%2Fb/{id}":{"get":{"operationId":"a","parameters":[{"name":"id","in":"path","required":true,"schema":{"type":"string"}}],"responses":{"200":{"description":"ok"}}}},@@:{"get":{"operationId":"b","responses":{"200":{"description":"ok"}}}}}}`,
		"/a", []string{"/", "b", "%", "2", "F", "f", "{id}", "{x}"}, 5, 6},
	{"schema $ref value", leafHead + `"x-d":{"a/b":{"type":"integer"},"~":{"type":"boolean"},"":{"type":"number"},"0":{"type":"string"}},"paths":{"/a":{"post":{"operationId":"a","requestBody":{"content":{"application/json":{"schema":{"$ref":@@}}}},"responses":{"200":{"description":"ok"}}}}},"components":{"schemas":{"S":{"type":"string"},"L":{"type":"array","items":{"type":"string"}},"0":{"type":"integer"}}}}`,
		"", []string{"#/components/schemas/", "#/x-d/", "#", "/", "S", "a~1b", "~0", "~", "0", "1", "%7E", "%", "L/items", "L", ".", ":"}, 4, 5},
	{"parameter $ref value", leafHead + `"paths":{"/a":{"get":{"operationId":"a","parameters":[{"$ref":@@}],"responses":{"200":{"description":"ok"}}}}},"components":{"parameters":{"P":{"name":"q","in":"query","schema":{"type":"string"}},"0":{"name":"z","in":"query","schema":{"type":"string"}}},"schemas":{"S":{"type":"string"}}}}`,
		"#/components/", []string{"parameters/", "schemas/", "/", "P", "S", "~", "0", "1", "%", "#", "-"}, 4, 5},
	{"response code key", leafHead + `"paths":{"/a":{"get":{"operationId":"a","responses":{@@:{"description":"ok"},"200":{"description":"ok"}}}}}}`,
		"", []string{"2", "0", "5", "X", "x", "default", "-", " ", "1"}, 4, 5},
	{"media type key", leafHead + `"paths":{"/a":{"post":{"operationId":"a","requestBody":{"content":{@@:{"schema":{"type":"string"}}}},"responses":{"200":{"description":"ok","content":{@@:{"schema":{"type":"string"}}}}}}}}}`,
		"", []string{"application", "text", "/", "json", "*", ";", " ", "=", "a", "+", "multipart/form-data", "\""}, 4, 5},
	{"string pattern", leafHead + `"paths":{"/a":{"get":{"operationId":"a","parameters":[{"name":"q","in":"query","schema":{"type":"string","pattern":@@}}],"responses":{"200":{"description":"ok"}}}}}}`,
		"", []string{"a", "[", "]", "(", ")", "\\", "{", "}", "*", "?", "|", "^", "$", "1", ",", "-", "<", "=", "!", "u", "c", "x", "k", ":"}, 3, 4},
	{"server url template", `{"openapi":"3.0.3","info":{"title":"t","version":"1"},"servers":[{"url":@@,"variables":{"v":{"default":"d","enum":["d","e"]},"":{"default":"x"}}}],"paths":{"/a":{"get":{"operationId":"a","responses":{"200":{"description":"ok"}}}}}}`,
		"", []string{"http://h", "/", "{", "}", "v", "%", ":", "{v}", "?", "#"}, 4, 5},
	{"discriminator mapping value", leafHead + `"paths":{"/a":{"post":{"operationId":"a","requestBody":{"content":{"application/json":{"schema":{"oneOf":[{"$ref":"#/components/schemas/A"},{"$ref":"#/components/schemas/B"}],"discriminator":{"propertyName":"k","mapping":{"a":"#/components/schemas/A","b":@@}}}}}},"responses":{"200":{"description":"ok"}}}}},"components":{"schemas":{"A":{"type":"object","required":["k"],"properties":{"k":{"type":"string"}}},"B":{"type":"object","required":["k"],"properties":{"k":{"type":"string"},"z":{"type":"integer"}}}}}}`,
		"", []string{"#/components/schemas/", "#", "/", "A", "B", "~", "1", "%", ".", "x"}, 4, 5},
	{"security requirement name and scheme fields", leafHead + `"paths":{"/a":{"get":{"operationId":"a","security":[{@@:[]}],"responses":{"200":{"description":"ok"}}}}},"components":{"securitySchemes":{"k":{"type":"apiKey","in":"header","name":@@},"":{"type":"http","scheme":@@}}}}`,
		"", []string{"k", "", " ", "basic", "bearer", "K", "-", "/", "\n"}, 3, 4},
	{"parameter name", leafHead + `"paths":{"/a/{id}":{"get":{"operationId":"a","parameters":[{"name":@@,"in":"path","required":true,"schema":{"type":"string"}},{"name":@@,"in":"query","schema":{"type":"object","properties":{"a":{"type":"string"}}},"style":"deepObject","explode":true},{"name":@@,"in":"header","schema":{"type":"string"}},{"name":@@,"in":"cookie","schema":{"type":"string"}}],"responses":{"200":{"description":"ok"}}}}}}`,
		"", []string{"id", "a", "[", "]", "%", " ", ";", "=", "-", "\n", "é"}, 3, 4},
}

// leafYAML re-spells a JSON document as block YAML through the check's own serializer.
func leafYAML(jsonDoc string) string {
	n, err := docmodel.Parse([]byte(jsonDoc))
	if err != nil {
		return ""
	}
	return docmodel.Style{Format: "block", Quote: "double", Indent: 2, KeyQuote: true}.Emit(n)
}

func leafWords(t leafTmpl, pre []int, n int, f func(w string)) {
	w := t.Prefix
	for _, i := range pre {
		w += t.Alpha[i]
	}
	var rec func(w string, left int)
	rec = func(w string, left int) {
		f(w)
		if left == 0 {
			return
		}
		for _, a := range t.Alpha {
			if a == "" {
				continue
			}
			rec(w+a, left-1)
		}
	}
	rec(w, n-len(pre))
}

func generate(data []byte, full bool) (res result) {
	start := time.Now()
	defer func() {
		res.Millis = time.Since(start).Milliseconds()
		if r := recover(); r != nil {
			st := string(debug.Stack())
			res.Outcome = "panic"
			res.Err = fmt.Sprint(r)
			// deepest ogen frame below the panic
			lines := strings.Split(st, "\n")
			for i, l := range lines {
				if strings.Contains(l, "panic(") {
					for _, l2 := range lines[i+1:] {
						if m := repoFrame.FindString(l2); m != "" && !strings.Contains(l2, "verif/") {
							res.Frame = cleanFrame(m)
							break
						}
					}
				}
			}
			if res.Frame == "" {
				if m := repoFrame.FindString(st); m != "" {
					res.Frame = cleanFrame(m)
				}
			}
			if len(st) > 2500 {
				st = st[:2500]
			}
			res.Stack = st
		}
	}()
	spec, err := ogen.Parse(data)
	if err == nil {
		var g *gen.Generator
		g, err = gen.NewGenerator(spec, gen.Options{Parser: gen.ParseOptions{File: location.NewFile("s", "s", data), InferSchemaType: true}, Generator: gen.GenerateOptions{IgnoreNotImplemented: []string{"all"}}})
		if err == nil && full {
			err = g.WriteSource(nopFS{}, "api")
			if err != nil && strings.Contains(err.Error(), "exec:") {
				err = nil // goimports' subprocess timed out: environment
			}
			res.Wrote = true
		}
	}
	if err == nil {
		res.Outcome = "ok"
		return
	}
	res.Outcome = "error"
	res.Err = err.Error()
	if len(res.Err) > 600 {
		res.Err = res.Err[:300] + " ... " + res.Err[len(res.Err)-300:]
	}
	// positions: location.Error chain (innermost last in the chain -> collect all), MultiError, yaml errors
	cur := err
	for cur != nil {
		if le, ok := errors.Into[*location.Error](cur); ok {
			if le.Pos.Line != 0 {
				res.Pos = append([][2]int{{le.Pos.Line, le.Pos.Column}}, res.Pos...)
			}
			cur = le.Err
			continue
		}
		break
	}
	if me, ok := errors.Into[*location.MultiError](err); ok {
		// reports are unexported: read the positions from the rendered text ("at file:line:col: msg")
		for _, m := range atPos.FindAllStringSubmatch(me.Error(), -1) {
			var l, c int
			fmt.Sscanf(m[1], "%d", &l)
			fmt.Sscanf(m[2], "%d", &c)
			if l != 0 {
				res.Pos = append(res.Pos, [2]int{l, c})
			}
		}
	}
	var ue *yaml.UnmarshalError
	if errors.As(err, &ue) && ue.Node != nil && ue.Node.Line != 0 {
		res.Pos = append(res.Pos, [2]int{ue.Node.Line, ue.Node.Column})
	}
	var se *yaml.SyntaxError
	if errors.As(err, &se) && se.Line != 0 {
		res.Pos = append(res.Pos, [2]int{se.Line, -1})
	}
	return
}

type nopFS struct{}

func (nopFS) WriteFile(string, []byte) error { return nil }

// index of node and key start positions of an emitted tree
type posIndex struct {
	starts map[[2]int]string // -> path (longest path wins)
	keys   map[[2]int]string
	all    map[[2]int][]string // every node path whose value or key starts exactly here
	refs   []refSite
	lines  int
}

type refSite struct {
	path   string // of the node holding $ref
	target string
}

func indexTree(n *docmodel.Node, path string, ix *posIndex) {
	k := [2]int{n.SL, n.SC}
	if cur, ok := ix.starts[k]; !ok || len(path) > len(cur) {
		ix.starts[k] = path
	}
	ix.all[k] = append(ix.all[k], path)
	if n.KL != 0 {
		ix.keys[[2]int{n.KL, n.KC}] = path
		ix.all[[2]int{n.KL, n.KC}] = append(ix.all[[2]int{n.KL, n.KC}], path)
	}
	if n.Kind == 'm' {
		for i, key := range n.Keys {
			if key == "$ref" && n.Vals[i].Kind == 'v' && strings.HasPrefix(n.Vals[i].Value, "#/") {
				ix.refs = append(ix.refs, refSite{path, n.Vals[i].Value[1:]})
			}
		}
	}
	for i, v := range n.Vals {
		p := path
		if n.Kind == 'm' {
			p += "/" + strings.ReplaceAll(strings.ReplaceAll(n.Keys[i], "~", "~0"), "/", "~1")
		} else {
			p += fmt.Sprintf("/%d", i)
		}
		indexTree(v, p, ix)
	}
}

func isAncestorOrSelf(a, p string) bool { return a == p || a == "" || strings.HasPrefix(p, a+"/") }

// relate classifies the reported position against the mutated path.
func relate(ix *posIndex, root *docmodel.Node, mutated string, pos [2]int, mnode *docmodel.Node) (rel, at string) {
	if pos[0] < 1 || pos[0] > ix.lines+1 || (pos[1] < 1 && pos[1] != -1) {
		return "outside-the-document", fmt.Sprintf("%d:%d", pos[0], pos[1])
	}
	if pos[1] == -1 {
		return "line-only", fmt.Sprintf("line %d", pos[0])
	}
	cands := ix.all[pos]
	if len(cands) == 0 {
		if mnode != nil && (pos[0] > mnode.SL || (pos[0] == mnode.SL && pos[1] >= mnode.SC)) && (pos[0] < mnode.EL || (pos[0] == mnode.EL && pos[1] <= mnode.EC)) {
			return "self", "inside the mutated node"
		}
		return "on-no-node-of-the-tree", fmt.Sprintf("%d:%d", pos[0], pos[1])
	}
	// in block YAML a collection starts where its first key / item starts: several nodes share one
	// position; the position designates any of them, the most favourable reading counts
	sort.Strings(cands)
	at = strings.Join(cands, " | ")
	rank := map[string]int{"self": 0, "ancestor": 1, "referrer": 2, "descendant": 3, "elsewhere": 4}
	rel = "elsewhere"
	for _, designated := range cands {
		cur := "elsewhere"
		switch {
		case designated == mutated:
			cur = "self"
		case isAncestorOrSelf(designated, mutated):
			cur = "ancestor"
		case strings.HasPrefix(designated, mutated+"/"):
			cur = "descendant"
		default:
			for _, r := range ix.refs {
				if isAncestorOrSelf(r.path, designated) {
					if isAncestorOrSelf(r.target, mutated) || strings.HasPrefix(r.target, mutated+"/") {
						cur = "referrer"
					}
				}
			}
		}
		if rank[cur] < rank[rel] {
			rel = cur
		}
	}
	return rel, at
}

var quoted = regexp.MustCompile(`"([^"\\]{1,60})"`)

// relaxed: two more legitimate attributions for a position that is none of self / ancestor /
// $ref-referrer: (b) a use site linked by name - the diagnostic quotes a name that is a key inside
// the original subtree at the mutated path or a segment of that path (security scheme names,
// encoding / discriminator property names, operation ids); (c) the same construct - the position
// lies in the target of a $ref that sits under the mutated node's parent object.
func relaxed(ix *posIndex, orig *docmodel.Node, mutated string, res result) string {
	names := map[string]bool{}
	for _, seg := range strings.Split(mutated, "/") {
		names[strings.ReplaceAll(strings.ReplaceAll(seg, "~1", "/"), "~0", "~")] = true
	}
	var ss []docmodel.Site
	docmodel.Sites(orig, "", &ss)
	var collect func(n *docmodel.Node)
	collect = func(n *docmodel.Node) {
		for i, v := range n.Vals {
			if n.Kind == 'm' {
				names[n.Keys[i]] = true
			}
			if v.Kind == 'v' && v.Tag == "str" && len(v.Value) < 60 {
				names[v.Value] = true
			}
			collect(v)
		}
	}
	for _, c := range ss {
		if c.Path == mutated {
			n := c.Parent.Vals[c.Idx]
			if n.Kind == 'v' && n.Tag == "str" && len(n.Value) < 60 {
				names[n.Value] = true // the name the node carried before the mutation
			}
			collect(n)
		}
	}
	for _, m := range quoted.FindAllStringSubmatch(res.Err, -1) {
		if names[m[1]] && m[1] != "" {
			return "name-linked-use-site"
		}
	}
	parent := mutated
	if i := strings.LastIndex(parent, "/"); i >= 0 {
		parent = parent[:i]
	}
	// (d) a sibling keyword of the same object: constraints relate keywords of one schema / parameter
	// (default vs type vs nullable, minimum vs maximum), either of them may be blamed
	// (members of a sequence are not keywords of one object: blaming another element is wrong)
	parentIsMap := false
	for _, c := range ss {
		if c.Path == mutated {
			parentIsMap = c.Parent.Kind == 'm'
		}
	}
	for _, cand := range ix.all[res.Pos[0]] {
		if parentIsMap && parent != "" && strings.Count(parent, "/") >= 2 && strings.HasPrefix(cand, parent+"/") {
			return "sibling-keyword-of-the-same-object"
		}
	}
	for _, cand := range ix.all[res.Pos[0]] {
		for _, r := range ix.refs {
			if isAncestorOrSelf(parent, r.path) && parent != "" && strings.Count(parent, "/") >= 3 && isAncestorOrSelf(r.target, cand) {
				return "same-construct-through-ref"
			}
		}
	}
	return "elsewhere"
}

func worker() {
	debug.SetMaxStack(512 << 20)
	repo := os.Getenv("VERIF_REPO")
	if repo == "" {
		repo = "/repo"
	}
	thorough := os.Getenv("VERIF_TIER") == "thorough"
	bases := loadBases(repo, thorough)
	muts := docmodel.Mutations(thorough)
	in := bufio.NewReaderSize(os.Stdin, 1<<20)
	out := json.NewEncoder(os.Stdout)
	for {
		line, err := in.ReadBytes('\n')
		if len(line) > 1 {
			var j job
			if e := json.Unmarshal(line, &j); e != nil {
				fmt.Fprintln(os.Stderr, "bad job", e)
				os.Exit(4)
			}
			_ = out.Encode(runJob(j, bases, muts))
		}
		if err != nil {
			return
		}
	}
}

func runJob(j job, bases []baseDoc, muts []docmodel.Mutation) result {
	switch j.Kind {
	case "bytes":
		var res result
		res.Outcome = "ok"
		var rec func(s string, n int)
		rec = func(s string, n int) {
			res.Count++
			r := generate([]byte(s), false)
			if r.Outcome == "panic" {
				res.Outcome = "panic"
				res.Panics = append(res.Panics, fmt.Sprintf("%q: %s at %s", s, r.Err, r.Frame))
				res.Frame = r.Frame
			}
			if n <= 0 {
				return
			}
			for _, a := range byteAlpha {
				rec(s+a, n-1)
			}
		}
		rec(j.Pre, j.Len-len([]rune(j.Pre)))
		return res
	case "leaf":
		var res result
		res.Outcome = "ok"
		t := leafTmpls[j.Tmpl]
		leafWords(t, j.PreIx, j.Len, func(w string) {
			q, _ := json.Marshal(w)
			jsonDoc := strings.ReplaceAll(t.Doc, "@@", string(q))
			for si, text := range []string{jsonDoc, leafYAML(jsonDoc)} {
				if text == "" {
					continue
				}
				res.Count++
				r := generate([]byte(text), false)
				switch {
				case r.Outcome == "panic":
					res.Outcome = "panic"
					if len(res.Panics) < 5 {
						res.Panics = append(res.Panics, fmt.Sprintf("%s = %q (%s): %s at %s", t.Name, w, []string{"JSON", "YAML"}[si], r.Err, r.Frame))
					}
					res.Frame = r.Frame
					res.Stack = r.Stack
					if res.Text == "" {
						res.Text = text
					}
				case r.Outcome == "error" && len(r.Pos) > 0:
					lines := strings.Count(text, "\n") + 1
					for _, p := range r.Pos {
						if p[0] < 1 || p[0] > lines {
							res.Relation = "outside-the-document"
							res.Err = r.Err
							res.Pos = r.Pos
							if res.Text == "" {
								res.Text = text
							}
						}
					}
				}
				if r.Outcome == "error" {
					res.Errors++
				}
			}
		})
		return res
	case "pathkey":
		variants := docmodel.PathKeyMutations(bases[j.Base].Doc)
		d := variants[j.Idx]
		text := spellings[j.Style].Emit(d)
		res := generate([]byte(text), false)
		res.Mutation = "broken percent-escape in a path key"
		res.Text = text
		return res
	}
	d := bases[j.Base].Doc.Clone()
	var ss []docmodel.Site
	docmodel.Sites(d, "", &ss)
	s := ss[j.Site]
	m := muts[j.Mut]
	if !m.Apply(s) {
		return result{Outcome: "skip"}
	}
	text := spellings[j.Style].Emit(d)
	res := generate([]byte(text), false)
	if res.Outcome == "ok" && (j.Site+j.Mut)%5 == 0 {
		// survivors: every fifth also goes through the templates
		r2 := generate([]byte(text), true)
		if r2.Outcome != "ok" {
			res = r2
		}
		res.Wrote = true
	}
	res.Path, res.Mutation = s.Path, m.Name
	if res.Outcome == "error" {
		// the same document must give the same diagnostic on every run; if it does not, that is
		// non-determinism (C10's subject) and the position clause cannot be judged here
		r2 := generate([]byte(text), false)
		if r2.Err != res.Err || fmt.Sprint(r2.Pos) != fmt.Sprint(res.Pos) {
			res.Unstable = true
		}
	}
	if res.Outcome == "error" && len(res.Pos) == 0 && lineZero.MatchString(res.Err) {
		// the diagnostic names the file and line 0: a position was looked up and lost
		res.Relation = "outside-the-document"
		res.At = "line 0"
	}
	if res.Outcome == "error" && len(res.Pos) > 0 {
		ix := &posIndex{starts: map[[2]int]string{}, keys: map[[2]int]string{}, all: map[[2]int][]string{}, lines: strings.Count(text, "\n") + 1}
		indexTree(d, "", ix)
		var mnode *docmodel.Node
		if m.InPlace {
			var s2 []docmodel.Site
			docmodel.Sites(d, "", &s2)
			for _, c := range s2 {
				if c.Path == s.Path {
					mnode = c.Parent.Vals[c.Idx]
				}
			}
		}
		res.Relation, res.At = relate(ix, d, s.Path, res.Pos[0], mnode)
		if res.Relation == "elsewhere" {
			res.Relation = relaxed(ix, bases[j.Base].Doc, s.Path, res)
		}
		if (!m.InPlace || bases[j.Base].Invalid) && res.Relation != "outside-the-document" {
			res.Relation = "not-judged(" + res.Relation + ")"
		}
	}
	if res.Outcome == "panic" || res.Relation == "elsewhere" || res.Relation == "outside-the-document" || res.Relation == "on-no-node-of-the-tree" {
		if len(text) < 6000 {
			res.Text = text
		}
	}
	return res
}

type proc struct {
	cmd    *exec.Cmd
	in     io.WriteCloser
	out    *bufio.Reader
	stderr *tailBuf
}

type tailBuf struct {
	mu  sync.Mutex
	buf []byte
}

func (t *tailBuf) Write(p []byte) (int, error) {
	t.mu.Lock()
	defer t.mu.Unlock()
	if len(t.buf) < 6000 {
		t.buf = append(t.buf, p...)
	}
	return len(p), nil
}

// aliasChain: a document whose `where` value is a chain of anchors, each holding two aliases of the
// one before.
func aliasChain(where string, levels int) string {
	var sb strings.Builder
	sb.WriteString("openapi: 3.0.3\ninfo: {title: t, version: '1'}\npaths:\n  /a:\n    get:\n      operationId: a\n      responses:\n        '200':\n          description: ok\n          content:\n            application/json:\n              schema:\n                type: object\n")
	ind := "                "
	switch where {
	case "enum":
		sb.WriteString(ind + "enum:\n" + ind + "  - &a0 [x, x]\n")
		for i := 1; i <= levels; i++ {
			fmt.Fprintf(&sb, "%s  - &a%d [*a%d, *a%d]\n", ind, i, i-1, i-1)
		}
	default:
		sb.WriteString(ind + where + ":\n" + ind + "  a0: &a0 [x, x]\n")
		for i := 1; i <= levels; i++ {
			fmt.Fprintf(&sb, "%s  a%d: &a%d [*a%d, *a%d]\n", ind, i, i, i-1, i-1)
		}
	}
	return sb.String()
}

func spawn(tier string) *proc {
	// 12 GiB of address space per worker: far above what any document of the check needs
	cmd := exec.Command("/bin/sh", "-c", "ulimit -v 12582912; exec \"$0\" --worker", os.Args[0])
	cmd.Env = append(os.Environ(), "VERIF_TIER="+tier)
	in, _ := cmd.StdinPipe()
	out, _ := cmd.StdoutPipe()
	tb := &tailBuf{}
	cmd.Stderr = tb
	if err := cmd.Start(); err != nil {
		vf.Fatal("cannot start worker: %v", err)
	}
	return &proc{cmd, in, bufio.NewReaderSize(out, 1<<22), tb}
}

type kase struct {
	Document string   `json:"base_document"`
	Mutation string   `json:"mutation"`
	Path     string   `json:"mutated_path"`
	Spelling string   `json:"spelling"`
	Outcome  string   `json:"outcome"`
	Error    string   `json:"error"`
	Reported string   `json:"reported_at,omitempty"`
	Pos      [][2]int `json:"positions,omitempty"`
	Stack    string   `json:"stack,omitempty"`
	Text     string   `json:"document_text,omitempty"`
	Job      job      `json:"job"`
}

func main() {
	if len(os.Args) > 1 && os.Args[1] == "--worker" {
		worker()
		return
	}
	r := vf.Start("C11", "fault_enumeration")
	bases := loadBases(r.Repo, r.Thorough())
	muts := docmodel.Mutations(r.Thorough())
	var jobs []job
	if r.Replay != "" {
		var c struct {
			Job job `json:"job"`
		}
		r.ReplayCase(&c)
		jobs = []job{c.Job}
	} else {
		for bi, b := range bases {
			var ss []docmodel.Site
			docmodel.Sites(b.Doc, "", &ss)
			for si := range ss {
				for mi := range muts {
					for st := range spellings {
						jobs = append(jobs, job{Kind: "mutant", Base: bi, Site: si, Mut: mi, Style: st})
					}
				}
			}
			for vi := range docmodel.PathKeyMutations(b.Doc) {
				for st := range spellings {
					jobs = append(jobs, job{Kind: "pathkey", Base: bi, Idx: vi, Style: st})
				}
			}
		}
		blen := 4
		if r.Thorough() {
			blen = 5
		}
		for _, a := range byteAlpha {
			for _, b := range byteAlpha {
				jobs = append(jobs, job{Kind: "bytes", Pre: a + b, Len: blen})
			}
		}
		jobs = append(jobs, job{Kind: "bytes", Pre: "", Len: 1})
		for ti, t := range leafTmpls {
			// the YAML spelling must denote the same data as the JSON one (checked on every
			// one- and two-token word: the serializer is this check's own)
			leafWords(t, nil, 2, func(w string) {
				q, _ := json.Marshal(w)
				jd := strings.ReplaceAll(t.Doc, "@@", string(q))
				a, err1 := docmodel.Parse([]byte(jd))
				b, err2 := docmodel.Parse([]byte(leafYAML(jd)))
				canon := docmodel.Style{Format: "jsonind"}
				if err1 != nil || err2 != nil || canon.Emit(a) != canon.Emit(b) {
					vf.Fatal("leaf template %q word %q: the YAML spelling does not denote the same data (%v %v)", t.Name, w, err1, err2)
				}
			})
			n := t.Quick
			if r.Thorough() {
				n = t.Deep
			}
			jobs = append(jobs, job{Kind: "leaf", Tmpl: ti, Len: 0})
			for a := range t.Alpha {
				if t.Alpha[a] == "" {
					continue
				}
				for b := range t.Alpha {
					if t.Alpha[b] == "" {
						continue
					}
					jobs = append(jobs, job{Kind: "leaf", Tmpl: ti, PreIx: []int{a, b}, Len: n})
				}
				jobs = append(jobs, job{Kind: "leaf", Tmpl: ti, PreIx: []int{a}, Len: 1})
			}
		}
	}
	// YAML documents in which every anchored value holds two aliases of the previous one: n levels
	// denote 2^n scalars.  Wherever a value is copied out of the node tree (examples, defaults, enum
	// members, extensions are kept as raw JSON) the copy has to be bounded; workers run under a
	// virtual-memory limit, so an unbounded one ends as a crash of this job, not of the sandbox.
	if r.Replay == "" {
		for _, where := range []string{"example", "default", "enum", "x-ogen-extra"} {
			for _, levels := range []int{8, 27, 40} {
				jobs = append(jobs, job{Kind: "bytes", Pre: aliasChain(where, levels), Len: 0})
			}
		}
	}
	results := make([]result, len(jobs))
	ch := make(chan int, len(jobs))
	for i := range jobs {
		ch <- i
	}
	close(ch)
	var wg sync.WaitGroup
	var crashMu sync.Mutex
	crashes := 0
	for w := 0; w < runtime.NumCPU(); w++ {
		wg.Add(1)
		go func() {
			defer wg.Done()
			p := spawn(r.Tier)
			for i := range ch {
				b, _ := json.Marshal(jobs[i])
				done := make(chan error, 1)
				var line []byte
				go func() {
					if _, err := p.in.Write(append(b, '\n')); err != nil {
						done <- err
						return
					}
					var err error
					line, err = p.out.ReadBytes('\n')
					done <- err
				}()
				var err error
				timedOut := false
				select {
				case err = <-done:
				case <-time.After(10 * time.Minute):
					timedOut = true
				}
				if timedOut || err != nil {
					// the worker died (stack overflow, fatal error, out of memory) or hangs: attribute to this job
					_ = p.cmd.Process.Kill()
					_ = p.cmd.Wait()
					crashMu.Lock()
					crashes++
					crashMu.Unlock()
					p.stderr.mu.Lock()
					tail := string(p.stderr.buf)
					p.stderr.mu.Unlock()
					frame := ""
					if m := repoFrame.FindString(tail); m != "" {
						frame = cleanFrame(m)
					}
					if len(tail) > 2500 {
						tail = tail[:2500]
					}
					results[i] = result{Outcome: "crash", Err: fmt.Sprintf("worker died or hung on this job (timeout=%v, err=%v)", timedOut, err), Stderr: tail, Frame: frame}
					p = spawn(r.Tier)
					continue
				}
				_ = json.Unmarshal(line, &results[i])
			}
			_ = p.in.Close()
			_ = p.cmd.Wait()
		}()
	}
	wg.Wait()

	relCount := map[string]int64{}
	outCount := map[string]int64{}
	leafDocs := map[string]int64{}
	leafErrs := map[string]int64{}
	var slow int64
	// JSON vs YAML spelling must designate the same node: pair up
	type pk struct{ b, s, m int }
	pairs := map[pk][2]*result{}
	for i, j := range jobs {
		res := &results[i]
		if res.Outcome == "skip" {
			continue
		}
		outCount[j.Kind+"/"+res.Outcome]++
		if j.Kind == "bytes" || j.Kind == "leaf" {
			r.Eval(res.Count)
			r.NontrivialN(res.Count)
			if j.Kind == "leaf" {
				leafDocs[leafTmpls[j.Tmpl].Name] += res.Count
				leafErrs[leafTmpls[j.Tmpl].Name] += res.Errors
				if res.Relation == "outside-the-document" {
					r.Violation(map[string]string{"class": "reported-position-outside-the-document/leaf " + leafTmpls[j.Tmpl].Name, "relation": res.Relation, "kind": "leaf"}, len(res.Text),
						kase{Document: leafTmpls[j.Tmpl].Name, Outcome: "error", Error: res.Err, Pos: res.Pos, Text: res.Text, Job: j})
				}
			}
		} else {
			r.Eval(1)
			if res.Outcome != "ok" {
				r.Nontrivial(fmt.Sprint(j))
			}
		}
		if res.Millis > 20000 {
			slow++
		}
		name := ""
		if j.Kind == "leaf" {
			name = "leaf: " + leafTmpls[j.Tmpl].Name
		} else if j.Kind != "bytes" {
			name = bases[j.Base].Name
		}
		k := kase{Document: name, Mutation: res.Mutation, Path: res.Path, Outcome: res.Outcome, Error: res.Err, Reported: res.At, Pos: res.Pos, Stack: res.Stack, Text: res.Text, Job: j}
		if j.Kind != "bytes" && j.Kind != "leaf" {
			k.Spelling = spellings[j.Style].String()
		}
		size := len(res.Path) + len(name)
		switch res.Outcome {
		case "panic":
			if j.Kind == "bytes" || j.Kind == "leaf" {
				k.Error = strings.Join(res.Panics, "; ")
			}
			r.Violation(map[string]string{"class": "panic/" + res.Frame, "frame": res.Frame, "kind": j.Kind}, size, k)
		case "crash":
			k.Stack = res.Stderr
			r.Violation(map[string]string{"class": "crash-or-hang/" + res.Frame, "frame": res.Frame, "kind": j.Kind}, size, k)
		}
		if j.Kind == "mutant" && res.Outcome == "error" && res.Unstable {
			relCount["run-dependent-diagnostic(left to C10)"]++
			continue
		}
		if j.Kind == "mutant" && res.Outcome == "error" {
			rel := res.Relation
			if rel == "" {
				rel = "no-position-in-the-error"
			}
			relCount[rel]++
			switch rel {
			case "elsewhere", "outside-the-document", "on-no-node-of-the-tree", "descendant":
				if rel == "descendant" {
					break // a position inside the mutated subtree is inside the offending node
				}
				r.Violation(map[string]string{"class": "reported-position-" + rel + "/" + res.Mutation, "relation": rel, "mutation": res.Mutation}, size, k)
			}
			key := pk{j.Base, j.Site, j.Mut}
			p := pairs[key]
			p[j.Style] = res
			pairs[key] = p
		}
	}
	var spellingMismatch int64
	for key, p := range pairs {
		if p[0] == nil || p[1] == nil || p[0].At == "" || p[1].At == "" {
			continue
		}
		if !muts[key.m].InPlace {
			continue
		}
		common := false
		for _, a := range strings.Split(p[0].At, " | ") {
			for _, b := range strings.Split(p[1].At, " | ") {
				if a == b {
					common = true
				}
			}
		}
		if !common && !strings.HasPrefix(p[0].At, "inside") && !strings.HasPrefix(p[1].At, "inside") && !strings.Contains(p[0].At, ":") && !strings.Contains(p[1].At, ":") {
			spellingMismatch++
			r.Violation(map[string]string{"class": "JSON-and-YAML-spellings-point-at-different-nodes/" + muts[key.m].Name, "mutation": muts[key.m].Name}, len(p[0].Path),
				kase{Document: bases[key.b].Name, Mutation: muts[key.m].Name, Path: p[0].Path, Outcome: "error", Error: p[0].Err, Reported: "JSON: " + p[0].At + " / YAML: " + p[1].At})
		}
	}
	r.Set("base_documents", len(bases))
	r.Set("mutation_kinds", len(muts))
	r.Set("jobs", len(jobs))
	r.Set("outcomes", outCount)
	r.Set("leaf_sweep_documents", leafDocs)
	r.Set("leaf_sweep_documents_refused", leafErrs)
	r.Set("position_relation_of_located_errors", relCount)
	r.Set("worker_crashes", crashes)
	r.Set("runs_slower_than_20s", slow)
	r.Sample(map[string]any{"base_document": bases[0].Name, "mutation": "retype-int at /paths/~1pets/get/parameters/0/schema", "spelling": "jsonind and YAML block"})
	r.Sample(map[string]any{"kind": "bytes", "prefix": "{\"", "length_bound": 4, "alphabet": strings.Join(byteAlpha, "")})
	r.Assume("every job runs in a worker subprocess; a worker that dies (stack overflow, fatal error) or does not answer within 10 minutes is attributed to the job in flight and reported as crash-or-hang",
		"position clause: innermost location.Error (or MultiError report, or go-faster/yaml unmarshal error node) must lie inside the document; for in-place mutations it must be the mutated node (or inside it), its key, an ancestor, or a $ref node pointing at the mutated node / an ancestor / a descendant; deletions and duplications are only checked for 'inside the document'",
		"bounded memory is only 'the worker did not die'; coverage-guided fuzzing is replaced by the bounded-exhaustive byte strings")
	r.Finish(fmt.Sprintf("every node of %d base documents x %d mutation kinds (retype to int/string/bool/null, empty map/seq/string, delete, -1, 2^64, 1e400, 1.5, dangling $ref, self $ref, $ref to parent, duplicated sibling key, 1000-deep nesting) x {indented JSON, block YAML}; every path key x 6 broken percent-escapes; all byte strings of <= %d symbols over %q. Each through ogen.Parse + gen.NewGenerator (every fifth surviving mutant also through WriteSource). non-trivial = mutant that does not generate / byte string parsed.", len(bases), len(muts), map[bool]int{false: 4, true: 5}[r.Thorough()], strings.Join(byteAlpha, "")))
}
