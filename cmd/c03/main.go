// C03 — the server accepts a body or parameter exactly when it satisfies the schema.
//
// Stage 1: enumerate the schema grammar (DESIGN.md C03), put every schema into one spec as a JSON
// body operation (and, for leaf schemas, as query/path/header parameter operations), regenerate the
// server with the generator under check, build the driver. Stage 2 (drivers/c03): the full product
// schema x universal instance pool against the reference validator (drivers/refval). Afterwards the
// reference verdicts are cross-checked with python jsonschema (Draft 4 + nullable rewrite).
package main

import (
	"encoding/json"
	"fmt"
	"os"
	"os/exec"
	"strings"

	"verif/internal/grammar"
	"verif/internal/regen"
	"verif/internal/vf"
)

type M = grammar.M

type entry struct {
	ID     int    `json:"id"`
	Kind   string `json:"kind"` // body, query, path, header
	Schema M      `json:"schema"`
	// Method / At: for query parameters declared on the path item (default: GET /q<ID>)
	Method string `json:"method,omitempty"`
	At     string `json:"at,omitempty"`
	// object-shaped parameters (kind objparam): the cell and whether the parameter is required
	In       string `json:"in,omitempty"`
	Style    string `json:"style,omitempty"`
	Explode  bool   `json:"explode,omitempty"`
	Required bool   `json:"required,omitempty"`
}

const pyCross = `
import json, sys
from jsonschema import Draft4Validator, RefResolver
data = json.load(open(sys.argv[1]))
comps = data["components"]
def rewrite(s):
    if isinstance(s, list): return [rewrite(x) for x in s]
    if not isinstance(s, dict): return s
    s = {k: rewrite(v) for k, v in s.items()}
    s.pop("discriminator", None)
    s.pop("format", None)
    if s.pop("nullable", False):
        return {"anyOf": [{"type": "null"}, s]}
    return s
root = {"components": {"schemas": {k: rewrite(v) for k, v in comps.items()}}}
out = []
for e in data["pairs"]:
    sch = rewrite(e["schema"])
    sch = dict(sch); sch["components"] = root["components"]
    v = Draft4Validator(sch)
    for inst_text, ref_ok in e["instances"]:
        try:
            inst = json.loads(inst_text)
        except Exception:
            continue
        ok = v.is_valid(inst)
        if ok != ref_ok:
            out.append({"id": e["id"], "instance": inst_text, "python": ok, "reference": ref_ok})
json.dump(out, open(sys.argv[2], "w"))
`

func main() {
	r := vf.Start("C03", "exploration")
	schemas, leaves, comps := grammar.Schemas(r.Thorough())
	var entries []entry
	paths := M{}
	add := func(kind string, s M) {
		i := len(entries)
		entries = append(entries, entry{ID: i, Kind: kind, Schema: s})
		resp := M{"200": M{"description": "ok"}}
		switch kind {
		case "body":
			paths[fmt.Sprintf("/b%d", i)] = M{"post": M{"operationId": fmt.Sprintf("op%d", i),
				"requestBody": M{"required": true, "content": M{"application/json": M{"schema": s}}}, "responses": resp}}
		case "path":
			paths[fmt.Sprintf("/p%d/{v}", i)] = M{"get": M{"operationId": fmt.Sprintf("op%d", i),
				"parameters": []any{M{"name": "v", "in": "path", "required": true, "schema": s}}, "responses": resp}}
		default:
			paths[fmt.Sprintf("/%s%d", kind[:1], i)] = M{"get": M{"operationId": fmt.Sprintf("op%d", i),
				"parameters": []any{M{"name": "v", "in": kind, "required": true, "schema": s}}, "responses": resp}}
		}
	}
	for _, s := range schemas {
		add("body", s)
	}
	for _, l := range leaves {
		for _, kind := range []string{"query", "path", "header"} {
			add(kind, l)
		}
	}
	// parameters declared on the path item and overridden by some of its operations: every operation
	// validates against the declaration that is in force for it (its own if it re-declares the
	// parameter, the path item's otherwise), whatever its siblings do and in whatever order they come
	for i := 0; i+1 < len(leaves) && i < 60; i += 2 {
		a, b := leaves[i], leaves[i+1]
		at := fmt.Sprintf("/pi%d", i)
		item := M{"parameters": []any{M{"name": "v", "in": "query", "required": true, "schema": a}, M{"name": "u", "in": "query", "schema": M{"type": "string"}}}}
		for _, m := range []struct {
			method string
			params []any
			schema M
		}{
			{"get", []any{M{"name": "v", "in": "query", "required": true, "schema": b}}, b}, // overrides, first
			{"put", nil, a}, // inherits
			{"post", []any{M{"name": "w", "in": "query", "schema": M{"type": "integer"}}, M{"name": "v", "in": "query", "required": true, "schema": b}}, b}, // overrides after a parameter of its own
			{"delete", []any{M{"name": "w", "in": "header", "schema": M{"type": "string"}}}, a},                                                             // inherits, with a parameter of its own
			{"patch", []any{M{"name": "u", "in": "query", "schema": M{"type": "integer"}}}, a},                                                              // overrides the other one
		} {
			id := len(entries)
			entries = append(entries, entry{ID: id, Kind: "query", Schema: m.schema, Method: strings.ToUpper(m.method), At: at})
			o := M{"operationId": fmt.Sprintf("op%d", id), "responses": M{"200": M{"description": "ok"}}}
			if m.params != nil {
				o["parameters"] = m.params
			}
			item[m.method] = o
		}
		paths[at] = item
	}
	// object-shaped parameters: a flat object {p: integer <= 5, q: string of at most 2} with every
	// subset of its members required, in every cell that carries objects, as a required and as an
	// optional parameter.  The driver sends every subset of members (valid and invalid values) and no
	// parameter at all: a parameter of which some member is there is present and must satisfy the schema
	for _, cell := range []struct {
		in, style string
		explode   bool
	}{{"query", "form", true}, {"query", "form", false}, {"query", "deepObject", true}, {"header", "simple", false}, {"header", "simple", true}, {"cookie", "form", false}, {"path", "simple", false}, {"path", "simple", true}} {
		for _, req := range [][]any{nil, {"p"}, {"q"}, {"p", "q"}} {
			for _, required := range []bool{true, false} {
				if cell.in == "path" && !required {
					continue
				}
				sch := M{"type": "object", "properties": M{"p": M{"type": "integer", "maximum": 5}, "q": M{"type": "string", "maxLength": 2}}}
				if req != nil {
					sch["required"] = req
				}
				id := len(entries)
				entries = append(entries, entry{ID: id, Kind: "objparam", Schema: sch, In: cell.in, Style: cell.style, Explode: cell.explode, Required: required})
				at := fmt.Sprintf("/o%d", id)
				if cell.in == "path" {
					at += "/{v}"
				}
				paths[at] = M{"get": M{"operationId": fmt.Sprintf("op%d", id), "responses": M{"200": M{"description": "ok"}},
					"parameters": []any{M{"name": "v", "in": cell.in, "style": cell.style, "explode": cell.explode, "required": required, "schema": sch}}}}
			}
		}
	}
	spec := M{"openapi": "3.0.3", "info": M{"title": "t", "version": "1"}, "paths": paths, "components": M{"schemas": comps}}
	data, _ := json.Marshal(spec)

	sc := regen.NewScratch(r)
	defer sc.Close()
	opts := regen.Features("paths/server", "ogen/unimplemented")
	opts.Generator.IgnoreNotImplemented = []string{"all"}
	g, err := regen.Generate(data, opts, sc.Path("api"), "api")
	if err != nil {
		if strings.HasPrefix(err.Error(), "PANIC") {
			r.Violation(map[string]string{"class": "generator-panic-on-grammar-spec"}, 0, map[string]any{"error": err.Error()})
			r.Finish("generation of the grammar spec panicked")
		}
		vf.Fatal("the grammar spec does not generate: %v", err)
	}
	have := map[string]bool{}
	for _, op := range g.Operations() {
		have[strings.ToLower(op.Name)] = true
	}
	var kept []entry
	skipped := 0
	for _, e := range entries {
		if have[fmt.Sprintf("op%d", e.ID)] {
			kept = append(kept, e)
		} else {
			skipped++
		}
	}
	reg, _ := json.Marshal(M{"entries": kept, "components": comps})
	sc.CopyDriver("c03", "driver", "refval")
	sc.Write("driver/schemas.json", reg)
	sc.BuildChecked(r, "driver", "driver.bin")
	replayArg := []string{}
	if r.Replay != "" {
		var c struct {
			Schema   M      `json:"schema"`
			Kind     string `json:"kind"`
			Instance string `json:"instance"`
		}
		r.ReplayCase(&c)
		sj, _ := json.Marshal(c.Schema)
		replayArg = []string{"--only-schema", string(sj), "--only-kind", c.Kind, "--only-instance", c.Instance}
	}
	args := append([]string{"--pairs", sc.Path("pairs.json")}, replayArg...)
	sum := sc.RunDriver(r, "driver.bin", nil, args...)
	// cross-check of the oracle: python jsonschema Draft4 on the same pairs
	disagree := -1
	if py, err := exec.LookPath("python3-vt"); err == nil && r.Replay == "" {
		sc.Write("cross.py", []byte(pyCross))
		cmd := exec.Command(py, sc.Path("cross.py"), sc.Path("pairs.json"), sc.Path("cross.json"))
		if b, err := cmd.CombinedOutput(); err != nil {
			r.Set("python_cross_check_error", string(b))
		} else {
			var dis []M
			b, _ := os.ReadFile(sc.Path("cross.json"))
			_ = json.Unmarshal(b, &dis)
			disagree = len(dis)
			if len(dis) > 10 {
				dis = dis[:10]
			}
			r.Set("reference_vs_python_jsonschema_disagreement_samples", dis)
		}
	}
	r.Set("reference_vs_python_jsonschema_disagreements", disagree)
	r.Set("schemas_in_grammar", len(schemas))
	r.Set("operations_generated", len(kept))
	r.Set("operations_not_implemented_by_generator", skipped)
	for k, v := range sum.Stats {
		r.Set(k, v)
	}
	r.Assume("oracle: drivers/refval (draft-4 keywords + nullable, exact rationals); its verdicts on the non-ambiguous body pairs are cross-checked with python jsonschema Draft4Validator (count in reference_vs_python_jsonschema_disagreements; -1 = python not available)",
		"outside the oracle (counted as ambiguous): 1.0/1e0 for integer, numbers beyond 2^53, non-dyadic multipleOf, 1 vs 1.0 as duplicates or enum members, typeless schemas, oneOf/anyOf instances carrying members that are unique to more than one object variant (ogen discriminates by member presence)",
		"accepted = the request reached the (unimplemented) handler: status 501 and the middleware ran; refused = 4xx without the middleware")
	r.Finish("schemas: grammar of DESIGN.md C03 (integer/number with all subsets of bounds, exclusive flags and multipleOf; strings with all subsets of length/pattern keywords, enums; boolean; nullable variants; arrays of 5 item types x all subsets of {minItems,maxItems,uniqueItems}; objects {p,q} x required subsets x additionalProperties in {absent,false,true,schema}; min/maxProperties; optional/nullable array members; 9 required members; allOf, oneOf/anyOf incl. discriminator mapping; recursive $ref; thorough: all depth-3 wrapper compositions) as JSON body operations, every leaf also as query/path/header parameter. instances: universal pool (~160 JSON texts around every bound/length/pattern used, arrays 0-3 with duplicates, objects over {p,q,z,...}) - the full product. oracle: reference validator verdict <=> (handler reached), invalid => 4xx. non-trivial = distinct (schema, instance) pair with an unambiguous verdict.")
}
