// C19 — generated clients and servers are safe under concurrent use.
//
// Model checking of the implementation: one regenerated client + server pair, its pools (jx) and
// mutexes (regexp2) replaced by scheduler-aware shims, driven by 2-3 logical threads under the
// controlled cooperative scheduler (drivers/verifsched); every interleaving of the hooked
// operations up to a preemption bound is executed (stateless DFS with state-key pruning) and every
// call's outcome is compared with its outcome when run alone. A separate free-running pass of the
// same harness bodies runs under the race detector.
package main

import (
	"bytes"
	"encoding/json"
	"fmt"
	"os"
	"os/exec"
	"path/filepath"
	"regexp"
	"strings"
	"sync"

	"verif/internal/regen"
	"verif/internal/vf"
)

func modVersion(gomod []byte, mod string) string {
	m := regexp.MustCompile(`(?m)^\s*` + regexp.QuoteMeta(mod) + ` (v\S+)`).FindSubmatch(gomod)
	if m == nil {
		vf.Fatal("module %s is not required by the tree under check", mod)
	}
	return string(m[1])
}

func copyModule(sc *regen.Scratch, mod, version, dst string, rewrite map[string]bool) {
	out, err := exec.Command("go", "env", "GOMODCACHE").Output()
	if err != nil {
		vf.Fatal("go env: %v", err)
	}
	src := filepath.Join(strings.TrimSpace(string(out)), mod+"@"+version)
	n := 0
	err = filepath.Walk(src, func(p string, info os.FileInfo, err error) error {
		if err != nil {
			return err
		}
		rel, _ := filepath.Rel(src, p)
		if info.IsDir() {
			if strings.HasPrefix(filepath.Base(p), ".") && rel != "." || filepath.Base(p) == "testdata" {
				return filepath.SkipDir
			}
			return nil
		}
		if strings.HasSuffix(p, "_test.go") {
			return nil
		}
		b, err := os.ReadFile(p)
		if err != nil {
			return err
		}
		if rewrite[rel] {
			if !bytes.Contains(b, []byte("\t\"sync\"\n")) {
				vf.Fatal("%s/%s does not import sync any more: the shim cannot be applied", mod, rel)
			}
			b = bytes.Replace(b, []byte("\t\"sync\"\n"), []byte("\tsync \"verifsched\"\n"), 1)
			n++
		}
		sc.Write(filepath.Join(dst, rel), b)
		return nil
	})
	if err != nil {
		vf.Fatal("copy %s: %v", mod, err)
	}
	if n != len(rewrite) {
		vf.Fatal("only %d of %d files of %s were rewritten", n, len(rewrite), mod)
	}
}

func main() {
	r := vf.Start("C19", "model_checking")
	sc := regen.NewScratch(r)
	defer sc.Close()
	spec, err := os.ReadFile(filepath.Join(r.Home, "drivers", "c19", "spec.yml"))
	if err != nil {
		vf.Fatal("%v", err)
	}
	if _, err := regen.Generate(spec, regen.Features("paths/server", "paths/client", "client/request/options"), sc.Path("api"), "api"); err != nil {
		vf.Fatal("C19 spec does not generate: %v", err)
	}
	gomod, _ := os.ReadFile(filepath.Join(r.Repo, "go.mod"))
	jxV, re2V := modVersion(gomod, "github.com/go-faster/jx"), modVersion(gomod, "github.com/dlclark/regexp2")
	copyModule(sc, "github.com/go-faster/jx", jxV, "jxcopy", map[string]bool{"jx.go": true})
	copyModule(sc, "github.com/dlclark/regexp2", re2V, "regexp2copy", map[string]bool{"regexp.go": true})
	sc.CopyDriver("verifsched", "verifsched")
	vsmod, _ := os.ReadFile(filepath.Join(r.Home, "drivers", "verifsched", "go.mod"))
	sc.Write("verifsched/go.mod", vsmod)
	sc.CopyDriver("c19", "driver")
	base, _ := os.ReadFile(sc.Path("go.mod"))
	race := string(base) + "\nrequire verifsched v0.0.0\n\nreplace verifsched => ./verifsched\n"
	sched := race + "\nreplace github.com/go-faster/jx => ./jxcopy\n\nreplace github.com/dlclark/regexp2 => ./regexp2copy\n"
	sc.Write("go.mod", []byte(sched))
	sc.Write("go.race.mod", []byte(race))
	sum, _ := os.ReadFile(sc.Path("go.sum"))
	sc.Write("go.race.sum", sum)
	// every file of ogen's runtime packages and of the regenerated package that imports "sync" gets the
	// scheduler's shim instead, through a build overlay (the race build keeps the real package): a
	// change that introduces a pool, a mutex or a once there becomes visible to the explorer as
	// scheduling points (a seeded pooled query encoder was seen by the race pass only)
	overlay := map[string]string{}
	shimmed := []string{}
	syncImport := regexp.MustCompile(`(?m)^(\s*)(import\s+)?"sync"\s*$`)
	roots := []string{sc.Path("api")}
	for _, d := range []string{"uri", "http", "json", "validate", "ogenerrors", "middleware", "conv", "ogenregex", "otelogen", "internal"} {
		roots = append(roots, filepath.Join(r.Repo, d))
	}
	for _, root := range roots {
		_ = filepath.Walk(root, func(p string, info os.FileInfo, err error) error {
			if err != nil || info.IsDir() || !strings.HasSuffix(p, ".go") || strings.HasSuffix(p, "_test.go") {
				return nil
			}
			b, err := os.ReadFile(p)
			if err != nil || !syncImport.Match(b) {
				return nil
			}
			nb := syncImport.ReplaceAll(b, []byte("${1}${2}sync \"verifsched\""))
			dst := fmt.Sprintf("shim/f%d.go", len(overlay))
			sc.Write(dst, nb)
			overlay[p] = sc.Path(dst)
			rel, _ := filepath.Rel(r.Repo, p)
			shimmed = append(shimmed, rel)
			return nil
		})
	}
	ob, _ := json.Marshal(map[string]any{"Replace": overlay})
	sc.Write("sync-overlay.json", ob)
	r.Set("files_whose_sync_import_is_the_scheduler_shim", append([]string{"github.com/go-faster/jx/jx.go", "github.com/dlclark/regexp2/regexp.go"}, shimmed...))
	sc.BuildChecked(r, "driver", "driver.bin", "-overlay="+sc.Path("sync-overlay.json"))
	// ----- exhaustive exploration, sharded over processes
	shards := 16
	var wg sync.WaitGroup
	var mu sync.Mutex
	tot := map[string]int64{}
	var samples []any
	info := map[string]any{}
	for i := 0; i < shards; i++ {
		wg.Add(1)
		go func(i int) {
			defer wg.Done()
			args := []string{"--shard", fmt.Sprintf("%d/%d", i, shards)}
			if r.Replay != "" {
				args = append(args, "--replay", r.Replay)
				if i > 0 {
					return
				}
			}
			s := sc.RunDriver(r, "driver.bin", nil, args...)
			mu.Lock()
			for k, v := range s.Stats {
				tot[k] += v
			}
			for k, v := range s.Info {
				info[k] = v
			}
			samples = append(samples, s.Samples...)
			mu.Unlock()
		}(i)
	}
	wg.Wait()
	// ----- free-running race pass (sampling, reported separately; never part of the exhaustive claim)
	raceNote := "not run"
	if r.Replay == "" {
		if err := sc.Build("driver", "driver.race.bin", "-race", "-modfile="+sc.Path("go.race.mod")); err != nil {
			raceNote = "race build not possible in this environment: " + strings.SplitN(err.Error(), "\n", 2)[0]
		} else {
			raceNote = "clean"
			for _, procs := range []string{"1", "2", "4", "16"} {
				cmd := exec.Command(sc.Path("driver.race.bin"), "--free", "--goroutines", "32", "--calls", "60")
				cmd.Env = append(os.Environ(), "GOMAXPROCS="+procs, "GORACE=halt_on_error=1")
				out, err := cmd.CombinedOutput()
				tot["race_pass_runs"]++
				if bytes.Contains(out, []byte("WARNING: DATA RACE")) {
					raceNote = "DATA RACE"
					r.Violation(map[string]string{"class": "data-race-in-free-running-pass"}, 0, map[string]any{"GOMAXPROCS": procs, "report": firstN(string(out), 6000)})
					break
				}
				if err != nil {
					if bytes.Contains(out, []byte("MISMATCH")) {
						r.Violation(map[string]string{"class": "outcome-differs-in-free-running-pass"}, 0, map[string]any{"GOMAXPROCS": procs, "report": firstN(string(out), 3000)})
					} else {
						vf.Fatal("race pass failed to run: %v\n%s", err, firstN(string(out), 3000))
					}
				}
			}
		}
	}
	states, trans, runs := tot["states"], tot["transitions"], tot["schedules"]
	if states < 1 {
		states = 1
	}
	if trans < 1 {
		trans = 1
	}
	r.Set("states", states)
	r.Set("transitions", trans)
	r.Set("traces_validated_against_impl", runs)
	for k, v := range tot {
		r.Set(k, v)
	}
	for k, v := range info {
		r.Set(k, v)
	}
	r.Set("race_pass", raceNote)
	r.Set("shards", shards)
	r.Assume("scheduling points: transport entry/exit, every Read of request and response bodies (7-byte short reads), WriteHeader/Write, handler entry, jx pool Get/Put (before and after), regexp2's runner mutex Lock/Unlock; interleavings of steps between these points are not explored (they touch only request-local state unless the race pass says otherwise)",
		"sync.Pool is modelled as a deterministic LIFO; its permission to drop items is taken as one extra deviation (drop everything before the calls start)",
		"every schedule is an execution of the real regenerated code: traces_validated_against_impl = schedules; there is no separate model",
		"the free-running -race pass is sampling and only reported (race_pass); weak-memory effects and net/http's own goroutines are outside the exploration",
		"regexp2's match-timeout clock goroutine runs outside the scheduler; it only writes an atomic time stamp")
	r.Finish("threads x calls: quick = 2 logical threads x 1 call each, every multiset of 2 calls from a menu of 21 (same operation with different values, validating vs failing requests through the pooled error encoder, fallback-regex and RE2 patterns, form body, two streaming bodies), preemption bound 2; thorough = additionally 3 threads x 1 call (bound 2; every multiset of 3 calls of a 12-call core of one call per mechanism, every other call next to two calls of a four-call sub-core), 2 threads x 2 calls over the core operations (bound 2) and every pair at bound 3. Oracle per schedule: every call's (handler-received arguments, returned value or error) equals the result of the same call run alone; no deadlock. Determinism of the harness is proven on every shard by replaying the first and last schedule twice.")
}

func firstN(s string, n int) string {
	if len(s) > n {
		return s[:n]
	}
	return s
}
