// C01 — generated client and server exchange values without silent change.
//
// Stage 1: (A) a parameter matrix spec: one operation per admitted (in, style, explode) cell x
// value shape (12 primitive types, arrays, flat object, map) x {required, optional, optional with
// default}; (B) a media/response spec (JSON with every member kind, form, multipart, text, octet
// stream, optional body; response codes, patterns, default, headers). Both are regenerated as
// client + server; glue (recording handler, operation table) is emitted from the IR.
// Stage 2 (drivers/c01): every value of the bounded space goes Client -> in-process transport ->
// Server -> recording middleware -> recording handler -> scripted response -> Client.
package main

import (
	"encoding/json"
	"fmt"
	"os"
	"path/filepath"
	"strings"

	"github.com/ogen-go/ogen/gen"

	"verif/internal/regen"
	"verif/internal/vf"
)

type M = map[string]any

type cell struct {
	Loc      string `json:"in"`
	Style    string `json:"style"`
	Explode  bool   `json:"explode"`
	Shape    string `json:"shape"`
	Required bool   `json:"required"`
	Default  any    `json:"default,omitempty"`
	Schema   M      `json:"schema"`
	// Multi: an operation with several parameters p0..pn, driven together (the cell itself is unused)
	Multi []cell `json:"multi,omitempty"`
}

func shapes() map[string]M {
	return map[string]M{
		"string":   {"type": "string"},
		"int32":    {"type": "integer", "format": "int32"},
		"int64":    {"type": "integer", "format": "int64"},
		"float":    {"type": "number", "format": "float"},
		"double":   {"type": "number", "format": "double"},
		"boolean":  {"type": "boolean"},
		"uuid":     {"type": "string", "format": "uuid"},
		"date":     {"type": "string", "format": "date"},
		"datetime": {"type": "string", "format": "date-time"},
		"ipv4":     {"type": "string", "format": "ipv4"},
		"uri":      {"type": "string", "format": "uri"},
		"enum":     {"type": "string", "enum": []any{"a", "b c", "d,e"}},
		"strings":  {"type": "array", "items": M{"type": "string"}},
		"ints":     {"type": "array", "items": M{"type": "integer"}},
		"object":   {"type": "object", "properties": M{"a": M{"type": "string"}, "b": M{"type": "string"}}},
		"map":      {"type": "object", "additionalProperties": M{"type": "string"}},
	}
}

var prims = []string{"string", "int32", "int64", "float", "double", "boolean", "uuid", "date", "datetime", "ipv4", "uri", "enum"}

var defaults = map[string]any{"string": "dflt", "int32": 7, "int64": -7, "double": 0.5, "boolean": true, "enum": "b c", "datetime": "2020-02-29T23:59:59Z", "uuid": "123e4567-e89b-12d3-a456-426614174000"}

func matrix() (M, []cell) {
	var cells []cell
	sh := shapes()
	add := func(loc, style string, explode bool, names ...string) {
		for _, n := range names {
			for _, mode := range []string{"required", "optional", "default"} {
				if loc == "path" && mode != "required" {
					continue
				}
				c := cell{Loc: loc, Style: style, Explode: explode, Shape: n, Required: mode == "required", Schema: sh[n]}
				if mode == "default" {
					d, ok := defaults[n]
					if !ok {
						continue
					}
					c.Default = d
					s := M{}
					for k, v := range sh[n] {
						s[k] = v
					}
					s["default"] = d
					c.Schema = s
				}
				cells = append(cells, c)
			}
		}
	}
	for _, st := range []string{"simple", "label", "matrix"} {
		for _, ex := range []bool{false, true} {
			add("path", st, ex, append(append([]string{}, prims...), "strings", "ints", "object", "map")...)
		}
	}
	for _, ex := range []bool{false, true} {
		add("query", "form", ex, append(append([]string{}, prims...), "strings", "ints", "object", "map")...)
		add("query", "pipeDelimited", ex, "strings", "ints")
		add("header", "simple", ex, append(append([]string{}, prims...), "strings", "ints", "object", "map")...)
	}
	add("query", "deepObject", true, "object", "map")
	add("cookie", "form", false, append(append([]string{}, prims...), "strings", "ints", "object", "map")...)
	add("cookie", "form", true, prims...)
	// several parameters in one operation: encoders and decoders keep state per call, not per
	// parameter, so what one parameter leaves behind must not reach the next (a seeded reuse of the
	// array buffer of the query encoder was invisible while every operation had one parameter)
	mc := func(loc, style string, explode bool, shape string, required bool) cell {
		return cell{Loc: loc, Style: style, Explode: explode, Shape: shape, Required: required, Schema: sh[shape]}
	}
	multis := [][]cell{
		{mc("query", "form", true, "strings", true), mc("query", "form", true, "strings", false), mc("query", "form", true, "ints", false), mc("query", "form", false, "strings", false)},
		{mc("query", "form", true, "object", false), mc("query", "form", true, "strings", false), mc("query", "pipeDelimited", false, "strings", false), mc("query", "form", true, "string", false)},
		{mc("query", "deepObject", true, "object", false), mc("query", "form", false, "object", false), mc("query", "form", false, "ints", true), mc("query", "form", false, "map", false)},
		{mc("header", "simple", false, "strings", true), mc("header", "simple", true, "strings", false), mc("header", "simple", false, "ints", false), mc("header", "simple", true, "object", false)},
		{mc("cookie", "form", false, "strings", true), mc("cookie", "form", false, "strings", false), mc("cookie", "form", false, "object", false), mc("cookie", "form", true, "string", false)},
		{mc("path", "simple", false, "strings", true), mc("path", "label", true, "strings", true), mc("path", "matrix", true, "object", true), mc("path", "matrix", false, "ints", true)},
		{mc("query", "form", true, "strings", false), mc("header", "simple", false, "strings", false), mc("cookie", "form", false, "strings", false), mc("path", "simple", false, "strings", true)},
	}
	for _, m := range multis {
		cells = append(cells, cell{Multi: m})
	}
	paths := M{}
	for i, c := range cells {
		if c.Multi != nil {
			path := fmt.Sprintf("/c%d", i)
			var ps []any
			for j, mcell := range c.Multi {
				name := fmt.Sprintf("p%d", j)
				ps = append(ps, M{"name": name, "in": mcell.Loc, "style": mcell.Style, "explode": mcell.Explode, "required": mcell.Required, "schema": mcell.Schema})
				if mcell.Loc == "path" {
					path += "/{" + name + "}"
				}
			}
			paths[path] = M{"get": M{"operationId": fmt.Sprintf("c%d", i), "parameters": ps, "responses": M{"200": M{"description": "ok"}}}}
			continue
		}
		p := M{"name": "p", "in": c.Loc, "style": c.Style, "explode": c.Explode, "required": c.Required, "schema": c.Schema}
		path := fmt.Sprintf("/c%d", i)
		if c.Loc == "path" {
			path += "/{p}"
		}
		paths[path] = M{"get": M{"operationId": fmt.Sprintf("c%d", i), "parameters": []any{p}, "responses": M{"200": M{"description": "ok"}}}}
	}
	return M{"openapi": "3.0.3", "info": M{"title": "t", "version": "1"}, "paths": paths}, cells
}

func paramGlue(g *gen.Generator, cells []cell) string {
	var sb, methods strings.Builder
	sb.WriteString("package api\n\nimport (\n\t\"context\"\n\t\"reflect\"\n)\n\n// VerifHandler records what each operation received.\ntype VerifHandler struct {\n\tGot   any\n\tCalls int\n}\n\n")
	sb.WriteString("// VerifOp describes one generated operation.\ntype VerifOp struct {\n\tName   string\n\tParams reflect.Type\n\tCell   string\n}\n\nvar VerifOps = []VerifOp{\n")
	for _, op := range g.Operations() {
		var idx int
		fmt.Sscanf(op.Name, "C%d", &idx)
		cj, _ := json.Marshal(cells[idx])
		fmt.Fprintf(&sb, "\t{%q, reflect.TypeOf(%sParams{}), %q},\n", op.Name, op.Name, string(cj))
		fmt.Fprintf(&methods, "func (h *VerifHandler) %s(ctx context.Context, params %sParams) error {\n\th.Got = params\n\th.Calls++\n\treturn nil\n}\n\n", op.Name, op.Name)
	}
	sb.WriteString("}\n\n" + methods.String())
	return sb.String()
}

func main() {
	r := vf.Start("C01", "exploration")
	sc := regen.NewScratch(r)
	defer sc.Close()
	spec, cells := matrix()
	data, _ := json.Marshal(spec)
	configs := [][]string{{"paths/server", "paths/client"}}
	if r.Thorough() {
		configs = append(configs, []string{"paths/server", "paths/client", "client/request/validation", "server/response/validation", "ogen/otel", "ogen/unimplemented", "debug/example_tests"})
	}
	body, err := os.ReadFile(filepath.Join(r.Home, "drivers", "c01", "media_spec.yml"))
	if err != nil {
		vf.Fatal("%v", err)
	}
	totalOps := 0
	for ci, feats := range configs {
		pdir, mdir := fmt.Sprintf("cfg%d/papi", ci), fmt.Sprintf("cfg%d/mapi", ci)
		g, err := regen.Generate(data, regen.Features(feats...), sc.Path(pdir), "api")
		if err != nil {
			if strings.HasPrefix(err.Error(), "PANIC") {
				r.Violation(map[string]string{"class": "generator-panic-on-matrix-spec"}, 0, M{"error": err.Error()})
				r.Finish("generation panicked")
			}
			vf.Fatal("parameter matrix spec does not generate: %v", err)
		}
		totalOps += len(g.Operations())
		sc.Write(pdir+"/verif_glue.go", []byte(paramGlue(g, cells)))
		if _, err := regen.Generate(body, regen.Features(feats...), sc.Path(mdir), "api"); err != nil {
			vf.Fatal("media spec does not generate: %v", err)
		}
		// one driver per configuration (same sources, different import root)
		sc.CopyDriver("c01", fmt.Sprintf("driver%d", ci))
		_ = os.Remove(sc.Path(fmt.Sprintf("driver%d/media_spec.yml", ci)))
		imp := fmt.Sprintf("//go:build verifdriver\n\npackage main\n\nimport (\n\tpapi \"scratch/%s\"\n\tmapi \"scratch/%s\"\n)\n\nvar _ = papi.VerifOps\nvar _ mapi.Handler\n", pdir, mdir)
		_ = imp
		for _, f := range []string{"params.go", "media.go", "main.go"} {
			p := sc.Path(fmt.Sprintf("driver%d/%s", ci, f))
			b, _ := os.ReadFile(p)
			b = []byte(strings.ReplaceAll(strings.ReplaceAll(string(b), "\"scratch/papi\"", "\"scratch/"+pdir+"\""), "\"scratch/mapi\"", "\"scratch/"+mdir+"\""))
			_ = os.WriteFile(p, b, 0o644)
		}
		sc.BuildChecked(r, fmt.Sprintf("driver%d", ci), fmt.Sprintf("driver%d.bin", ci))
		sum := sc.RunDriver(r, fmt.Sprintf("driver%d.bin", ci), nil, "--config", strings.Join(feats, ","))
		for k, v := range sum.Stats {
			r.Add(k, v)
		}
	}
	r.Set("parameter_operations", totalOps)
	r.Set("configurations", len(configs))
	r.Assume("in-process transport mimics http.Transport (a non-nil body with ContentLength 0 means unknown length); no sockets, no net/http goroutines",
		"core domain: non-empty text without the cell's delimiters and without leading/trailing blanks or control bytes, finite numbers, times at the format's resolution; for core values an error on either side is itself a violation, for all values a delivered value must equal the sent one",
		"identified: nil and empty collections where the schema cannot tell them apart; an optional exploded object with no member set and an absent one (no serialization at all); a scripted response whose status code is claimed by a more specific declared response is outside the oracle",
		"header values with leading/trailing blanks or control bytes are net/http's business and are outside the domain")
	r.Finish("(A) one operation per admitted (in, style, explode) cell x shape (string, int32, int64, float, double, boolean, uuid, date, date-time, ipv4, uri, enum, string array, integer array, flat object, map) x {required, optional, optional+default}: every string of <= 2 symbols over an 18-symbol delimiter alphabet, boundary numbers, formatted values with zones, arrays of 0-3 items, objects/maps over adversarial member names; absent-with-default must arrive as the default; middleware.Request.Params must equal the handler's arguments. (B) JSON bodies with every member kind (Opt/Nil/OptNil, arrays, map, 3-variant sum, date/date-time, recursion, defaults) x all response variants (200 with required/optional/array headers, 201 no content, 4XX pattern, default), form, multipart (file bytes, file names, CR/LF in fields), text/plain and octet-stream up to 1 MB, optional body. thorough: second feature configuration with request/response validation and telemetry on. non-trivial = distinct (operation, value) delivered or refused (every call crosses both codecs).")
}
