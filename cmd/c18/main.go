// C18 — JSON value equality used for enums and defaults is semantic equality.
//
// All ordered pairs of a pool of JSON texts (leaves incl. adversarial number spellings and string
// escapes; arrays and objects up to depth 2 in several spellings) through json.Equal, compared
// with the exact reference model (internal/jsonref). Malformed half: every truncation and several
// one-byte extensions of every text. Enum tie-in: jsonschema's duplicate-enum detection on pairs.
package main

import (
	"github.com/ogen-go/ogen/openapi/parser"
	"github.com/ogen-go/ogen"
	"strconv"
	"sort"
	stdjson "encoding/json"
	"fmt"
	"runtime"
	"strings"
	"sync"

	ogenjson "github.com/ogen-go/ogen/json"
	"github.com/ogen-go/ogen/jsonpointer"
	"github.com/ogen-go/ogen/jsonschema"

	"verif/internal/jsonref"
	"verif/internal/vf"
)

type pairCase struct {
	Kind string `json:"kind"`
	A    string `json:"a"`
	B    string `json:"b"`
	C    string `json:"c,omitempty"`
	Want string `json:"reference"`
	Got  string `json:"observed"`
}

func equal(a, b string) (got bool, err error, pan any) {
	defer func() { pan = recover() }()
	got, err = ogenjson.Equal([]byte(a), []byte(b))
	return
}

func judgePair(a, b string) (cl string, c pairCase) {
	ra, rb := jsonref.Canon(a), jsonref.Canon(b)
	if !ra.OK || !rb.OK || ra.Dup || rb.Dup {
		vf.Fatal("pool text is not well-formed: %q / %q", a, b)
	}
	want := ra.Canon == rb.Canon
	got, err, pan := equal(a, b)
	c = pairCase{Kind: "pair", A: a, B: b, Want: fmt.Sprint(want), Got: fmt.Sprint(got)}
	switch {
	case pan != nil:
		c.Got = fmt.Sprint("panic: ", pan)
		return "panic", c
	case err != nil:
		c.Got = "error: " + err.Error()
		return "error-on-well-formed-input", c
	case got && !want:
		return "different-values-reported-equal", c
	case !got && want:
		return "same-value-reported-unequal", c
	}
	return "", c
}

func judgeMalformed(m, other string, mLeft bool) (cl string, c pairCase) {
	a, b := m, other
	if !mLeft {
		a, b = other, m
	}
	got, err, pan := equal(a, b)
	c = pairCase{Kind: "malformed", A: a, B: b, Want: "error or false", Got: fmt.Sprintf("%v, err=%v", got, err)}
	if pan != nil {
		c.Got = fmt.Sprint("panic: ", pan)
		return "malformed-panic", c
	}
	if got && err == nil {
		return "malformed-reported-equal", c
	}
	return "", c
}

func enumDup(a, b string) (dup bool, errText string, pan any) {
	defer func() { pan = recover() }()
	p := jsonschema.NewParser(jsonschema.Settings{})
	raw := &jsonschema.RawSchema{Enum: jsonschema.Enum{stdjson.RawMessage(a), stdjson.RawMessage(b)}}
	_, err := p.Parse(raw, jsonpointer.NewResolveCtx(jsonpointer.DummyURL(), 1000))
	if err != nil {
		return strings.Contains(err.Error(), "duplicate enum value"), err.Error(), nil
	}
	return false, "", nil
}

func enumDupN(typ string, members []string) (dup bool, errText string, pan any) {
	defer func() { pan = recover() }()
	p := jsonschema.NewParser(jsonschema.Settings{})
	raw := &jsonschema.RawSchema{Type: typ}
	for _, m := range members {
		raw.Enum = append(raw.Enum, stdjson.RawMessage(m))
	}
	if typ == "array" {
		raw.Items = &jsonschema.RawItems{Item: &jsonschema.RawSchema{Type: "number"}}
	}
	_, err := p.Parse(raw, jsonpointer.NewResolveCtx(jsonpointer.DummyURL(), 1000))
	if err != nil {
		return strings.Contains(err.Error(), "duplicate enum value"), err.Error(), nil
	}
	return false, "", nil
}

func judgeEnum(a, b string) (cl string, c pairCase) {
	want := jsonref.Canon(a).Canon == jsonref.Canon(b).Canon
	dup, et, pan := enumDup(a, b)
	c = pairCase{Kind: "enum", A: a, B: b, Want: fmt.Sprint("duplicate=", want), Got: fmt.Sprintf("duplicate=%v err=%q", dup, et)}
	switch {
	case pan != nil:
		c.Got = fmt.Sprint("panic: ", pan)
		return "enum-panic", c
	case dup && !want:
		return "enum-distinct-members-rejected-as-duplicate", c
	case !dup && want:
		return "enum-duplicate-members-not-detected", c
	}
	return "", c
}

func pool(thorough bool) (texts []string, leaves []string, small []string) {
	nums := []string{"0", "-0", "0.0", "0e5", "1", "1.0", "1e0", "10e-1", "0.1", "1e-1", "0.10000000000000000001",
		"9007199254740992", "9007199254740993", "9007199254740992.0", "1e400", "10e399", "2e400", "1e-400", "2e-400",
		"-1", "1E0", "1.5", "15e-1", "1e1000001", "-1.0", "100", "1e2", "1E+2", "0.00", "-0.0e-7", "123456789012345678901234567890", "123456789012345678901234567891", "1.23456789012345678901234567890e29"}
	// every spelling sign x integer part x fraction x exponent over small digit sets: the same value
	// is reached through many (integer part, leading fraction zeros, exponent) combinations
	// (a seeded change that kept the leading zeros of the fraction when the integer part is 0 was
	// missed by the hand-picked list above)
	for _, sg := range []string{"", "-"} {
		for _, ip := range []string{"0", "1", "5", "10", "12", "50", "100"} {
			for _, fr := range []string{"", ".0", ".5", ".05", ".50", ".005", ".25", ".10", ".00"} {
				for _, ex := range []string{"", "e0", "e1", "e-1", "e2", "e-2", "E+1", "e-3", "e3", "e+0"} {
					nums = append(nums, sg+ip+fr+ex)
				}
			}
		}
	}
	strs := []string{`""`, `"a"`, `"A"`, `"\u0061"`, `"\n"`, `"\u000a"`, `"\u000A"`, `"é"`, `"\u00e9"`, `"\u00E9"`, `"😀"`, `"\ud83d\ude00"`, `"\uD83D\uDE00"`, `"1"`, `"\/"`, `"/"`, `"\\"`, `"\u005c"`, `"null"`, `" "`, `"a "`, `"\u0000"`, `"\t"`, `"\u0009"`}
	leaves = append([]string{"null", "true", "false"}, nums...)
	leaves = append(leaves, strs...)
	texts = append(texts, leaves...)
	small = []string{"null", "true", "1", "1.0", "2", `"a"`, `"\u0061"`, "9007199254740993", "9007199254740992.0", "[]", "{}", "[1]", `{"a":1}`}
	if thorough {
		small = append(small, "0.1", "1e-1", "[1.0]", "[null]", "1e400", "10e399", `{"a":1.0}`, "false", `""`)
	}
	keys := [][2]string{{`"a"`, `"b"`}, {`"\u0061"`, `"b"`}, {`""`, `"a"`}}
	for _, a := range small {
		texts = append(texts, "["+a+"]", "[ "+a+" ]", "[\n\t"+a+"\r]", `{"a":`+a+`}`, `{ "a" : `+a+` }`, `{"\u0061":`+a+`}`, `{"":`+a+`}`, `{"b":`+a+`}`,
			"[["+a+"]]", `{"a":[`+a+`]}`, `{"a":{"b":`+a+`}}`, `[{"a":`+a+`}]`)
		for _, b := range small {
			texts = append(texts, "["+a+","+b+"]", "["+a+" , "+b+"]")
			for _, k := range keys {
				texts = append(texts, `{`+k[0]+`:`+a+`,`+k[1]+`:`+b+`}`, `{`+k[1]+`:`+b+`,`+k[0]+`:`+a+`}`)
			}
		}
	}
	sub := small
	if len(sub) > 7 {
		sub = []string{"null", "1", "1.0", `"a"`, "[]", "{}", "9007199254740993"}
	}
	for _, a := range sub {
		for _, b := range sub {
			texts = append(texts, "[["+a+"],"+b+"]", "[["+a+","+b+"]]", `{"a":[`+a+`,`+b+`]}`, `[{"a":`+a+`,"b":`+b+`}]`, `[{"b":`+b+`,"a":`+a+`}]`,
				`{"a":{"a":`+a+`,"b":`+b+`}}`, `{"a":{"b":`+b+`,"a":`+a+`}}`)
			if thorough {
				for _, c := range sub {
					texts = append(texts, "["+a+","+b+","+c+"]")
				}
			}
		}
	}
	texts = append(texts, " 1 ", "\n[\n]\n", "{ }", "[ ]", "\t{\t}\t", " null", "true ")
	seen := map[string]bool{}
	var T []string
	for _, t := range texts {
		if !seen[t] {
			seen[t] = true
			T = append(T, t)
		}
	}
	return T, leaves, small
}

func main() {
	r := vf.Start("C18", "exploration")
	if r.Replay != "" {
		var c pairCase
		r.ReplayCase(&c)
		var cl string
		var out pairCase
		switch c.Kind {
		case "pair":
			cl, out = judgePair(c.A, c.B)
		case "enum":
			cl, out = judgeEnum(c.A, c.B)
		case "triple":
			g1, _, _ := equal(c.A, c.B)
			g2, _, _ := equal(c.B, c.C)
			g3, _, _ := equal(c.A, c.C)
			if g1 && g2 && !g3 {
				cl, out = "not-transitive", c
			}
		default:
			_, errA, _ := equal(c.A, c.A)
			ra := jsonref.Canon(c.A)
			mLeft := !(ra.OK && errA == nil)
			if mLeft {
				cl, out = judgeMalformed(c.A, c.B, true)
			} else {
				cl, out = judgeMalformed(c.B, c.A, false)
			}
		}
		if cl != "" {
			fmt.Printf("replay: %s: %+v\n", cl, out)
			r.Violation(map[string]string{"class": cl, "a": c.A, "b": c.B}, 0, out)
		}
		r.Finish("")
	}

	T, leaves, small := pool(r.Thorough())
	canon := make([]string, len(T))
	for i, t := range T {
		rc := jsonref.Canon(t)
		if !rc.OK || rc.Dup {
			vf.Fatal("pool text %q is not well-formed", t)
		}
		canon[i] = rc.Canon
		// cross-check of the reference parser's well-formedness verdict against encoding/json
		if !stdjson.Valid([]byte(t)) {
			vf.Fatal("reference accepts %q but encoding/json does not", t)
		}
	}
	n := len(T)
	R := make([][]bool, n)
	mismatchRow := make([]bool, n)
	var wg sync.WaitGroup
	rows := make(chan int, n)
	classes := map[string]bool{}
	var mu sync.Mutex
	for w := 0; w < runtime.NumCPU(); w++ {
		wg.Add(1)
		go func() {
			defer wg.Done()
			for i := range rows {
				R[i] = make([]bool, n)
				for j := 0; j < n; j++ {
					got, err, pan := equal(T[i], T[j])
					R[i][j] = got && err == nil && pan == nil
					want := canon[i] == canon[j]
					if pan != nil || err != nil || got != want {
						cl, c := judgePair(T[i], T[j])
						mismatchRow[i] = true
						r.Violation(map[string]string{"class": cl, "a": T[i], "b": T[j], "cause": cause(T[i], T[j], cl)}, len(T[i])+len(T[j]), c)
					}
				}
				r.Eval(int64(n))
				mu.Lock()
				classes[canon[i]] = true
				mu.Unlock()
			}
		}()
	}
	for i := 0; i < n; i++ {
		rows <- i
	}
	close(rows)
	wg.Wait()
	// every ordered pair is distinct; non-trivial = both texts differ byte-wise (the comparison
	// cannot be settled by byte equality)
	r.NontrivialN(int64(n) * int64(n-1))

	// relation laws on the enumerated set, extracted explicitly when something was off
	for i := 0; i < n; i++ {
		if !mismatchRow[i] {
			continue
		}
		if !R[i][i] {
			r.Violation(map[string]string{"class": "not-reflexive", "a": T[i], "b": T[i], "cause": cause(T[i], T[i], "")}, len(T[i]), pairCase{Kind: "pair", A: T[i], B: T[i], Want: "true", Got: "false"})
		}
		for j := 0; j < n; j++ {
			if R[i][j] != R[j][i] {
				r.Violation(map[string]string{"class": "not-symmetric", "a": T[i], "b": T[j], "cause": cause(T[i], T[j], "")}, len(T[i])+len(T[j]), pairCase{Kind: "pair", A: T[i], B: T[j], Want: "Equal(a,b)==Equal(b,a)", Got: fmt.Sprint(R[i][j], R[j][i])})
			}
			if !R[i][j] {
				continue
			}
			for k := 0; k < n; k++ {
				if R[j][k] && !R[i][k] {
					r.Violation(map[string]string{"class": "not-transitive", "a": T[i], "b": T[j], "c": T[k], "cause": cause(T[i], T[k], "")}, len(T[i])+len(T[j])+len(T[k]),
						pairCase{Kind: "triple", A: T[i], B: T[j], C: T[k], Want: "a~b and b~c imply a~c", Got: "a~b, b~c, not a~c"})
				}
			}
		}
	}

	// malformed half
	var malN int64
	jobs := make(chan int, n)
	for w := 0; w < runtime.NumCPU(); w++ {
		wg.Add(1)
		go func() {
			defer wg.Done()
			for i := range jobs {
				t := T[i]
				var vars []string
				for cut := 0; cut < len(t); cut++ {
					vars = append(vars, t[:cut])
				}
				for _, g := range []string{"x", "]", "}", ",", "1", "\"", ":", "\x00", "n"} {
					vars = append(vars, t+g, t+" "+g)
				}
				// one character before or after the text: every byte value and every Unicode space
				// (JSON knows four white space characters; the others make the text malformed)
				for _, e := range edgeChars {
					vars = append(vars, e+t, t+e)
				}
				var cnt int64
				for _, m := range vars {
					if jsonref.Canon(m).OK {
						continue
					}
					for _, other := range []string{t, m} {
						for _, left := range []bool{true, false} {
							cnt++
							if cl, c := judgeMalformed(m, other, left); cl != "" {
								r.Violation(map[string]string{"class": cl, "a": c.A, "b": c.B, "cause": "malformed:" + malKind(t, m)}, len(m)+len(other), c)
							}
						}
					}
					r.Nontrivial("M" + m)
				}
				r.Eval(cnt)
				mu.Lock()
				malN += cnt
				mu.Unlock()
			}
		}()
	}
	for i := 0; i < n; i++ {
		jobs <- i
	}
	close(jobs)
	wg.Wait()

	// enum tie-in: all ordered pairs over leaves + small composites
	E := append(append([]string{}, leaves...), small...)
	E = append(E, "[1,null]", "[null]", "[[1],null]", `{"a":null}`, `{"a":1,"b":2}`, `{"b":2,"a":1}`, "[1.0]", "[1]")
	var enumN int64
	ej := make(chan int, len(E))
	for w := 0; w < runtime.NumCPU(); w++ {
		wg.Add(1)
		go func() {
			defer wg.Done()
			for i := range ej {
				for j := range E {
					if cl, c := judgeEnum(E[i], E[j]); cl != "" {
						r.Violation(map[string]string{"class": cl, "a": E[i], "b": E[j], "cause": cause(E[i], E[j], cl)}, len(E[i])+len(E[j]), c)
					}
				}
				r.Eval(int64(len(E)))
			}
		}()
	}
	for i := range E {
		ej <- i
	}
	close(ej)
	wg.Wait()
	enumN = int64(len(E)) * int64(len(E))

	// the same question asked through a document: the enum of a parameter schema in an OpenAPI
	// document (JSON text; members travel through the YAML front end and the raw-value conversion)
	{
		docMembers := []string{"1", "1.0", "1e0", "10e-1", "2", "0.1", "1e-1", "0.10000000000000001", "9007199254740992", "9007199254740993", "9007199254740992.0", "18446744073709551616", "18446744073709551617",
			"1e400", "2e400", "1e-400", "2e-400", "0", "-0", "0.0", "123456789012345678901234567890", "123456789012345678901234567891", "0.5", "5e-1", "-1", "-1.0",
			`"a"`, `"\u0061"`, `"1"`, `"b"`, `""`, "true", "false", "null", "[]", "[1]", "[1.0]", "{}", `{"a":1}`, `{"a":1.0}`}
		var docN int64
		for _, a := range docMembers {
			for _, b := range docMembers {
				docN++
				want := jsonref.Canon(a).Canon == jsonref.Canon(b).Canon
				doc := `{"openapi":"3.0.3","info":{"title":"t","version":"1"},"paths":{"/a":{"get":{"operationId":"a","parameters":[{"name":"q","in":"query","schema":{"enum":[` + a + `,` + b + `]}}],"responses":{"200":{"description":"ok"}}}}}}`
				dup, et, pan := func() (dup bool, et string, pan any) {
					defer func() { pan = recover() }()
					spec, err := ogen.Parse([]byte(doc))
					if err == nil {
						_, err = parser.Parse(spec, parser.Settings{})
					}
					if err != nil {
						return strings.Contains(err.Error(), "duplicate enum value"), err.Error(), nil
					}
					return false, "", nil
				}()
				c := pairCase{Kind: "enum-in-document", A: a, B: b, Want: fmt.Sprint("duplicate=", want), Got: fmt.Sprintf("duplicate=%v err=%q", dup, trunc(et, 200))}
				// float64 collapse: the two members are different decimals that become the same float64
				fa, ea := strconv.ParseFloat(a, 64)
				fb, eb := strconv.ParseFloat(b, 64)
				cause := ""
				if ea == nil && eb == nil && (fa == fb) {
					cause = "same-float64"
				} else if (ea != nil) != (eb != nil) || (ea != nil && eb != nil && (a[0] >= '0' && a[0] <= '9' || a[0] == '-') && (b[0] >= '0' && b[0] <= '9' || b[0] == '-')) {
					cause = "float64-overflow"
				}
				switch {
				case pan != nil:
					c.Got = fmt.Sprint("panic: ", pan)
					r.Violation(map[string]string{"class": "enum-in-document-panic", "a": a, "b": b}, len(a)+len(b), c)
				case dup && !want:
					r.Violation(map[string]string{"class": "enum-in-document-distinct-members-rejected-as-duplicate", "a": a, "b": b, "cause": cause}, len(a)+len(b), c)
				case !dup && want && et == "":
					r.Violation(map[string]string{"class": "enum-in-document-duplicate-members-not-detected", "a": a, "b": b, "cause": cause}, len(a)+len(b), c)
				}
			}
		}
		r.Eval(docN)
		r.Set("enum_pairs_through_a_document", docN)
	}

	// positional enums: every enum of 3 and of 4 members over a small value set (all JSON types, two
	// spellings of some values), untyped and under each matching `type`: a duplicate must be found
	// wherever the two equal members stand (first/last, adjacent or not) and whatever the type
	typed := map[string][]string{
		"":        {"null", "true", "1", "1.0", "2", `"a"`, `"\u0061"`, `"b"`, "[]", "[1]", "[1.0]", "{}", `{"a":1}`, `{"a":1.0}`},
		"string":  {`"a"`, `"\u0061"`, `"b"`, `""`, `"A"`},
		"integer": {"1", "2", "1e0", "10", "1e1"},
		"number":  {"1", "1.0", "0.5", "5e-1", "2"},
		"boolean": {"true", "false"},
		"array":   {"[]", "[1]", "[1.0]", "[ 1 ]", "[1,2]", "[2,1]"},
		"object":  {"{}", `{"a":1}`, `{"a":1.0}`, `{"a":1,"b":2}`, `{"b":2,"a":1}`, `{"a":2}`},
	}
	var listDup, listOK, listOther int64
	var tnames []string
	for t := range typed {
		tnames = append(tnames, t)
	}
	sort.Strings(tnames)
	for _, typ := range tnames {
		vals := typed[typ]
		var rec func(cur []string, n int)
		rec = func(cur []string, n int) {
			if len(cur) == n {
				enumN++
				want := false
				for i := range cur {
					for j := i + 1; j < len(cur); j++ {
						if jsonref.Canon(cur[i]).Canon == jsonref.Canon(cur[j]).Canon {
							want = true
						}
					}
				}
				dup, et, pan := enumDupN(typ, cur)
				if dup && want {
					listDup++
				}
				if !dup && !want && et == "" {
					listOK++
				}
				c := pairCase{Kind: "enum-list", A: typ, B: strings.Join(cur, " | "), Want: fmt.Sprint("duplicate=", want), Got: fmt.Sprintf("duplicate=%v err=%q", dup, et)}
				switch {
				case pan != nil:
					c.Got = fmt.Sprint("panic: ", pan)
					r.Violation(map[string]string{"class": "enum-panic", "a": typ, "b": c.B}, len(c.B), c)
				case et != "" && !dup:
					// refused for another reason (value does not fit the type): outside this oracle
					listOther++
				case dup && !want:
					r.Violation(map[string]string{"class": "enum-distinct-members-rejected-as-duplicate", "a": typ, "b": c.B}, len(c.B), c)
				case !dup && want:
					r.Violation(map[string]string{"class": "enum-duplicate-members-not-detected", "a": typ, "b": c.B}, len(c.B), c)
				}
				return
			}
			for _, v := range vals {
				rec(append(cur, v), n)
			}
		}
		rec(nil, 3)
		if len(vals) <= 8 {
			rec(nil, 4)
		}
	}
	r.Eval(enumN - int64(len(E))*int64(len(E)))
	r.Set("enum_lists_with_duplicate_detected", listDup)
	r.Set("enum_lists_without_duplicate_accepted", listOK)
	r.Set("enum_lists_refused_for_another_reason", listOther)

	r.Set("texts", n)
	r.Set("ordered_pairs", int64(n)*int64(n))
	r.Set("distinct_values_in_pool", len(classes))
	r.Set("malformed_comparisons", malN)
	r.Set("enum_pairs", enumN)
	r.Sample(pairCase{Kind: "pair", A: "9007199254740993", B: "9007199254740992.0", Want: "false"})
	r.Sample(pairCase{Kind: "pair", A: `{"a":1,"b":[1.0]}`, B: `{ "b" : [1e0], "a":10e-1 }`, Want: "true"})
	r.Sample(pairCase{Kind: "malformed", A: "[1]", B: "[1]]", Want: "error or false"})
	r.Sample(pairCase{Kind: "enum", A: "[null]", B: "[null]", Want: "duplicate=true"})
	r.Assume("oracle: internal/jsonref (strict RFC 8259 parser, exact decimal numbers, sorted members, UTF-16 code units); its well-formedness verdict is cross-checked with encoding/json on every pool text",
		"objects with duplicate member names and lone surrogate escapes are outside the domain (no agreed value) and are not generated",
		"because the reference is an equivalence relation, agreement on all ordered pairs implies reflexivity, symmetry and transitivity on the enumerated set")
	r.Finish("all ordered pairs of the text pool (leaves: null/booleans, 33 number spellings incl. beyond 2^53 and huge exponents, 19 string spellings; arrays/objects up to depth 2 over a small value set in compact / padded / permuted / escaped-key spellings) through json.Equal vs the exact reference; non-trivial = ordered pair of byte-different texts. Malformed half: every proper prefix and 18 one-byte extensions of every text that the reference rejects, compared with the original and with itself on both sides; distinct malformed texts counted. Enum tie-in: all ordered pairs over leaves + small composites through jsonschema's enum parser.")
}

// cause names the root cause of a mismatch by the shape of the operands, so that a known finding
// keyed by cause does not mask a different one.
func cause(a, b, cl string) string {
	ra, rb := jsonref.Canon(a), jsonref.Canon(b)
	if strings.Contains(a, "null") && (strings.Contains(a, "[") || strings.Contains(a, "{")) && ra.Canon == rb.Canon {
		return "null-inside-composite"
	}
	if ra.Canon != rb.Canon && numericOnlyDiff(ra.Canon, rb.Canon) {
		return "numbers-differ-beyond-float64"
	}
	return "other"
}

// numericOnlyDiff: the canonical texts differ only inside number tokens.
func numericOnlyDiff(a, b string) bool {
	strip := func(s string) string {
		var sb strings.Builder
		inStr := false
		for i := 0; i < len(s); i++ {
			c := s[i]
			if c == '"' {
				inStr = !inStr
			}
			if !inStr && (c >= '0' && c <= '9' || c == '-' || c == 'e') {
				if sb.Len() == 0 || sb.String()[sb.Len()-1] != '#' {
					sb.WriteByte('#')
				}
				continue
			}
			// "true"/"false" contain 'e': handled because letters other than e are kept
			sb.WriteByte(c)
		}
		return sb.String()
	}
	return strip(a) == strip(b)
}

func malKind(orig, m string) string {
	if len(m) < len(orig) {
		return "truncated"
	}
	if strings.HasSuffix(m, orig) {
		return "leading-data"
	}
	return "trailing-data"
}

// edgeChars: every single byte and every Unicode white space character (unicode.IsSpace and the
// byte order mark), as UTF-8.
var edgeChars = func() []string {
	var out []string
	for b := 0; b < 256; b++ {
		out = append(out, string([]byte{byte(b)}))
	}
	for _, r := range []rune{0x85, 0xA0, 0x1680, 0x2000, 0x2001, 0x2002, 0x2003, 0x2004, 0x2005, 0x2006, 0x2007, 0x2008, 0x2009, 0x200A, 0x2028, 0x2029, 0x202F, 0x205F, 0x3000, 0xFEFF, 0x200B} {
		out = append(out, string(r))
	}
	return out
}()

func trunc(s string, n int) string {
	if len(s) > n {
		return s[:n] + "..."
	}
	return s
}
