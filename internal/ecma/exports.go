package ecma

// Pattern is a parsed ECMA-262 (Unicode-aware, no Annex B) pattern of the reference matcher.
type Pattern struct {
	n    node
	ncap int
}

// Parse returns an error for anything outside the strict grammar.
func Parse(p string) (*Pattern, error) {
	n, ncap, err := parsePattern(p)
	if err != nil {
		return nil, err
	}
	return &Pattern{n, ncap}, nil
}

// Match reports whether the pattern matches anywhere in s (err = step budget exceeded).
func (p *Pattern) Match(s string) (bool, error) { return refMatch(p.n, p.ncap, s) }
