package ecma

// Reference ECMA-262 matcher over code points (no flags, no Annex B), written
// from the spec's pattern semantics: continuation-passing backtracking.

import (
	"errors"
	"strconv"
)

type node interface{}

type (
	nAlt   struct{ alts []node }         // Disjunction
	nSeq   struct{ items []node }        // Alternative
	nChar  struct{ set func(rune) bool } // single code point matcher
	nStart struct{}
	nEnd   struct{}
	nWordB struct{ neg bool }
	nGroup struct {
		sub node
		cap int // 0 = non-capturing
	}
	nLook struct {
		sub         node
		behind, neg bool
	}
	nBackref struct{ n int }
	nRepeat  struct {
		sub      node
		min, max int // max -1 = inf
		lazy     bool
	}
)

var errSyntax = errors.New("syntax")

type parser struct {
	src  []rune
	pos  int
	ncap int
}

func isLineTerm(r rune) bool { return r == '\n' || r == '\r' || r == 0x2028 || r == 0x2029 }
func isWord(r rune) bool {
	return r >= 'a' && r <= 'z' || r >= 'A' && r <= 'Z' || r >= '0' && r <= '9' || r == '_'
}
func isDigit(r rune) bool { return r >= '0' && r <= '9' }
func isSpace(r rune) bool {
	switch r {
	case '\t', '\n', '\v', '\f', '\r', ' ', 0xA0, 0x1680, 0x2028, 0x2029, 0x202F, 0x205F, 0x3000, 0xFEFF:
		return true
	}
	return r >= 0x2000 && r <= 0x200A
}

func parsePattern(p string) (node, int, error) {
	ps := &parser{src: []rune(p)}
	n, err := ps.disj()
	if err != nil {
		return nil, 0, err
	}
	if ps.pos != len(ps.src) {
		return nil, 0, errSyntax
	}
	return n, ps.ncap, nil
}

func (p *parser) peek() rune {
	if p.pos < len(p.src) {
		return p.src[p.pos]
	}
	return -1
}

func (p *parser) disj() (node, error) {
	var alts []node
	for {
		s, err := p.alt()
		if err != nil {
			return nil, err
		}
		alts = append(alts, s)
		if p.peek() == '|' {
			p.pos++
			continue
		}
		break
	}
	if len(alts) == 1 {
		return alts[0], nil
	}
	return nAlt{alts}, nil
}

func (p *parser) alt() (node, error) {
	var items []node
	for p.pos < len(p.src) && p.peek() != '|' && p.peek() != ')' {
		t, err := p.term()
		if err != nil {
			return nil, err
		}
		items = append(items, t)
	}
	return nSeq{items}, nil
}

func (p *parser) term() (node, error) {
	c := p.peek()
	var atom node
	quantifiable := true
	switch c {
	case '^':
		p.pos++
		atom, quantifiable = nStart{}, false
	case '$':
		p.pos++
		atom, quantifiable = nEnd{}, false
	case '(':
		p.pos++
		if p.peek() == '?' {
			p.pos++
			switch p.peek() {
			case ':':
				p.pos++
				sub, err := p.disj()
				if err != nil {
					return nil, err
				}
				atom = nGroup{sub, 0}
			case '=', '!':
				neg := p.peek() == '!'
				p.pos++
				sub, err := p.disj()
				if err != nil {
					return nil, err
				}
				atom, quantifiable = nLook{sub, false, neg}, false
			case '<':
				p.pos++
				if p.peek() == '=' || p.peek() == '!' {
					neg := p.peek() == '!'
					p.pos++
					sub, err := p.disj()
					if err != nil {
						return nil, err
					}
					atom, quantifiable = nLook{sub, true, neg}, false
				} else {
					return nil, errSyntax // named groups not in this grammar
				}
			default:
				return nil, errSyntax
			}
		} else {
			p.ncap++
			idx := p.ncap
			sub, err := p.disj()
			if err != nil {
				return nil, err
			}
			atom = nGroup{sub, idx}
		}
		if p.peek() != ')' {
			return nil, errSyntax
		}
		p.pos++
	case ')', '*', '+', '?', '{', '}', ']', '|':
		return nil, errSyntax
	case '.':
		p.pos++
		atom = nChar{func(r rune) bool { return !isLineTerm(r) }}
	case '[':
		p.pos++
		set, err := p.class()
		if err != nil {
			return nil, err
		}
		atom = nChar{set}
	case '\\':
		p.pos++
		a, q, err := p.atomEscape()
		if err != nil {
			return nil, err
		}
		atom, quantifiable = a, q
	default:
		p.pos++
		ch := c
		atom = nChar{func(r rune) bool { return r == ch }}
	}
	// quantifier
	min, max, has := 0, 0, false
	switch p.peek() {
	case '*':
		p.pos++
		min, max, has = 0, -1, true
	case '+':
		p.pos++
		min, max, has = 1, -1, true
	case '?':
		p.pos++
		min, max, has = 0, 1, true
	case '{':
		save := p.pos
		p.pos++
		a, ok := p.digits()
		if !ok {
			p.pos = save
			return nil, errSyntax
		}
		min, max = a, a
		if p.peek() == ',' {
			p.pos++
			if b, ok := p.digits(); ok {
				max = b
			} else {
				max = -1
			}
		}
		if p.peek() != '}' {
			return nil, errSyntax
		}
		p.pos++
		if max != -1 && max < min {
			return nil, errSyntax
		}
		has = true
	}
	if !has {
		return atom, nil
	}
	if !quantifiable {
		return nil, errSyntax
	}
	lazy := false
	if p.peek() == '?' {
		p.pos++
		lazy = true
	}
	return nRepeat{atom, min, max, lazy}, nil
}

func (p *parser) digits() (int, bool) {
	start := p.pos
	for isDigit(p.peek()) {
		p.pos++
	}
	if p.pos == start {
		return 0, false
	}
	v, err := strconv.Atoi(string(p.src[start:p.pos]))
	if err != nil || v > 1000 {
		return 1001, true
	}
	return v, true
}

func hexVal(r rune) int {
	switch {
	case r >= '0' && r <= '9':
		return int(r - '0')
	case r >= 'a' && r <= 'f':
		return int(r-'a') + 10
	case r >= 'A' && r <= 'F':
		return int(r-'A') + 10
	}
	return -1
}

// charEscape parses escapes that denote one code point; returns -1 if not such an escape.
func (p *parser) charEscape(inClass bool) (rune, bool, error) {
	c := p.peek()
	switch c {
	case 't':
		p.pos++
		return '\t', true, nil
	case 'n':
		p.pos++
		return '\n', true, nil
	case 'v':
		p.pos++
		return '\v', true, nil
	case 'f':
		p.pos++
		return '\f', true, nil
	case 'r':
		p.pos++
		return '\r', true, nil
	case '0':
		p.pos++
		if isDigit(p.peek()) {
			return 0, false, errSyntax
		}
		return 0, true, nil
	case 'c':
		p.pos++
		l := p.peek()
		if l >= 'a' && l <= 'z' || l >= 'A' && l <= 'Z' {
			p.pos++
			return l % 32, true, nil
		}
		return 0, false, errSyntax
	case 'x':
		p.pos++
		if p.pos+1 < len(p.src) && hexVal(p.src[p.pos]) >= 0 && hexVal(p.src[p.pos+1]) >= 0 {
			v := hexVal(p.src[p.pos])*16 + hexVal(p.src[p.pos+1])
			p.pos += 2
			return rune(v), true, nil
		}
		return 0, false, errSyntax
	case 'u':
		p.pos++
		if p.peek() == '{' {
			p.pos++
			v, n := 0, 0
			for hexVal(p.peek()) >= 0 {
				v = v*16 + hexVal(p.peek())
				p.pos++
				n++
				if v > 0x10FFFF {
					return 0, false, errSyntax
				}
			}
			if n == 0 || p.peek() != '}' {
				return 0, false, errSyntax
			}
			p.pos++
			return rune(v), true, nil
		}
		if p.pos+3 < len(p.src) {
			v := 0
			for i := 0; i < 4; i++ {
				h := hexVal(p.src[p.pos+i])
				if h < 0 {
					return 0, false, errSyntax
				}
				v = v*16 + h
			}
			p.pos += 4
			if v >= 0xD800 && v <= 0xDFFF {
				return 0, false, errSyntax // surrogates: outside the portable grammar
			}
			return rune(v), true, nil
		}
		return 0, false, errSyntax
	case '^', '$', '\\', '.', '*', '+', '?', '(', ')', '[', ']', '{', '}', '|', '/':
		p.pos++
		return c, true, nil
	case '-':
		if inClass {
			p.pos++
			return '-', true, nil
		}
	}
	return 0, false, nil
}

func classEscapeSet(c rune) func(rune) bool {
	switch c {
	case 'd':
		return isDigit
	case 'D':
		return func(r rune) bool { return !isDigit(r) }
	case 'w':
		return isWord
	case 'W':
		return func(r rune) bool { return !isWord(r) }
	case 's':
		return isSpace
	case 'S':
		return func(r rune) bool { return !isSpace(r) }
	}
	return nil
}

func (p *parser) atomEscape() (node, bool, error) {
	c := p.peek()
	if c == -1 {
		return nil, false, errSyntax
	}
	if c >= '1' && c <= '9' {
		start := p.pos
		for isDigit(p.peek()) {
			p.pos++
		}
		n, _ := strconv.Atoi(string(p.src[start:p.pos]))
		return nBackref{n}, true, nil
	}
	if c == 'b' || c == 'B' {
		p.pos++
		return nWordB{c == 'B'}, false, nil
	}
	if s := classEscapeSet(c); s != nil {
		p.pos++
		return nChar{s}, true, nil
	}
	r, ok, err := p.charEscape(false)
	if err != nil {
		return nil, false, err
	}
	if !ok {
		return nil, false, errSyntax // identity escapes of other chars: not portable
	}
	return nChar{func(x rune) bool { return x == r }}, true, nil
}

func (p *parser) classAtom() (rune, func(rune) bool, error) {
	c := p.peek()
	if c == -1 {
		return 0, nil, errSyntax
	}
	if c == '\\' {
		p.pos++
		e := p.peek()
		if e == 'b' {
			p.pos++
			return 8, nil, nil
		}
		if s := classEscapeSet(e); s != nil {
			p.pos++
			return 0, s, nil
		}
		r, ok, err := p.charEscape(true)
		if err != nil {
			return 0, nil, err
		}
		if !ok {
			return 0, nil, errSyntax
		}
		return r, nil, nil
	}
	p.pos++
	return c, nil, nil
}

func (p *parser) class() (func(rune) bool, error) {
	neg := false
	if p.peek() == '^' {
		neg = true
		p.pos++
	}
	var sets []func(rune) bool
	for {
		if p.peek() == -1 {
			return nil, errSyntax
		}
		if p.peek() == ']' {
			p.pos++
			break
		}
		a, aset, err := p.classAtom()
		if err != nil {
			return nil, err
		}
		if p.peek() == '-' && p.pos+1 < len(p.src) && p.src[p.pos+1] != ']' {
			p.pos++
			b, bset, err := p.classAtom()
			if err != nil {
				return nil, err
			}
			if aset != nil || bset != nil {
				return nil, errSyntax // class escape as range endpoint: not portable
			}
			if a > b {
				return nil, errSyntax
			}
			lo, hi := a, b
			sets = append(sets, func(r rune) bool { return r >= lo && r <= hi })
			continue
		}
		if aset != nil {
			sets = append(sets, aset)
		} else {
			ch := a
			sets = append(sets, func(r rune) bool { return r == ch })
		}
	}
	return func(r rune) bool {
		in := false
		for _, s := range sets {
			if s(r) {
				in = true
				break
			}
		}
		return in != neg
	}, nil
}

// ---- matcher ----

type state struct {
	in   []rune
	caps [][2]int // -1,-1 = undefined
	step int
}

var errBudget = errors.New("budget")

type cont func(pos int) bool

func (s *state) m(n node, pos int, back bool, k cont) bool {
	s.step++
	if s.step > 200000 {
		panic(errBudget)
	}
	switch t := n.(type) {
	case nAlt:
		for _, a := range t.alts {
			if s.m(a, pos, back, k) {
				return true
			}
		}
		return false
	case nSeq:
		return s.seq(t.items, pos, back, k)
	case nChar:
		if !back {
			if pos < len(s.in) && t.set(s.in[pos]) {
				return k(pos + 1)
			}
			return false
		}
		if pos > 0 && t.set(s.in[pos-1]) {
			return k(pos - 1)
		}
		return false
	case nStart:
		return pos == 0 && k(pos)
	case nEnd:
		return pos == len(s.in) && k(pos)
	case nWordB:
		a := pos > 0 && isWord(s.in[pos-1])
		b := pos < len(s.in) && isWord(s.in[pos])
		if (a != b) != t.neg {
			return k(pos)
		}
		return false
	case nGroup:
		if t.cap == 0 {
			return s.m(t.sub, pos, back, k)
		}
		return s.m(t.sub, pos, back, func(e int) bool {
			old := s.caps[t.cap]
			if back {
				s.caps[t.cap] = [2]int{e, pos}
			} else {
				s.caps[t.cap] = [2]int{pos, e}
			}
			if k(e) {
				return true
			}
			s.caps[t.cap] = old
			return false
		})
	case nLook:
		saved := append([][2]int(nil), s.caps...)
		ok := s.m(t.sub, pos, t.behind, func(int) bool { return true })
		if t.neg {
			s.caps = saved
			if ok {
				return false
			}
			return k(pos)
		}
		if !ok {
			s.caps = saved
			return false
		}
		if k(pos) {
			return true
		}
		s.caps = saved
		return false
	case nBackref:
		if t.n >= len(s.caps) {
			panic(errSyntax)
		}
		c := s.caps[t.n]
		if c[0] < 0 {
			return k(pos)
		}
		l := c[1] - c[0]
		if !back {
			if pos+l > len(s.in) {
				return false
			}
			for i := 0; i < l; i++ {
				if s.in[c[0]+i] != s.in[pos+i] {
					return false
				}
			}
			return k(pos + l)
		}
		if pos-l < 0 {
			return false
		}
		for i := 0; i < l; i++ {
			if s.in[c[0]+i] != s.in[pos-l+i] {
				return false
			}
		}
		return k(pos - l)
	case nRepeat:
		return s.rep(t, t.min, t.max, pos, back, k)
	}
	panic("unknown node")
}

func (s *state) seq(items []node, pos int, back bool, k cont) bool {
	if len(items) == 0 {
		return k(pos)
	}
	if !back {
		return s.m(items[0], pos, back, func(p int) bool { return s.seq(items[1:], p, back, k) })
	}
	last := len(items) - 1
	return s.m(items[last], pos, back, func(p int) bool { return s.seq(items[:last], p, back, k) })
}

func capsIn(n node, out *[]int) {
	switch t := n.(type) {
	case nAlt:
		for _, a := range t.alts {
			capsIn(a, out)
		}
	case nSeq:
		for _, a := range t.items {
			capsIn(a, out)
		}
	case nGroup:
		if t.cap > 0 {
			*out = append(*out, t.cap)
		}
		capsIn(t.sub, out)
	case nLook:
		capsIn(t.sub, out)
	case nRepeat:
		capsIn(t.sub, out)
	}
}

// RepeatMatcher (ECMA-262 22.2.2.3.1)
func (s *state) rep(t nRepeat, min, max, pos int, back bool, k cont) bool {
	if max == 0 {
		return k(pos)
	}
	d := func(e int) bool {
		if min == 0 && e == pos {
			return false // empty check
		}
		nmin := min
		if nmin > 0 {
			nmin--
		}
		nmax := max
		if nmax > 0 {
			nmax--
		}
		return s.rep(t, nmin, nmax, e, back, k)
	}
	var inner []int
	capsIn(t.sub, &inner)
	tryAtom := func() bool {
		saved := make([][2]int, len(inner))
		for i, c := range inner {
			saved[i] = s.caps[c]
			s.caps[c] = [2]int{-1, -1}
		}
		if s.m(t.sub, pos, back, d) {
			return true
		}
		for i, c := range inner {
			s.caps[c] = saved[i]
		}
		return false
	}
	if min > 0 {
		return tryAtom()
	}
	if t.lazy {
		if k(pos) {
			return true
		}
		return tryAtom()
	}
	if tryAtom() {
		return true
	}
	return k(pos)
}

// refMatch: does the pattern match anywhere in s? err for syntax/budget.
func refMatch(n node, ncap int, subject string) (res bool, err error) {
	defer func() {
		if r := recover(); r != nil {
			if e, ok := r.(error); ok {
				err = e
				return
			}
			panic(r)
		}
	}()
	in := []rune(subject)
	for start := 0; start <= len(in); start++ {
		st := &state{in: in, caps: make([][2]int, ncap+1)}
		for i := range st.caps {
			st.caps[i] = [2]int{-1, -1}
		}
		if st.m(n, start, false, func(int) bool { return true }) {
			return true, nil
		}
	}
	return false, nil
}
