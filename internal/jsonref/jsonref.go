// Package jsonref is an exact reference model of JSON values (RFC 8259): a strict recursive-descent
// parser written for this purpose (independent of jx and encoding/json) producing a canonical text
// in which numbers are exact decimals (digits x 10^exp, no float), object members are sorted and
// strings are sequences of UTF-16 code units. Two texts denote the same value iff their canonical
// texts are equal. Objects with duplicate member names have no agreed value: Canon reports Dup.
package jsonref

import (
	"fmt"
	"sort"
	"strconv"
	"strings"
)

type Result struct {
	Canon string
	OK    bool // well-formed
	Dup   bool // some object has duplicate member names (outside the domain)
}

type parser struct {
	s   string
	i   int
	dup bool
}

func Canon(text string) Result {
	p := &parser{s: text}
	p.ws()
	var sb strings.Builder
	if !p.value(&sb, 0) {
		return Result{}
	}
	p.ws()
	if p.i != len(p.s) {
		return Result{}
	}
	return Result{Canon: sb.String(), OK: true, Dup: p.dup}
}

func (p *parser) ws() {
	for p.i < len(p.s) {
		switch p.s[p.i] {
		case ' ', '\t', '\n', '\r':
			p.i++
		default:
			return
		}
	}
}

func (p *parser) lit(l string) bool {
	if strings.HasPrefix(p.s[p.i:], l) {
		p.i += len(l)
		return true
	}
	return false
}

func (p *parser) value(sb *strings.Builder, depth int) bool {
	if p.i >= len(p.s) || depth > 10000 {
		return false
	}
	switch c := p.s[p.i]; {
	case c == 'n':
		sb.WriteString("null")
		return p.lit("null")
	case c == 't':
		sb.WriteString("true")
		return p.lit("true")
	case c == 'f':
		sb.WriteString("false")
		return p.lit("false")
	case c == '"':
		u, ok := p.str()
		if !ok {
			return false
		}
		writeStr(sb, u)
		return true
	case c == '-' || (c >= '0' && c <= '9'):
		n, ok := p.num()
		if !ok {
			return false
		}
		sb.WriteString(n)
		return true
	case c == '[':
		p.i++
		sb.WriteByte('[')
		p.ws()
		if p.i < len(p.s) && p.s[p.i] == ']' {
			p.i++
			sb.WriteByte(']')
			return true
		}
		for {
			p.ws()
			if !p.value(sb, depth+1) {
				return false
			}
			p.ws()
			if p.i >= len(p.s) {
				return false
			}
			if p.s[p.i] == ',' {
				p.i++
				sb.WriteByte(',')
				continue
			}
			if p.s[p.i] == ']' {
				p.i++
				sb.WriteByte(']')
				return true
			}
			return false
		}
	case c == '{':
		p.i++
		p.ws()
		type kv struct {
			k string
			v string
		}
		var kvs []kv
		seen := map[string]bool{}
		if p.i < len(p.s) && p.s[p.i] == '}' {
			p.i++
			sb.WriteString("{}")
			return true
		}
		for {
			p.ws()
			if p.i >= len(p.s) || p.s[p.i] != '"' {
				return false
			}
			u, ok := p.str()
			if !ok {
				return false
			}
			var kb strings.Builder
			writeStr(&kb, u)
			k := kb.String()
			if seen[k] {
				p.dup = true
			}
			seen[k] = true
			p.ws()
			if p.i >= len(p.s) || p.s[p.i] != ':' {
				return false
			}
			p.i++
			p.ws()
			var vb strings.Builder
			if !p.value(&vb, depth+1) {
				return false
			}
			kvs = append(kvs, kv{k, vb.String()})
			p.ws()
			if p.i >= len(p.s) {
				return false
			}
			if p.s[p.i] == ',' {
				p.i++
				continue
			}
			if p.s[p.i] == '}' {
				p.i++
				break
			}
			return false
		}
		sort.SliceStable(kvs, func(i, j int) bool { return kvs[i].k < kvs[j].k })
		sb.WriteByte('{')
		for i, e := range kvs {
			if i > 0 {
				sb.WriteByte(',')
			}
			sb.WriteString(e.k)
			sb.WriteByte(':')
			sb.WriteString(e.v)
		}
		sb.WriteByte('}')
		return true
	}
	return false
}

// str parses a JSON string into UTF-16 code units (escapes resolved; raw bytes must be valid UTF-8,
// which is transcoded).
func (p *parser) str() ([]uint16, bool) {
	p.i++ // opening quote
	var out []uint16
	for p.i < len(p.s) {
		c := p.s[p.i]
		switch {
		case c == '"':
			p.i++
			return out, true
		case c < 0x20:
			return nil, false
		case c == '\\':
			if p.i+1 >= len(p.s) {
				return nil, false
			}
			e := p.s[p.i+1]
			p.i += 2
			switch e {
			case '"', '\\', '/':
				out = append(out, uint16(e))
			case 'b':
				out = append(out, 8)
			case 'f':
				out = append(out, 12)
			case 'n':
				out = append(out, 10)
			case 'r':
				out = append(out, 13)
			case 't':
				out = append(out, 9)
			case 'u':
				if p.i+4 > len(p.s) {
					return nil, false
				}
				h := p.s[p.i : p.i+4]
				for _, d := range []byte(h) {
					if !(d >= '0' && d <= '9' || d >= 'a' && d <= 'f' || d >= 'A' && d <= 'F') {
						return nil, false
					}
				}
				v, _ := strconv.ParseUint(h, 16, 16)
				out = append(out, uint16(v))
				p.i += 4
			default:
				return nil, false
			}
		case c < 0x80:
			out = append(out, uint16(c))
			p.i++
		default:
			r, n := decodeRune(p.s[p.i:])
			if n == 0 {
				return nil, false
			}
			if r >= 0x10000 {
				r -= 0x10000
				out = append(out, uint16(0xD800+(r>>10)), uint16(0xDC00+(r&0x3FF)))
			} else {
				out = append(out, uint16(r))
			}
			p.i += n
		}
	}
	return nil, false
}

func decodeRune(s string) (rune, int) {
	for i, r := range s {
		if i == 0 {
			if r == 0xFFFD {
				// either a literal U+FFFD (3 bytes EF BF BD) or invalid UTF-8
				if strings.HasPrefix(s, "\xEF\xBF\xBD") {
					return r, 3
				}
				return 0, 0
			}
			return r, len(string(r))
		}
	}
	return 0, 0
}

func writeStr(sb *strings.Builder, u []uint16) {
	sb.WriteByte('"')
	for _, c := range u {
		fmt.Fprintf(sb, "%04x", c)
	}
	sb.WriteByte('"')
}

// num parses a JSON number into the exact canonical form "<sign><digits>e<exp>" with digits
// free of leading and trailing zeros, or "0" for every zero.
func (p *parser) num() (string, bool) {
	st := p.i
	neg := false
	if p.s[p.i] == '-' {
		neg = true
		p.i++
	}
	if p.i >= len(p.s) {
		return "", false
	}
	intStart := p.i
	if p.s[p.i] == '0' {
		p.i++
	} else if p.s[p.i] >= '1' && p.s[p.i] <= '9' {
		for p.i < len(p.s) && p.s[p.i] >= '0' && p.s[p.i] <= '9' {
			p.i++
		}
	} else {
		return "", false
	}
	digits := p.s[intStart:p.i]
	exp := int64(0)
	if p.i < len(p.s) && p.s[p.i] == '.' {
		p.i++
		fs := p.i
		for p.i < len(p.s) && p.s[p.i] >= '0' && p.s[p.i] <= '9' {
			p.i++
		}
		if p.i == fs {
			return "", false
		}
		digits += p.s[fs:p.i]
		exp -= int64(p.i - fs)
	}
	if p.i < len(p.s) && (p.s[p.i] == 'e' || p.s[p.i] == 'E') {
		p.i++
		es := p.i
		if p.i < len(p.s) && (p.s[p.i] == '+' || p.s[p.i] == '-') {
			p.i++
		}
		ds := p.i
		for p.i < len(p.s) && p.s[p.i] >= '0' && p.s[p.i] <= '9' {
			p.i++
		}
		if p.i == ds || p.i-ds > 15 {
			return "", false
		}
		e, _ := strconv.ParseInt(p.s[es:p.i], 10, 64)
		exp += e
	}
	_ = st
	digits = strings.TrimLeft(digits, "0")
	if digits == "" {
		return "0", true
	}
	t := strings.TrimRight(digits, "0")
	exp += int64(len(digits) - len(t))
	sign := ""
	if neg {
		sign = "-"
	}
	return fmt.Sprintf("%s%se%d", sign, t, exp), true
}
