// Package regen is the regenerate-compile-drive pipeline (DESIGN.md E2): specs are generated in
// process with the generator of the tree under check, written into a scratch Go module outside
// /repo and /verif, compiled together with a driver and run; the driver's JSON-lines report is
// folded into the check's verdict.
package regen

import (
	"bufio"
	"bytes"
	"encoding/json"
	"fmt"
	"io"
	"os"
	"os/exec"
	"path/filepath"
	"regexp"
	"runtime/debug"
	"strings"

	"github.com/ogen-go/ogen"
	"github.com/ogen-go/ogen/gen"
	"github.com/ogen-go/ogen/gen/genfs"

	"verif/internal/vf"
)

type Scratch struct {
	Dir  string
	Repo string
	Home string
	keep bool
}

// NewScratch creates <root>/<id>-<pid> with a go.mod that mirrors /repo's requirements.
func NewScratch(r *vf.Run) *Scratch {
	root := os.Getenv("VERIF_SCRATCH")
	if root == "" {
		root = "/var/tmp/verif-scratch"
	}
	dir := filepath.Join(root, fmt.Sprintf("%s-%d", strings.ToLower(r.ID), os.Getpid()))
	_ = os.RemoveAll(dir)
	if err := os.MkdirAll(dir, 0o755); err != nil {
		vf.Fatal("scratch: %v", err)
	}
	s := &Scratch{Dir: dir, Repo: r.Repo, Home: r.Home, keep: os.Getenv("VERIF_KEEP_SCRATCH") != ""}
	mod, err := os.ReadFile(filepath.Join(r.Repo, "go.mod"))
	if err != nil {
		vf.Fatal("scratch: %v", err)
	}
	text := regexp.MustCompile(`(?m)^module .*$`).ReplaceAllString(string(mod), "module scratch")
	text = regexp.MustCompile(`(?m)^toolchain .*$`).ReplaceAllString(text, "")
	text += "\nrequire github.com/ogen-go/ogen v0.0.0\n\nreplace github.com/ogen-go/ogen => " + r.Repo + "\n"
	s.Write("go.mod", []byte(text))
	sum, _ := os.ReadFile(filepath.Join(r.Repo, "go.sum"))
	s.Write("go.sum", sum)
	return s
}

func (s *Scratch) Close() {
	if !s.keep {
		_ = os.RemoveAll(s.Dir)
	}
}

func (s *Scratch) Path(rel string) string { return filepath.Join(s.Dir, rel) }

func (s *Scratch) Write(rel string, data []byte) {
	p := s.Path(rel)
	if err := os.MkdirAll(filepath.Dir(p), 0o755); err != nil {
		vf.Fatal("scratch: %v", err)
	}
	if err := os.WriteFile(p, data, 0o644); err != nil {
		vf.Fatal("scratch: %v", err)
	}
}

// CopyDriver copies the Go files of /verif/drivers/<name> to <scratch>/<dst> and the shared
// reporting package to <scratch>/drv.
func (s *Scratch) CopyDriver(name, dst string, extras ...string) {
	pairs := [][2]string{{name, dst}, {"drv", "drv"}}
	for _, e := range extras {
		pairs = append(pairs, [2]string{e, filepath.Base(e)})
	}
	for _, pair := range pairs {
		src := filepath.Join(s.Home, "drivers", pair[0])
		if strings.HasPrefix(pair[0], "internal/") {
			src = filepath.Join(s.Home, pair[0])
		}
		ents, err := os.ReadDir(src)
		if err != nil {
			vf.Fatal("driver %s: %v", name, err)
		}
		for _, e := range ents {
			if e.IsDir() || !strings.HasSuffix(e.Name(), ".go") {
				continue
			}
			b, err := os.ReadFile(filepath.Join(src, e.Name()))
			if err != nil {
				vf.Fatal("driver %s: %v", name, err)
			}
			s.Write(filepath.Join(pair[1], e.Name()), b)
		}
	}
}

func (s *Scratch) goCmd(args ...string) *exec.Cmd {
	cmd := exec.Command("go", args...)
	cmd.Dir = s.Dir
	cmd.Env = append(os.Environ(), "GOFLAGS=-mod=mod", "GOPROXY=off", "GOSUMDB=off", "GOTOOLCHAIN=local")
	return cmd
}

// Build compiles ./<pkg> of the scratch module to <scratch>/<out>. A compile error is returned
// with the compiler output (for C02 it is the verdict; elsewhere a harness error).
func (s *Scratch) Build(pkg, out string, extra ...string) error {
	args := append([]string{"build"}, extra...)
	args = append(args, "-tags", "verifdriver", "-o", s.Path(out), "./"+pkg)
	cmd := s.goCmd(args...)
	var buf bytes.Buffer
	cmd.Stdout, cmd.Stderr = &buf, &buf
	if err := cmd.Run(); err != nil {
		return fmt.Errorf("go build ./%s: %v\n%s", pkg, err, tail(buf.String(), 4000))
	}
	return nil
}

// Vet runs go vet on packages of the scratch module and returns its output on failure.
var errLine = regexp.MustCompile(`(?m)^([^\s:]+\.go):\d+:\d+: `)

// BuildChecked is Build for a driver compiled next to regenerated code.  When the build fails and
// every compile error lies in a file written by the generator under check (oas_*_gen.go), the
// tree under check turned a valid spec into a package that does not compile: whatever the check
// wanted to observe about the generated code does not exist, which is reported as a violation of
// the property (not as a harness error) and ends the run.  Any other build failure stays fatal.
func (s *Scratch) BuildChecked(r *vf.Run, pkg, out string, extra ...string) {
	err := s.Build(pkg, out, extra...)
	if err == nil {
		return
	}
	ms := errLine.FindAllStringSubmatch(err.Error(), -1)
	gen := len(ms) > 0
	for _, m := range ms {
		b := filepath.Base(m[1])
		if !(strings.HasPrefix(b, "oas_") && strings.HasSuffix(b, "_gen.go")) {
			gen = false
		}
	}
	if !gen {
		vf.Fatal("%v", err)
	}
	r.Violation(map[string]string{"class": "regenerated-code-does-not-compile"}, 0, map[string]any{"build_output": tail(err.Error(), 1500)})
	r.NotExhaustive("the package regenerated from the check's spec does not compile; nothing was driven")
	r.Finish("the package regenerated from the check's spec does not compile; nothing was driven")
}

func (s *Scratch) Vet(pkgs ...string) error {
	cmd := s.goCmd(append([]string{"vet"}, pkgs...)...)
	var buf bytes.Buffer
	cmd.Stdout, cmd.Stderr = &buf, &buf
	if err := cmd.Run(); err != nil {
		return fmt.Errorf("go vet: %v\n%s", err, tail(buf.String(), 4000))
	}
	return nil
}

func tail(s string, n int) string {
	if len(s) > n {
		return s[:n] + "\n...[truncated]"
	}
	return s
}

type Summary struct {
	Evals      int64            `json:"evals"`
	Nontrivial int64            `json:"nontrivial"`
	Stats      map[string]int64 `json:"stats"`
	Info       map[string]any   `json:"info"`
	Samples    []any            `json:"samples"`
}

// RunDriver executes a built driver, feeds stdin, folds its report into r and returns the summary.
func (s *Scratch) RunDriver(r *vf.Run, bin string, stdin []byte, args ...string) Summary {
	cmd := exec.Command(s.Path(bin), args...)
	cmd.Dir = s.Dir
	cmd.Env = append(os.Environ(), "VERIF_TIER="+r.Tier)
	cmd.Stdin = bytes.NewReader(stdin)
	var errb bytes.Buffer
	cmd.Stderr = &errb
	out, err := cmd.StdoutPipe()
	if err != nil {
		vf.Fatal("driver: %v", err)
	}
	if err := cmd.Start(); err != nil {
		vf.Fatal("driver: %v", err)
	}
	var sum Summary
	got := false
	rd := bufio.NewReaderSize(out, 1<<20)
	for {
		line, err := rd.ReadBytes('\n')
		if len(bytes.TrimSpace(line)) > 0 {
			var m struct {
				Kind   string            `json:"kind"`
				Attrs  map[string]string `json:"attrs"`
				Size   int               `json:"size"`
				Detail json.RawMessage   `json:"detail"`
				Count  int64             `json:"count"`
			}
			if json.Unmarshal(line, &m) == nil {
				switch m.Kind {
				case "violation":
					r.ViolationN(m.Attrs, m.Size, m.Detail, m.Count)
				case "summary":
					_ = json.Unmarshal(line, &sum)
					got = true
				}
			}
		}
		if err != nil {
			if err != io.EOF {
				vf.Fatal("driver output: %v", err)
			}
			break
		}
	}
	if err := cmd.Wait(); err != nil || !got {
		vf.Fatal("driver %s failed: %v (summary received: %v)\n%s", bin, err, got, tail(errb.String(), 6000))
	}
	r.Eval(sum.Evals)
	r.NontrivialN(sum.Nontrivial)
	for _, smp := range sum.Samples {
		r.Sample(smp)
	}
	return sum
}

// Generate runs parse + IR + WriteSource for one spec into dir (package pkg). A panic anywhere is
// returned as an error whose text starts with "PANIC".
func Generate(spec []byte, opts gen.Options, dir, pkg string) (g *gen.Generator, err error) {
	// goimports runs the go command; under load that subprocess can time out ("exec: WaitDelay
	// expired before I/O complete"). That is the environment, not the generator: retry.
	for try := 0; try < 4; try++ {
		g, err = generateOnce(spec, opts, dir, pkg)
		if err == nil || !strings.Contains(err.Error(), "exec:") {
			return g, err
		}
		_ = os.RemoveAll(dir)
	}
	return g, err
}

func generateOnce(spec []byte, opts gen.Options, dir, pkg string) (g *gen.Generator, err error) {
	defer func() {
		if p := recover(); p != nil {
			err = fmt.Errorf("PANIC: %v\n%s", p, tail(string(debug.Stack()), 3000))
		}
	}()
	sp, err := ogen.Parse(spec)
	if err != nil {
		return nil, fmt.Errorf("parse: %w", err)
	}
	g, err = gen.NewGenerator(sp, opts)
	if err != nil {
		return nil, fmt.Errorf("build IR: %w", err)
	}
	if err := os.MkdirAll(dir, 0o755); err != nil {
		return nil, err
	}
	if err := g.WriteSource(genfs.FormattedSource{Root: dir}, pkg); err != nil {
		return nil, fmt.Errorf("write: %w", err)
	}
	return g, nil
}

// Features builds gen.Options with exactly the given features enabled.
func Features(names ...string) gen.Options {
	var opts gen.Options
	fs := gen.FeatureSet{}
	for _, n := range names {
		fs[n] = struct{}{}
	}
	opts.Generator.Features = &gen.FeatureOptions{DisableAll: true, Enable: fs}
	return opts
}
