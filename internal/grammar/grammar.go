// Package grammar enumerates JSON Schemas of the keyword fragment ogen implements.
package grammar

import (
	"fmt"
	"strings"
)

type M = map[string]any

func Subsets[T any](xs []T) [][]T {
	out := [][]T{{}}
	for _, x := range xs {
		n := len(out)
		for i := 0; i < n; i++ {
			out = append(out, append(append([]T{}, out[i]...), x))
		}
	}
	return out
}

func Merge(ms ...M) M {
	out := M{}
	for _, m := range ms {
		for k, v := range m {
			out[k] = v
		}
	}
	return out
}

// Schemas enumerates the schema grammar of DESIGN.md C03 (shared by C03, C04 and C15).
func Schemas(thorough bool) (schemas []M, leaves []M, comps M) {
	for _, kws := range Subsets([]M{{"minimum": 0}, {"maximum": 5}, {"multipleOf": 2}}) {
		s := Merge(append([]M{{"type": "integer"}}, kws...)...)
		leaves = append(leaves, s)
		if _, ok := s["minimum"]; ok {
			leaves = append(leaves, Merge(s, M{"exclusiveMinimum": true}))
		}
		if _, ok := s["maximum"]; ok {
			leaves = append(leaves, Merge(s, M{"exclusiveMaximum": true}))
		}
		if len(kws) == 2 && s["minimum"] != nil && s["maximum"] != nil {
			leaves = append(leaves, Merge(s, M{"exclusiveMinimum": true, "exclusiveMaximum": true}))
		}
	}
	for _, kws := range Subsets([]M{{"minimum": -1}, {"maximum": 2}, {"multipleOf": 0.5}}) {
		s := Merge(append([]M{{"type": "number"}}, kws...)...)
		leaves = append(leaves, s)
		if _, ok := s["minimum"]; ok {
			leaves = append(leaves, Merge(s, M{"exclusiveMinimum": true}))
		}
		if _, ok := s["maximum"]; ok {
			leaves = append(leaves, Merge(s, M{"exclusiveMaximum": true}))
		}
	}
	// a second parameterisation on the negative side (sign handling of bounds and multipleOf)
	for _, kws := range Subsets([]M{{"minimum": -20}, {"maximum": -5}, {"multipleOf": 5}}) {
		if len(kws) < 2 {
			continue
		}
		s := Merge(append([]M{{"type": "integer"}}, kws...)...)
		leaves = append(leaves, s)
		if _, ok := s["minimum"]; ok {
			leaves = append(leaves, Merge(s, M{"exclusiveMinimum": true}))
		}
		if _, ok := s["maximum"]; ok {
			leaves = append(leaves, Merge(s, M{"exclusiveMaximum": true}))
		}
	}
	for _, kws := range Subsets([]M{{"minimum": -2.5}, {"maximum": -0.5}, {"multipleOf": 0.25}}) {
		if len(kws) < 2 {
			continue
		}
		leaves = append(leaves, Merge(append([]M{{"type": "number"}}, kws...)...))
	}
	leaves = append(leaves, M{"type": "integer", "minimum": -3, "maximum": 3, "multipleOf": 3}, M{"type": "integer", "format": "int32", "maximum": -1, "multipleOf": 3},
		M{"type": "integer", "format": "int64", "minimum": -7, "exclusiveMinimum": true, "maximum": 7, "exclusiveMaximum": true, "multipleOf": 7},
		M{"type": "string", "minLength": 3, "maxLength": 3}, M{"type": "string", "minLength": 4})
	for _, kws := range Subsets([]M{{"minLength": 1}, {"maxLength": 2}, {"pattern": "^a"}}) {
		leaves = append(leaves, Merge(append([]M{{"type": "string"}}, kws...)...))
	}
	leaves = append(leaves, M{"type": "string", "enum": []any{"a", "b"}}, M{"type": "integer", "enum": []any{1, 2}}, M{"type": "boolean"},
		M{"type": "string", "pattern": "b$", "minLength": 2}, M{"type": "string", "pattern": "^[ab]+$"}, M{"type": "string", "maxLength": 0},
		M{"type": "string", "minLength": 2, "maxLength": 3}, M{"type": "integer", "format": "int32", "minimum": -1}, M{"type": "integer", "format": "int64", "multipleOf": 5},
		M{"type": "number", "format": "float", "maximum": 0.5}, M{"type": "number", "multipleOf": 0.25, "minimum": 0})
	nLeaf := len(leaves)
	schemas = append(schemas, leaves...)
	for i := 0; i < nLeaf; i++ {
		schemas = append(schemas, Merge(leaves[i], M{"nullable": true}))
	}
	small := []M{{"type": "integer", "minimum": 0, "maximum": 5}, {"type": "string", "minLength": 1, "maxLength": 2}, {"type": "boolean"}, {"type": "string", "nullable": true}, {"type": "number", "multipleOf": 0.5}}
	for _, it := range small {
		for _, kws := range Subsets([]M{{"minItems": 1}, {"maxItems": 2}, {"uniqueItems": true}}) {
			schemas = append(schemas, Merge(append([]M{{"type": "array", "items": it}}, kws...)...))
		}
		schemas = append(schemas, M{"type": "array", "items": it, "nullable": true, "minItems": 1}, M{"type": "array", "items": it, "nullable": true, "maxItems": 1})
	}
	for _, p := range small[:3] {
		for _, q := range small[1:4] {
			for _, req := range Subsets([]string{"p", "q"}) {
				for _, ap := range []any{nil, false, true, M{"type": "integer"}} {
					o := M{"type": "object", "properties": M{"p": p, "q": q}}
					if len(req) > 0 {
						o["required"] = req
					}
					if ap != nil {
						o["additionalProperties"] = ap
					}
					schemas = append(schemas, o)
				}
			}
		}
	}
	for _, kws := range Subsets([]M{{"minProperties": 1}, {"maxProperties": 2}}) {
		schemas = append(schemas, Merge(append([]M{{"type": "object", "properties": M{"p": small[0], "q": small[1], "z": small[2]}}}, kws...)...))
		schemas = append(schemas, Merge(append([]M{{"type": "object", "additionalProperties": M{"type": "integer", "minimum": 0}}}, kws...)...))
	}
	// optional / nullable members of every array flavour (the class that was refused before the fix)
	for _, arr := range []M{{"type": "array", "items": small[0], "minItems": 1}, {"type": "array", "items": small[1], "maxItems": 1}, {"type": "array", "items": small[0], "minItems": 1, "nullable": true}, {"type": "array", "items": small[2], "uniqueItems": true}} {
		schemas = append(schemas, M{"type": "object", "properties": M{"p": arr}}, M{"type": "object", "required": []string{"p"}, "properties": M{"p": arr}})
	}
	// 9 required members: the required bitset crosses a byte boundary
	nine := M{}
	var req9 []string
	for i := 0; i < 9; i++ {
		n := fmt.Sprintf("f%d", i)
		nine[n] = M{"type": "integer"}
		req9 = append(req9, n)
	}
	schemas = append(schemas, M{"type": "object", "properties": nine, "required": req9}, M{"type": "object", "properties": nine, "required": req9[8:]}, M{"type": "object", "properties": nine, "required": req9[:8]})
	schemas = append(schemas,
		M{"type": "object", "required": []string{"p"}, "properties": M{"p": M{"type": "object", "required": []string{"q"}, "properties": M{"q": small[0]}}}},
		M{"type": "array", "items": M{"type": "object", "required": []string{"p"}, "properties": M{"p": small[0]}}, "maxItems": 2},
		M{"type": "array", "items": M{"type": "array", "items": small[0], "maxItems": 1}},
		M{"oneOf": []any{M{"type": "string", "minLength": 1}, M{"type": "integer", "minimum": 0}}},
		M{"anyOf": []any{M{"type": "string", "maxLength": 1}, M{"type": "integer", "maximum": 5}}},
		M{"oneOf": []any{M{"type": "string"}, M{"type": "integer"}, M{"type": "boolean"}}, "nullable": true},
		M{"oneOf": []any{
			M{"type": "object", "required": []string{"p"}, "properties": M{"p": small[0]}},
			M{"type": "object", "required": []string{"q"}, "properties": M{"q": small[1]}},
		}},
		M{"allOf": []any{
			M{"type": "object", "required": []string{"p"}, "properties": M{"p": small[0]}},
			M{"type": "object", "required": []string{"q"}, "properties": M{"q": small[1]}},
		}},
		M{"oneOf": []any{M{"type": "array", "items": small[0]}, M{"type": "string"}}},
		M{"oneOf": []any{M{"$ref": "#/components/schemas/Cat"}, M{"$ref": "#/components/schemas/Dog"}}, "discriminator": M{"propertyName": "kind", "mapping": M{"cat": "#/components/schemas/Cat", "dog": "#/components/schemas/Dog"}}},
	)
	// allOf whose members constrain the same thing: the result is the conjunction, i.e. the
	// stricter bound of each kind wins (a seeded swap of min and max in the allOf merger was missed
	// while the members only carried different properties)
	both := func(a, b M) M { return M{"allOf": []any{a, b}} }
	schemas = append(schemas,
		both(M{"type": "string", "minLength": 2, "maxLength": 6}, M{"type": "string", "minLength": 4, "maxLength": 8}),
		both(M{"type": "string", "maxLength": 3}, M{"type": "string", "maxLength": 5}),
		both(M{"type": "string", "minLength": 3}, M{"type": "string", "minLength": 1, "pattern": "^a"}),
		both(M{"type": "integer", "minimum": 0, "maximum": 10}, M{"type": "integer", "minimum": 5, "maximum": 20}),
		both(M{"type": "integer", "minimum": 5}, M{"type": "integer", "minimum": -5, "exclusiveMinimum": true}),
		both(M{"type": "number", "maximum": 2.5}, M{"type": "number", "maximum": 7.5, "minimum": -1}),
		both(M{"type": "integer", "maximum": 5, "exclusiveMaximum": true}, M{"type": "integer", "maximum": 10}),
		both(M{"type": "integer", "maximum": 5}, M{"type": "integer", "maximum": 10, "exclusiveMaximum": true}),
		both(M{"type": "number", "minimum": 0, "exclusiveMinimum": true}, M{"type": "number", "minimum": 0.0}),
		both(M{"type": "array", "items": small[0], "minItems": 1, "maxItems": 4}, M{"type": "array", "items": small[0], "minItems": 2, "maxItems": 3}),
		both(M{"type": "array", "items": small[1], "maxItems": 1}, M{"type": "array", "items": small[1], "maxItems": 3, "uniqueItems": true}),
		both(M{"type": "object", "properties": M{"p": M{"type": "string", "maxLength": 3}}, "required": []string{"p"}}, M{"type": "object", "properties": M{"p": M{"type": "string", "maxLength": 5, "minLength": 2}, "q": small[0]}}),
		both(M{"type": "object", "properties": M{"p": small[0]}, "minProperties": 1, "maxProperties": 3}, M{"type": "object", "properties": M{"q": small[1]}, "minProperties": 2, "maxProperties": 2}),
		both(M{"type": "object", "properties": M{"p": M{"type": "integer", "minimum": 0}}}, M{"type": "object", "properties": M{"p": M{"type": "integer", "minimum": 3, "maximum": 9}}, "required": []string{"p"}}),
		M{"allOf": []any{M{"type": "string", "minLength": 1}, M{"type": "string", "maxLength": 4}, M{"type": "string", "minLength": 2, "maxLength": 9}}},
	)
	comps = M{
		"Tree": M{"type": "object", "required": []string{"v"}, "properties": M{"v": small[0], "kids": M{"type": "array", "items": M{"$ref": "#/components/schemas/Tree"}, "maxItems": 2}}, "additionalProperties": false},
		"Cat":  M{"type": "object", "required": []string{"kind", "p"}, "properties": M{"kind": M{"type": "string"}, "p": small[0]}},
		"Dog":  M{"type": "object", "required": []string{"kind", "q"}, "properties": M{"kind": M{"type": "string"}, "q": small[1]}},
	}
	// variants of a discriminated sum whose payload is not a declared property: typed / free-form
	// additional properties, pattern properties, a member-count bound (the discriminator values are
	// enums, so the variants exclude each other under plain oneOf reading as well)
	kind := func(v string) M { return M{"type": "string", "enum": []any{v}} }
	comps["KCat"] = M{"type": "object", "required": []string{"kind", "p"}, "properties": M{"kind": kind("cat"), "p": small[0]}}
	comps["KPure"] = M{"type": "object", "required": []string{"kind"}, "properties": M{"kind": kind("pure")}, "additionalProperties": M{"type": "integer", "minimum": 0}}
	comps["KBag"] = M{"type": "object", "required": []string{"kind"}, "properties": M{"kind": kind("bag")}, "additionalProperties": true}
	comps["KPat"] = M{"type": "object", "required": []string{"kind"}, "properties": M{"kind": kind("pat")}, "patternProperties": M{"^x": M{"type": "string", "maxLength": 2}}}
	comps["KMin"] = M{"type": "object", "required": []string{"kind"}, "properties": M{"kind": kind("min")}, "additionalProperties": M{"type": "string"}, "minProperties": 2}
	disc := func(names ...string) M {
		var vs []any
		mp := M{}
		for _, n := range names {
			vs = append(vs, M{"$ref": "#/components/schemas/" + n})
			mp[comps[n].(M)["properties"].(M)["kind"].(M)["enum"].([]any)[0].(string)] = "#/components/schemas/" + n
		}
		return M{"oneOf": vs, "discriminator": M{"propertyName": "kind", "mapping": mp}}
	}
	schemas = append(schemas, disc("KCat", "KPure", "KBag"), disc("KCat", "KPat", "KMin"), disc("KPure", "KMin"))
	// reference cycles through two and three components, through an array, a property and a map; the
	// member that carries constraints comes first in name order and declares the way into the cycle
	// before its constrained members
	cref := func(n string) M { return M{"$ref": "#/components/schemas/" + n} }
	comps["Dir"] = M{"type": "object", "properties": M{"entries": M{"type": "array", "items": cref("Ent")}, "name": M{"type": "string", "minLength": 1, "maxLength": 4}, "mode": M{"type": "integer", "minimum": 0, "maximum": 7}}}
	comps["Ent"] = M{"type": "object", "properties": M{"label": M{"type": "string"}, "dir": cref("Dir")}}
	comps["Ra"] = M{"type": "object", "properties": M{"next": cref("Rb"), "v": M{"type": "integer", "minimum": 0}}}
	comps["Rb"] = M{"type": "object", "properties": M{"next": cref("Rc")}}
	comps["Rc"] = M{"type": "object", "properties": M{"next": cref("Ra"), "t": M{"type": "boolean"}}}
	comps["Ma"] = M{"type": "object", "properties": M{"kids": M{"type": "object", "additionalProperties": cref("Mb")}, "n": M{"type": "string", "maxLength": 2}}}
	comps["Mb"] = M{"type": "object", "properties": M{"a": cref("Ma")}}
	schemas = append(schemas, cref("Dir"), cref("Ra"), cref("Ma"), cref("Ent"), cref("Rc"))
	// one component used in two roles: a variant shared by two sums that discriminate by members
	// (what is unique in one sum is not in the other), a named array referenced as required, optional
	// and nullable member (a recursive member that is nullable and optional does not compile: C02 fixture)
	comps["UA"] = M{"type": "object", "required": []string{"a", "x"}, "properties": M{"a": small[0], "x": small[1]}}
	comps["UB"] = M{"type": "object", "required": []string{"b"}, "properties": M{"b": small[0]}}
	comps["UC"] = M{"type": "object", "required": []string{"c", "x"}, "properties": M{"c": small[0], "x": small[1]}}
	comps["Tags"] = M{"type": "array", "items": M{"type": "string", "maxLength": 2}}
	comps["HA"] = M{"type": "object", "required": []string{"a"}, "properties": M{"a": small[0]}}
	comps["HB"] = M{"type": "object", "properties": M{"b": small[1]}}
	schemas = append(schemas,
		M{"oneOf": []any{cref("UA"), cref("UB")}}, M{"oneOf": []any{cref("UA"), cref("UC")}},
		M{"type": "object", "required": []string{"a", "b"}, "properties": M{"a": cref("Tags"), "b": M{"nullable": true, "allOf": []any{cref("Tags")}}}},
		M{"type": "object", "required": []string{"req"}, "properties": M{"req": cref("Tags"), "opt": cref("Tags")}},
		M{"oneOf": []any{cref("HA"), cref("HB")}},
		// keywords that meet: required naming a member that is not declared, value constraints next to
		// an enum, allOf of three members where the first requires what the last declares
		M{"type": "object", "required": []string{"p", "ghost"}, "properties": M{"p": small[0]}},
		M{"type": "string", "enum": []any{"a", "abc"}, "minLength": 2},
		M{"type": "integer", "enum": []any{1, 5, 10}, "minimum": 3},
		M{"allOf": []any{M{"type": "object", "required": []string{"r"}, "properties": M{"p": small[0]}}, M{"type": "object", "properties": M{"q": small[1]}}, M{"type": "object", "properties": M{"r": small[2]}}}},
	)
	// a variant that has no member of its own in one sum (it is the default there) and has one in
	// another sum; keywords written next to allOf; a named schema without keywords as a member
	comps["VA"] = M{"type": "object", "required": []string{"a", "b"}, "properties": M{"a": small[0], "b": small[1]}, "additionalProperties": false}
	comps["VD"] = M{"type": "object", "required": []string{"a", "b", "d"}, "properties": M{"a": small[0], "b": small[1], "d": small[2]}}
	comps["VE"] = M{"type": "object", "required": []string{"a"}, "properties": M{"a": small[0]}, "additionalProperties": false}
	comps["Anything"] = M{}
	schemas = append(schemas,
		M{"oneOf": []any{cref("VA"), cref("VD")}}, M{"oneOf": []any{cref("VA"), cref("VE")}},
		M{"allOf": []any{cref("UB")}, "type": "object", "required": []string{"bark"}, "properties": M{"bark": small[0]}},
		M{"allOf": []any{M{"type": "object", "properties": M{"p": small[0]}}}, "type": "object", "required": []string{"p"}, "minProperties": 1},
		M{"type": "object", "properties": M{"anything": cref("Anything"), "p": small[0]}},
	)
	schemas = append(schemas, M{"$ref": "#/components/schemas/Tree"})
	if thorough {
		// depth 3: every wrapper composition over the small leaves
		for _, l := range small {
			schemas = append(schemas,
				M{"type": "array", "items": M{"type": "object", "properties": M{"p": l}, "required": []string{"p"}}, "minItems": 1},
				M{"type": "array", "items": M{"type": "object", "properties": M{"p": l}, "additionalProperties": false}},
				M{"type": "object", "properties": M{"p": M{"type": "array", "items": l, "maxItems": 2, "uniqueItems": true}}, "required": []string{"p"}},
				M{"type": "object", "properties": M{"p": M{"type": "object", "properties": M{"q": l}, "required": []string{"q"}}}},
				M{"type": "object", "properties": M{"p": M{"type": "object", "properties": M{"q": l}, "additionalProperties": false}}, "required": []string{"p"}},
				M{"type": "object", "additionalProperties": M{"type": "array", "items": l, "minItems": 1}},
				M{"type": "object", "additionalProperties": M{"type": "object", "properties": M{"p": l}, "required": []string{"p"}}, "maxProperties": 1},
				M{"type": "array", "items": M{"type": "array", "items": l, "minItems": 1}, "maxItems": 2},
				M{"type": "array", "items": M{"type": "array", "items": M{"type": "array", "items": l}}, "maxItems": 1},
			)
			for _, l2 := range small {
				// integer and number variants overlap in JSON (every integer is a number): discrimination
				// is ambiguous by schema, outside the property's fragment
				numeric := func(m M) bool { return m["type"] == "integer" || m["type"] == "number" }
				if l["type"] != l2["type"] && !(numeric(l) && numeric(l2)) {
					schemas = append(schemas, M{"oneOf": []any{l, l2}}, M{"type": "object", "properties": M{"p": M{"oneOf": []any{l, l2}}}, "required": []string{"p"}},
						M{"type": "array", "items": M{"anyOf": []any{l, l2}}, "maxItems": 2})
				}
				schemas = append(schemas, M{"allOf": []any{
					M{"type": "object", "properties": M{"p": l}, "required": []string{"p"}},
					M{"type": "object", "properties": M{"q": l2}},
				}})
			}
		}
		for _, p := range small {
			for _, q := range small {
				for _, req := range Subsets([]string{"p", "q"}) {
					for _, kws := range Subsets([]M{{"minProperties": 1}, {"maxProperties": 1}}) {
						o := Merge(append([]M{{"type": "object", "properties": M{"p": p, "q": q}, "additionalProperties": M{"type": "boolean"}}}, kws...)...)
						if len(req) > 0 {
							o["required"] = req
						}
						schemas = append(schemas, o)
					}
				}
			}
		}
	}
	// two reference cycles that share a component: X -> Y -> X and Y -> Y (or Y -> W -> Y), X alone
	// carrying something to validate.  What is remembered about "does this type need validation"
	// while one cycle is still open must not be kept for the other.  Every order matters: type names
	// (X before / after Y), members of Y (back to X first / its own cycle first), the validated member
	// of X before / after the member leading to Y.
	for _, xFirst := range []bool{true, false} {
		for _, backFirst := range []bool{true, false} {
			for _, vFirst := range []bool{true, false} {
				for _, viaThird := range []bool{false, true} {
					tag := fmt.Sprintf("%v%v%v%v", xFirst, backFirst, vFirst, viaThird)
					tag = strings.NewReplacer("true", "t", "false", "f").Replace(tag)
					x, y, w := "CyA"+tag, "CyM"+tag, "CyW"+tag
					if !xFirst {
						x = "CyZ" + tag
					}
					back, own := "a_back", "b_own"
					if !backFirst {
						back, own = "b_back", "a_own"
					}
					v := "z_v"
					if vFirst {
						v = "a_v"
					}
					ownTarget := y
					if viaThird {
						ownTarget = w
						comps[w] = M{"type": "object", "properties": M{"up": cref(y)}}
					}
					comps[x] = M{"type": "object", "properties": M{"m_down": cref(y), v: M{"type": "integer", "maximum": 5}}}
					comps[y] = M{"type": "object", "properties": M{back: cref(x), own: cref(ownTarget)}}
					schemas = append(schemas, cref(x))
				}
			}
		}
	}
	// named wrappers around an inline leaf whose pattern / multipleOf is written nowhere else in the
	// document (eight spellings of "starts with a", eight primes): whatever table a generated
	// validator looks its compiled pattern or rational up in must hold the entry for every position a
	// leaf can sit in - item of a named array, of an array of arrays, value of a named map, member of
	// a named object, behind a named alias - used as the body and as a member of the body
	pats := []string{"^a{1}", "^[a]", "^(a)", "^(?:a)", "^a+?", "^a|^a", "^a{1,2}", "^aa*"}
	primes := []int{3, 7, 11, 13, 17, 19, 23, 29}
	wrap := []func(leaf M) M{
		func(l M) M { return M{"type": "array", "items": l} },
		func(l M) M { return M{"type": "array", "items": M{"type": "array", "items": l}} },
		func(l M) M { return M{"type": "object", "additionalProperties": l} },
		func(l M) M { return M{"type": "object", "properties": M{"m": l}} },
		func(l M) M { return M{"type": "array", "nullable": true, "items": l} },
		func(l M) M { return M{"type": "object", "properties": M{"l": M{"type": "array", "items": l}}} },
		func(l M) M {
			return M{"type": "array", "maxItems": 2, "items": M{"type": "object", "properties": M{"m": l}}}
		},
		func(l M) M { return l },
	}
	for i, w := range wrap {
		ns, ni := fmt.Sprintf("PWs%d", i), fmt.Sprintf("PWi%d", i)
		comps[ns] = w(M{"type": "string", "pattern": pats[i]})
		comps[ni] = w(M{"type": "integer", "multipleOf": primes[i]})
		for _, n := range []string{ns, ni} {
			schemas = append(schemas, cref(n), M{"type": "object", "properties": M{"p": cref(n)}})
		}
		if i == len(wrap)-1 { // the leaf itself as a component: also behind a component that only refers to it
			comps["PWsAlias"], comps["PWiAlias"] = cref(ns), cref(ni)
			schemas = append(schemas, M{"type": "array", "items": cref("PWsAlias")}, M{"type": "array", "items": cref("PWiAlias")})
		}
	}
	return schemas, leaves, comps
}
