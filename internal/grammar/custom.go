package grammar

// CustomSpec exercises the custom unmarshalers of the spec model: raw numbers, enums and defaults of
// every JSON type, every additionalProperties form, patternProperties, x-ogen-* extensions, examples.
const CustomSpec = `{"openapi":"3.0.3","info":{"title":"t","version":"1","x-ogen-custom":{"k":[1,"a",null]}},
"paths":{"/a/{id}":{"post":{"operationId":"postA","x-ogen-operation-group":"grp",
 "parameters":[{"name":"id","in":"path","required":true,"schema":{"type":"integer","minimum":1,"maximum":9223372036854775807}},
   {"name":"big","in":"query","schema":{"type":"number","maximum":18446744073709551616}},
   {"name":"q","in":"query","schema":{"type":"number","default":1.0,"multipleOf":0.5,"maximum":1e3}},
   {"name":"e","in":"query","schema":{"type":"string","enum":["a","b c","1","true","null"],"default":"b c"}},
   {"name":"z","in":"query","schema":{"type":"number","minimum":-0,"exclusiveMinimum":true}}],
 "requestBody":{"required":true,"content":{"application/json":{"schema":{"$ref":"#/components/schemas/Obj"},"examples":{"one":{"value":{"zeta":1,"alpha":"x"}}}}}},
 "responses":{"200":{"description":"ok","content":{"application/json":{"schema":{"$ref":"#/components/schemas/Obj"}}}},"default":{"description":"err","content":{"application/json":{"schema":{"type":"object","required":["m"],"properties":{"m":{"type":"string"}}}}}}}}}},
"components":{"schemas":{
 "Obj":{"type":"object","required":["zeta"],"properties":{
   "zeta":{"type":"integer","enum":[1,2,3],"default":2},
   "alpha":{"type":"string","default":"dflt","x-ogen-name":"AlphaField"},
   "mid":{"type":"boolean","default":false},
   "num":{"type":"number","enum":[0.5,1.0,1e2]},
   "nul":{"type":"string","nullable":true,"default":null},
   "arr":{"type":"array","items":{"type":"string"},"default":["x","y"],"minItems":0},
   "objd":{"type":"object","properties":{"k":{"type":"integer"}},"default":{"k":1}},
   "apb":{"type":"object","additionalProperties":true},
   "apf":{"type":"object","properties":{"p":{"type":"string"}},"additionalProperties":false},
   "aps":{"type":"object","additionalProperties":{"type":"integer"}},
   "pp":{"type":"object","patternProperties":{"^x-":{"type":"string"}}},
   "tm":{"type":"string","format":"date-time","x-ogen-time-format":"2006-01-02T15:04:05Z07:00"},
   "any":{},
   "rec":{"$ref":"#/components/schemas/Obj"},
   "one":{"oneOf":[{"type":"string"},{"type":"integer"}]}},
  "x-ogen-properties":{"zeta":{"name":"Zed"}}}}}}`

// ShapesSpec collects constructs whose processing ranges over a map and combines the entries:
// masked and plain media types in one response, one oauth2 scheme in several alternatives with
// overlapping scopes, several response headers, discriminator mappings, pattern properties next to
// properties, x- extensions, server variables, several webhooks, parameters with content, allOf merges,
// an object with a member bound whose optional members are declared before the required ones (the
// example-value templates pick members by requiredness).
const ShapesSpec = `{"openapi":"3.1.0","info":{"title":"t","version":"1","x-b":1,"x-a":2},
"servers":[{"url":"https://{c}.{a}.example.com/{b}","x-ogen-server-name":"Main","variables":{"a":{"default":"x"},"b":{"default":"y","enum":["y","z"]},"c":{"default":"w"}}}],
"paths":{
 "/mixed":{"get":{"operationId":"mixed","security":[{"O":["read","write","admin"]},{"O":["read","write","audit","x1","x2"]},{"O":["x2","x1"],"K":[]}],
   "responses":{"200":{"description":"ok","headers":{"X-C":{"schema":{"type":"string"}},"X-A":{"schema":{"type":"integer"}},"X-B":{"schema":{"type":"array","items":{"type":"string"}}}},
     "content":{"application/json":{"schema":{"type":"string"}},"image/*":{"schema":{"type":"string","format":"binary"}},"text/plain":{"schema":{"type":"string"}},"application/*":{"schema":{"type":"string","format":"binary"}}}},
    "4XX":{"description":"c","content":{"application/json":{"schema":{"$ref":"#/components/schemas/Err"}},"*/*":{"schema":{"type":"string","format":"binary"}}}},
    "default":{"description":"d","content":{"application/json":{"schema":{"$ref":"#/components/schemas/Err"}}}}}}},
 "/req":{"post":{"operationId":"req","parameters":[{"name":"f","in":"query","content":{"application/json":{"schema":{"$ref":"#/components/schemas/Pet"}}}},{"name":"g","in":"header","content":{"application/json":{"schema":{"type":"array","items":{"type":"integer"}}}}}],
   "requestBody":{"content":{"application/json":{"schema":{"$ref":"#/components/schemas/Pet"}},"image/*":{"schema":{"type":"string","format":"binary"}},"application/octet-stream":{"schema":{"type":"string","format":"binary"}},"text/*":{"schema":{"type":"string","format":"binary"}}}},
   "responses":{"200":{"description":"ok","content":{"application/json":{"schema":{"$ref":"#/components/schemas/Merged"}}}}}}},
 "/dflt":{"get":{"operationId":"dflt","responses":{"200":{"description":"ok"},"default":{"$ref":"#/components/responses/Shared"}}}},
 "/zcodes":{"get":{"operationId":"zcodes","responses":{"200":{"description":"ok"},"404":{"$ref":"#/components/responses/Shared"},"500":{"$ref":"#/components/responses/Shared"},"409":{"$ref":"#/components/responses/Shared"}}}}},
"webhooks":{"zeta":{"post":{"operationId":"hookZ","requestBody":{"content":{"application/json":{"schema":{"$ref":"#/components/schemas/Pet"}}}},"responses":{"200":{"description":"ok"}}}},
 "alpha":{"post":{"operationId":"hookA","requestBody":{"content":{"application/json":{"schema":{"$ref":"#/components/schemas/Err"}}}},"responses":{"200":{"description":"ok"}}}},
 "mid":{"post":{"operationId":"hookM","requestBody":{"content":{"application/json":{"schema":{"type":"string"}}}},"responses":{"200":{"description":"ok"}}}}},
"components":{"responses":{"Shared":{"description":"s","content":{"application/json":{"schema":{"$ref":"#/components/schemas/Err"}}}}},"securitySchemes":{"O":{"type":"oauth2","flows":{"clientCredentials":{"tokenUrl":"https://x/t","scopes":{"read":"r","write":"w","admin":"a","audit":"u","x1":"1","x2":"2"}},"password":{"tokenUrl":"https://x/p","scopes":{"read":"r","x2":"2"}}}},"K":{"type":"apiKey","in":"header","name":"X-K"}},
 "schemas":{
  "Err":{"type":"object","properties":{"m":{"type":"string"}},"x-ogen-name":"Failure","x-zzz":1,"x-aaa":2},
  "Pet":{"oneOf":[{"$ref":"#/components/schemas/Cat"},{"$ref":"#/components/schemas/Dog"},{"$ref":"#/components/schemas/Eel"}],"discriminator":{"propertyName":"kind","mapping":{"zcat":"#/components/schemas/Cat","adog":"#/components/schemas/Dog","meel":"#/components/schemas/Eel","cat2":"#/components/schemas/Cat"}}},
  "Cat":{"type":"object","required":["kind"],"properties":{"kind":{"type":"string"},"c":{"type":"integer"}}},
  "Dog":{"type":"object","required":["kind"],"properties":{"kind":{"type":"string"},"d":{"type":"string"}}},
  "Eel":{"type":"object","required":["kind"],"properties":{"kind":{"type":"string"},"e":{"type":"boolean"},"zone":{"$ref":"#/components/schemas/Zone"}}},
  "Pat":{"type":"object","patternProperties":{"^z":{"type":"string"},"^a":{"type":"string"}}},
  "Zone":{"type":"object","maxProperties":3,"minProperties":1,"required":["id","tag"],"properties":{"note":{"type":"string"},"id":{"type":"integer"},"opt2":{"type":"boolean"},"tag":{"type":"string","nullable":true}}},
  "Merged":{"allOf":[{"type":"object","properties":{"z":{"type":"string"},"a":{"type":"integer"}},"required":["z"]},{"type":"object","properties":{"m":{"type":"boolean"},"b":{"$ref":"#/components/schemas/Pat"}},"required":["m"]},{"$ref":"#/components/schemas/Cat"}]}}}}`

// RefsSpec: every kind of component, each referenced from where it can be used (and the components
// referring on to each other), so that a fault placed in a component is met through a reference.
const RefsSpec = `{"openapi":"3.1.0","info":{"title":"t","version":"1"},
"paths":{
 "/a/{id}":{"parameters":[{"$ref":"#/components/parameters/ID"}],
  "post":{"operationId":"a","security":[{"K":[]}],"parameters":[{"$ref":"#/components/parameters/Q"}],"requestBody":{"$ref":"#/components/requestBodies/B"},
   "responses":{"200":{"$ref":"#/components/responses/R"},"default":{"$ref":"#/components/responses/E"}}}},
 "/b":{"$ref":"#/components/pathItems/PI"},
 "/c":{"get":{"operationId":"c","parameters":[{"name":"q","in":"query","schema":{"$ref":"#/components/schemas/S"},"examples":{"e1":{"$ref":"#/components/examples/Ex"}}}],
   "responses":{"200":{"description":"ok","headers":{"X-H":{"$ref":"#/components/headers/H"}},"content":{"application/json":{"schema":{"$ref":"#/components/schemas/S"},"examples":{"e2":{"$ref":"#/components/examples/Ex"},"e3":{"$ref":"#/components/examples/Ex2"}}}}}}}}},
"webhooks":{"w":{"$ref":"#/components/pathItems/PI2"}},
"components":{
 "schemas":{"S":{"type":"object","required":["a"],"properties":{"a":{"type":"string","minLength":1},"t":{"$ref":"#/components/schemas/T"}}},"T":{"type":"integer","minimum":0},"Err":{"type":"object","properties":{"m":{"type":"string"}}}},
 "parameters":{"ID":{"name":"id","in":"path","required":true,"schema":{"$ref":"#/components/schemas/T"}},"Q":{"name":"q","in":"query","schema":{"$ref":"#/components/schemas/T"},"example":1}},
 "headers":{"H":{"required":true,"schema":{"$ref":"#/components/schemas/T"},"description":"hdr"}},
 "examples":{"Ex":{"summary":"ex","value":{"a":"x"}},"Ex2":{"value":{"a":"y","t":1}}},
 "requestBodies":{"B":{"required":true,"content":{"application/json":{"schema":{"$ref":"#/components/schemas/S"},"examples":{"e":{"$ref":"#/components/examples/Ex"}}},"application/x-www-form-urlencoded":{"schema":{"$ref":"#/components/schemas/S"}}}}},
 "responses":{"R":{"description":"r","headers":{"X-H":{"$ref":"#/components/headers/H"}},"content":{"application/json":{"schema":{"$ref":"#/components/schemas/S"},"examples":{"e":{"$ref":"#/components/examples/Ex2"}}}}},
  "E":{"description":"e","content":{"application/json":{"schema":{"$ref":"#/components/schemas/Err"}}}}},
 "securitySchemes":{"K":{"$ref":"#/components/securitySchemes/K2"},"K2":{"type":"apiKey","in":"header","name":"X-K"}},
 "pathItems":{"PI":{"get":{"operationId":"b","responses":{"200":{"$ref":"#/components/responses/R"}}}},"PI2":{"post":{"operationId":"hook","requestBody":{"$ref":"#/components/requestBodies/B"},"responses":{"200":{"description":"ok"}}}}}}}`

// RecursiveDefaultsSpec: every operation answers `default` with a structurally identical recursive
// schema under a different name (the generator compares default responses structurally to fold
// them into one shared error type).
const RecursiveDefaultsSpec = `{"openapi":"3.0.3","info":{"title":"t","version":"1"},"paths":{
"/a":{"get":{"operationId":"a","responses":{"200":{"description":"ok"},"default":{"description":"e","content":{"application/json":{"schema":{"$ref":"#/components/schemas/NodeA"}}}}}}},
"/b":{"get":{"operationId":"b","responses":{"200":{"description":"ok"},"default":{"description":"e","content":{"application/json":{"schema":{"$ref":"#/components/schemas/NodeB"}}}}}}},
"/c":{"get":{"operationId":"c","responses":{"200":{"description":"ok"},"default":{"description":"e","content":{"application/json":{"schema":{"type":"object","properties":{"next":{"$ref":"#/components/schemas/NodeA"},"v":{"type":"string"}}}}}}}}}},
"components":{"schemas":{
"NodeA":{"type":"object","properties":{"next":{"$ref":"#/components/schemas/NodeA"},"v":{"type":"string"}}},
"NodeB":{"type":"object","properties":{"next":{"$ref":"#/components/schemas/NodeB"},"v":{"type":"string"}}}}}}`

// RecursiveOddities: recursive schemas in positions where a hand-written walk has to stop by itself:
// allOf members that both give the same property a reference to the enclosing schema, and a
// parameter whose schema is a oneOf containing a reference to itself.
var RecursiveOddities = []string{`{"openapi":"3.0.3","info":{"title":"t","version":"1"},"paths":{"/a":{"post":{"operationId":"a","requestBody":{"content":{"application/json":{"schema":{"$ref":"#/components/schemas/P"}}}},"responses":{"200":{"description":"ok"}}}}},
"components":{"schemas":{"P":{"allOf":[{"type":"object","properties":{"x":{"$ref":"#/components/schemas/P"}}},{"type":"object","properties":{"x":{"$ref":"#/components/schemas/P"}}}]}}}}`, `{"openapi":"3.0.3","info":{"title":"t","version":"1"},"paths":{"/a":{"get":{"operationId":"a","parameters":[{"name":"q","in":"query","schema":{"$ref":"#/components/schemas/Q"}}],"responses":{"200":{"description":"ok"}}}}},
"components":{"schemas":{"Q":{"oneOf":[{"$ref":"#/components/schemas/Q"},{"type":"string"}]}}}}`}

// CyclesSpec: reference cycles of every shape (mutual, 3-cycle, through sums, arrays, maps).
const CyclesSpec = `{"openapi":"3.0.3","info":{"title":"t","version":"1"},"paths":{
 "/folder":{"post":{"operationId":"folder","requestBody":{"required":true,"content":{"application/json":{"schema":{"$ref":"#/components/schemas/Folder"}}}},"responses":{"200":{"description":"ok","content":{"application/json":{"schema":{"$ref":"#/components/schemas/Owner"}}}}}}},
 "/abc":{"post":{"operationId":"abc","requestBody":{"required":true,"content":{"application/json":{"schema":{"$ref":"#/components/schemas/B"}}}},"responses":{"200":{"description":"ok","content":{"application/json":{"schema":{"$ref":"#/components/schemas/A"}}}},"default":{"description":"e","content":{"application/json":{"schema":{"$ref":"#/components/schemas/C"}}}}}}},
 "/sum":{"post":{"operationId":"sum","requestBody":{"required":true,"content":{"application/json":{"schema":{"$ref":"#/components/schemas/Sum"}}}},"responses":{"200":{"description":"ok","content":{"application/json":{"schema":{"$ref":"#/components/schemas/M"}}}}}}},
 "/list":{"get":{"operationId":"list","responses":{"200":{"description":"ok","content":{"application/json":{"schema":{"type":"array","items":{"$ref":"#/components/schemas/Node"}}}}}}}}},
"components":{"schemas":{
 "Folder":{"type":"object","properties":{"owner":{"$ref":"#/components/schemas/Owner"},"name":{"type":"string","minLength":1}}},
 "Owner":{"type":"object","properties":{"folders":{"type":"array","items":{"$ref":"#/components/schemas/Folder"}}}},
 "A":{"type":"object","properties":{"b":{"$ref":"#/components/schemas/B"},"c":{"$ref":"#/components/schemas/C"}}},
 "B":{"type":"object","properties":{"c":{"$ref":"#/components/schemas/C"},"a":{"$ref":"#/components/schemas/A"}}},
 "C":{"type":"object","properties":{"a":{"$ref":"#/components/schemas/A"},"n":{"type":"integer","minimum":0}}},
 "Sum":{"oneOf":[{"$ref":"#/components/schemas/Leaf"},{"$ref":"#/components/schemas/Node"}]},
 "Leaf":{"type":"object","required":["v"],"properties":{"v":{"type":"string","pattern":"^a"}}},
 "Node":{"type":"object","required":["kids"],"properties":{"kids":{"type":"array","items":{"$ref":"#/components/schemas/Sum"}},"next":{"$ref":"#/components/schemas/Node"},"alt":{"$ref":"#/components/schemas/Sum"}}},
 "M":{"type":"object","additionalProperties":{"$ref":"#/components/schemas/M2"}},
 "M2":{"type":"object","properties":{"m":{"$ref":"#/components/schemas/M"},"s":{"type":"string","maxLength":3},"self":{"$ref":"#/components/schemas/M2"}}}}}}`

// Oddities: documents that are valid and whose processing cost or code path is unusual: a wide
// acyclic reference graph (every schema refers twice to the next: the number of paths doubles per
// level, so every walk over the type graph has to remember what it has seen), enum values that start
// with U+FFFD or other characters without an identifier form, custom security schemes used by
// several operations, a nullable enum listing null.
var Oddities = []string{`{"openapi": "3.0.3", "info": {"title": "t", "version": "1"}, "paths": {"/a": {"post": {"operationId": "a", "requestBody": {"content": {"application/json": {"schema": {"$ref": "#/components/schemas/A00"}}}}, "responses": {"200": {"description": "ok"}}}}}, "components": {"schemas": {"A00": {"type": "object", "properties": {"v": {"type": "string"}, "x": {"$ref": "#/components/schemas/A01"}, "y": {"$ref": "#/components/schemas/A01"}}}, "A01": {"type": "object", "properties": {"v": {"type": "string"}, "x": {"$ref": "#/components/schemas/A02"}, "y": {"$ref": "#/components/schemas/A02"}}}, "A02": {"type": "object", "properties": {"v": {"type": "string"}, "x": {"$ref": "#/components/schemas/A03"}, "y": {"$ref": "#/components/schemas/A03"}}}, "A03": {"type": "object", "properties": {"v": {"type": "string"}, "x": {"$ref": "#/components/schemas/A04"}, "y": {"$ref": "#/components/schemas/A04"}}}, "A04": {"type": "object", "properties": {"v": {"type": "string"}, "x": {"$ref": "#/components/schemas/A05"}, "y": {"$ref": "#/components/schemas/A05"}}}, "A05": {"type": "object", "properties": {"v": {"type": "string"}, "x": {"$ref": "#/components/schemas/A06"}, "y": {"$ref": "#/components/schemas/A06"}}}, "A06": {"type": "object", "properties": {"v": {"type": "string"}, "x": {"$ref": "#/components/schemas/A07"}, "y": {"$ref": "#/components/schemas/A07"}}}, "A07": {"type": "object", "properties": {"v": {"type": "string"}, "x": {"$ref": "#/components/schemas/A08"}, "y": {"$ref": "#/components/schemas/A08"}}}, "A08": {"type": "object", "properties": {"v": {"type": "string"}, "x": {"$ref": "#/components/schemas/A09"}, "y": {"$ref": "#/components/schemas/A09"}}}, "A09": {"type": "object", "properties": {"v": {"type": "string"}, "x": {"$ref": "#/components/schemas/A10"}, "y": {"$ref": "#/components/schemas/A10"}}}, "A10": {"type": "object", "properties": {"v": {"type": "string"}, "x": {"$ref": "#/components/schemas/A11"}, "y": {"$ref": "#/components/schemas/A11"}}}, "A11": {"type": "object", "properties": {"v": {"type": "string"}, "x": {"$ref": "#/components/schemas/A12"}, "y": {"$ref": "#/components/schemas/A12"}}}, "A12": {"type": "object", "properties": {"v": {"type": "string"}, "x": {"$ref": "#/components/schemas/A13"}, "y": {"$ref": "#/components/schemas/A13"}}}, "A13": {"type": "object", "properties": {"v": {"type": "string"}, "x": {"$ref": "#/components/schemas/A14"}, "y": {"$ref": "#/components/schemas/A14"}}}, "A14": {"type": "object", "properties": {"v": {"type": "string"}, "x": {"$ref": "#/components/schemas/A15"}, "y": {"$ref": "#/components/schemas/A15"}}}, "A15": {"type": "object", "properties": {"v": {"type": "string"}, "x": {"$ref": "#/components/schemas/A16"}, "y": {"$ref": "#/components/schemas/A16"}}}, "A16": {"type": "object", "properties": {"v": {"type": "string"}, "x": {"$ref": "#/components/schemas/A17"}, "y": {"$ref": "#/components/schemas/A17"}}}, "A17": {"type": "object", "properties": {"v": {"type": "string"}, "x": {"$ref": "#/components/schemas/A18"}, "y": {"$ref": "#/components/schemas/A18"}}}, "A18": {"type": "object", "properties": {"v": {"type": "string"}, "x": {"$ref": "#/components/schemas/A19"}, "y": {"$ref": "#/components/schemas/A19"}}}, "A19": {"type": "object", "properties": {"v": {"type": "string"}, "x": {"$ref": "#/components/schemas/A20"}, "y": {"$ref": "#/components/schemas/A20"}}}, "A20": {"type": "object", "properties": {"v": {"type": "string"}, "x": {"$ref": "#/components/schemas/A21"}, "y": {"$ref": "#/components/schemas/A21"}}}, "A21": {"type": "object", "properties": {"v": {"type": "string"}, "x": {"$ref": "#/components/schemas/A22"}, "y": {"$ref": "#/components/schemas/A22"}}}, "A22": {"type": "object", "properties": {"v": {"type": "string"}, "x": {"$ref": "#/components/schemas/A23"}, "y": {"$ref": "#/components/schemas/A23"}}}, "A23": {"type": "object", "properties": {"v": {"type": "string"}, "x": {"$ref": "#/components/schemas/A24"}, "y": {"$ref": "#/components/schemas/A24"}}}, "A24": {"type": "object", "properties": {"v": {"type": "string"}, "x": {"$ref": "#/components/schemas/A25"}, "y": {"$ref": "#/components/schemas/A25"}}}, "A25": {"type": "object", "properties": {"v": {"type": "string"}, "x": {"$ref": "#/components/schemas/A26"}, "y": {"$ref": "#/components/schemas/A26"}}}, "A26": {"type": "object", "properties": {"v": {"type": "string"}, "x": {"$ref": "#/components/schemas/A27"}, "y": {"$ref": "#/components/schemas/A27"}}}, "A27": {"type": "object", "properties": {"v": {"type": "string"}, "x": {"$ref": "#/components/schemas/A28"}, "y": {"$ref": "#/components/schemas/A28"}}}, "A28": {"type": "object", "properties": {"v": {"type": "string"}, "x": {"$ref": "#/components/schemas/A29"}, "y": {"$ref": "#/components/schemas/A29"}}}, "A29": {"type": "object", "properties": {"v": {"type": "string"}, "x": {"$ref": "#/components/schemas/A30"}, "y": {"$ref": "#/components/schemas/A30"}}}, "A30": {"type": "object", "properties": {"v": {"type": "string"}, "x": {"$ref": "#/components/schemas/A31"}, "y": {"$ref": "#/components/schemas/A31"}}}, "A31": {"type": "object", "properties": {"v": {"type": "string"}, "x": {"$ref": "#/components/schemas/A32"}, "y": {"$ref": "#/components/schemas/A32"}}}, "A32": {"type": "object", "properties": {"v": {"type": "string"}, "x": {"$ref": "#/components/schemas/A33"}, "y": {"$ref": "#/components/schemas/A33"}}}, "A33": {"type": "object", "properties": {"v": {"type": "string"}, "x": {"$ref": "#/components/schemas/A34"}, "y": {"$ref": "#/components/schemas/A34"}}}, "A34": {"type": "object", "properties": {"v": {"type": "string"}, "x": {"$ref": "#/components/schemas/A35"}, "y": {"$ref": "#/components/schemas/A35"}}}, "A35": {"type": "object", "properties": {"v": {"type": "string"}, "x": {"$ref": "#/components/schemas/A36"}, "y": {"$ref": "#/components/schemas/A36"}}}, "A36": {"type": "object", "properties": {"v": {"type": "string"}, "x": {"$ref": "#/components/schemas/A37"}, "y": {"$ref": "#/components/schemas/A37"}}}, "A37": {"type": "object", "properties": {"v": {"type": "string"}, "x": {"$ref": "#/components/schemas/A38"}, "y": {"$ref": "#/components/schemas/A38"}}}, "A38": {"type": "object", "properties": {"v": {"type": "string"}, "x": {"$ref": "#/components/schemas/A39"}, "y": {"$ref": "#/components/schemas/A39"}}}, "A39": {"type": "object", "properties": {"v": {"type": "string"}}}}}}`, `{"openapi": "3.0.3", "info": {"title": "t", "version": "1"}, "paths": {"/a": {"get": {"operationId": "a", "security": [{"CO": ["read"]}], "parameters": [{"name": "e", "in": "query", "schema": {"$ref": "#/components/schemas/E"}}], "responses": {"200": {"description": "ok", "content": {"application/json": {"schema": {"$ref": "#/components/schemas/N"}}}}}}}, "/b": {"get": {"operationId": "b", "security": [{"CO": ["write"]}, {"CK": []}], "responses": {"200": {"description": "ok", "content": {"application/json": {"schema": {"$ref": "#/components/schemas/E2"}}}}}}}}, "components": {"securitySchemes": {"CO": {"type": "oauth2", "x-ogen-custom-security": true, "flows": {"clientCredentials": {"tokenUrl": "https://x/t", "scopes": {"read": "r", "write": "w"}}}}, "CK": {"type": "apiKey", "in": "header", "name": "X-K", "x-ogen-custom-security": true}}, "schemas": {"E": {"type": "string", "enum": ["�a", "b", "-1", "1"]}, "E2": {"type": "string", "enum": ["�", "é", "", "a b", "A_B", "a-b"]}, "N": {"type": "string", "nullable": true, "enum": [null, "a", "b"]}}}}`}
