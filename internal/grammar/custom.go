package grammar

// CustomSpec exercises the custom unmarshalers of the spec model: raw numbers, enums and defaults of
// every JSON type, every additionalProperties form, patternProperties, x-ogen-* extensions, examples.
const CustomSpec = `{"openapi":"3.0.3","info":{"title":"t","version":"1","x-ogen-custom":{"k":[1,"a",null]}},
"paths":{"/a/{id}":{"post":{"operationId":"postA","x-ogen-operation-group":"grp",
 "parameters":[{"name":"id","in":"path","required":true,"schema":{"type":"integer","minimum":1,"maximum":9223372036854775807}},
   {"name":"big","in":"query","schema":{"type":"number","maximum":18446744073709551616}},
   {"name":"q","in":"query","schema":{"type":"number","default":1.0,"multipleOf":0.5,"maximum":1e3}},
   {"name":"e","in":"query","schema":{"type":"string","enum":["a","b c","1","true","null"],"default":"b c"}},
   {"name":"z","in":"query","schema":{"type":"number","minimum":-0,"exclusiveMinimum":true}}],
 "requestBody":{"required":true,"content":{"application/json":{"schema":{"$ref":"#/components/schemas/Obj"},"examples":{"one":{"value":{"zeta":1,"alpha":"x"}}}}}},
 "responses":{"200":{"description":"ok","content":{"application/json":{"schema":{"$ref":"#/components/schemas/Obj"}}}},"default":{"description":"err","content":{"application/json":{"schema":{"type":"object","required":["m"],"properties":{"m":{"type":"string"}}}}}}}}}},
"components":{"schemas":{
 "Obj":{"type":"object","required":["zeta"],"properties":{
   "zeta":{"type":"integer","enum":[1,2,3],"default":2},
   "alpha":{"type":"string","default":"dflt","x-ogen-name":"AlphaField"},
   "mid":{"type":"boolean","default":false},
   "num":{"type":"number","enum":[0.5,1.0,1e2]},
   "nul":{"type":"string","nullable":true,"default":null},
   "arr":{"type":"array","items":{"type":"string"},"default":["x","y"],"minItems":0},
   "objd":{"type":"object","properties":{"k":{"type":"integer"}},"default":{"k":1}},
   "apb":{"type":"object","additionalProperties":true},
   "apf":{"type":"object","properties":{"p":{"type":"string"}},"additionalProperties":false},
   "aps":{"type":"object","additionalProperties":{"type":"integer"}},
   "pp":{"type":"object","patternProperties":{"^x-":{"type":"string"}}},
   "tm":{"type":"string","format":"date-time","x-ogen-time-format":"2006-01-02T15:04:05Z07:00"},
   "any":{},
   "rec":{"$ref":"#/components/schemas/Obj"},
   "one":{"oneOf":[{"type":"string"},{"type":"integer"}]}},
  "x-ogen-properties":{"zeta":{"name":"Zed"}}}}}}`
