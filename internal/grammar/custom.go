package grammar

import (
	"fmt"
	"strings"
)

// CustomSpec exercises the custom unmarshalers of the spec model: raw numbers, enums and defaults of
// every JSON type, every additionalProperties form, patternProperties, x-ogen-* extensions, examples.
const CustomSpec = `{"openapi":"3.0.3","info":{"title":"t","version":"1","x-ogen-custom":{"k":[1,"a",null]}},
"paths":{"/a/{id}":{"post":{"operationId":"postA","x-ogen-operation-group":"grp",
 "parameters":[{"name":"id","in":"path","required":true,"schema":{"type":"integer","minimum":1,"maximum":9223372036854775807}},
   {"name":"big","in":"query","schema":{"type":"number","maximum":18446744073709551616}},
   {"name":"q","in":"query","schema":{"type":"number","default":1.0,"multipleOf":0.5,"maximum":1e3}},
   {"name":"e","in":"query","schema":{"type":"string","enum":["a","b c","1","true","null"],"default":"b c"}},
   {"name":"z","in":"query","schema":{"type":"number","minimum":-0,"exclusiveMinimum":true}}],
 "requestBody":{"required":true,"content":{"application/json":{"schema":{"$ref":"#/components/schemas/Obj"},"examples":{"one":{"value":{"zeta":1,"alpha":"x"}}}}}},
 "responses":{"200":{"description":"ok","content":{"application/json":{"schema":{"$ref":"#/components/schemas/Obj"}}}},"default":{"description":"err","content":{"application/json":{"schema":{"type":"object","required":["m"],"properties":{"m":{"type":"string"}}}}}}}}}},
"components":{"schemas":{
 "Obj":{"type":"object","required":["zeta"],"properties":{
   "zeta":{"type":"integer","enum":[1,2,3],"default":2},
   "alpha":{"type":"string","default":"dflt","x-ogen-name":"AlphaField"},
   "mid":{"type":"boolean","default":false},
   "num":{"type":"number","enum":[0.5,1.0,1e2]},
   "nul":{"type":"string","nullable":true,"default":null},
   "arr":{"type":"array","items":{"type":"string"},"default":["x","y"],"minItems":0},
   "objd":{"type":"object","properties":{"k":{"type":"integer"}},"default":{"k":1}},
   "apb":{"type":"object","additionalProperties":true},
   "apf":{"type":"object","properties":{"p":{"type":"string"}},"additionalProperties":false},
   "aps":{"type":"object","additionalProperties":{"type":"integer"}},
   "pp":{"type":"object","patternProperties":{"^x-":{"type":"string"}}},
   "tm":{"type":"string","format":"date-time","x-ogen-time-format":"2006-01-02T15:04:05Z07:00"},
   "any":{},
   "rec":{"$ref":"#/components/schemas/Obj"},
   "one":{"oneOf":[{"type":"string"},{"type":"integer"}]}},
  "x-ogen-properties":{"zeta":{"name":"Zed"}}}}}}`

// ShapesSpec collects constructs whose processing ranges over a map and combines the entries:
// masked and plain media types in one response, one media type under two keys, two masks that match each other, one oauth2 scheme in several alternatives with
// overlapping scopes, several response headers, discriminator mappings, pattern properties next to
// properties, x- extensions, server variables, several webhooks, parameters with content, allOf merges,
// an object with a member bound whose optional members are declared before the required ones (the
// example-value templates pick members by requiredness), a media type with a dozen named examples
// (whatever bounds or de-duplicates a list fed from a map has to do it after ordering).
const ShapesSpec = `{"openapi":"3.1.0","info":{"title":"t","version":"1","x-b":1,"x-a":2},
"servers":[{"url":"https://{c}.{a}.example.com/{b}","x-ogen-server-name":"Main","variables":{"a":{"default":"x"},"b":{"default":"y","enum":["y","z"]},"c":{"default":"w"}}}],
"paths":{
 "/mixed":{"get":{"operationId":"mixed","security":[{"O":["read","write","admin"]},{"O":["read","write","audit","x1","x2"]},{"O":["x2","x1"],"K":[]}],
   "responses":{"200":{"description":"ok","headers":{"X-C":{"schema":{"type":"string"}},"X-A":{"schema":{"type":"integer"}},"X-B":{"schema":{"type":"array","items":{"type":"string"}}}},
     "content":{"application/json":{"schema":{"type":"string"}},"image/*":{"schema":{"type":"string","format":"binary"}},"text/plain":{"schema":{"type":"string"}},"application/*":{"schema":{"type":"string","format":"binary"}}}},
    "4XX":{"description":"c","content":{"application/json":{"schema":{"$ref":"#/components/schemas/Err"}},"*/*":{"schema":{"type":"string","format":"binary"}}}},
    "default":{"description":"d","content":{"application/json":{"schema":{"$ref":"#/components/schemas/Err"}}}}}}},
 "/sec-order":{"get":{"operationId":"secOrder","security":[{"Zeta":[],"Beta":[],"Mid":[]},{"Mid":[],"Beta":[]}],"responses":{"200":{"description":"schemes of one requirement declared in another order than the alphabetical one"}}}},
 "/same-type":{"post":{"operationId":"sameType",
   "requestBody":{"content":{"application/json; version=1":{"schema":{"$ref":"#/components/schemas/Err"}},"application/json; version=2":{"schema":{"type":"object","properties":{"v2":{"type":"integer"}}}}}},
   "responses":{"200":{"description":"one media type under two keys","content":{"application/json; version=1":{"schema":{"type":"string"}},"application/json; version=2":{"schema":{"type":"integer"}}}},
    "201":{"description":"two masks that match each other","content":{"application/*":{"schema":{"type":"string","format":"binary"}},"application/**":{"schema":{"type":"string","format":"binary"}}}}}}},
 "/req":{"post":{"operationId":"req","parameters":[{"name":"f","in":"query","content":{"application/json":{"schema":{"$ref":"#/components/schemas/Pet"}}}},{"name":"g","in":"header","content":{"application/json":{"schema":{"type":"array","items":{"type":"integer"}}}}}],
   "requestBody":{"content":{"application/json":{"schema":{"$ref":"#/components/schemas/Pet"},"examples":{"e00":{"value":{"kind":"adog","d":"v0"}},"e01":{"value":{"kind":"adog","d":"v1"}},"e02":{"value":{"kind":"adog","d":"v2"}},"e03":{"value":{"kind":"adog","d":"v3"}},"e04":{"value":{"kind":"adog","d":"v4"}},"e05":{"value":{"kind":"adog","d":"v5"}},"e06":{"value":{"kind":"adog","d":"v6"}},"e07":{"value":{"kind":"adog","d":"v7"}},"e08":{"value":{"kind":"adog","d":"v8"}},"e09":{"value":{"kind":"adog","d":"v9"}},"e10":{"value":{"kind":"adog","d":"v10"}},"e11":{"value":{"kind":"adog","d":"v11"}}}},"image/*":{"schema":{"type":"string","format":"binary"}},"application/octet-stream":{"schema":{"type":"string","format":"binary"}},"text/*":{"schema":{"type":"string","format":"binary"}}}},
   "responses":{"200":{"description":"ok","content":{"application/json":{"schema":{"$ref":"#/components/schemas/Merged"}}}}}}},
 "/dflt":{"get":{"operationId":"dflt","responses":{"200":{"description":"ok"},"default":{"$ref":"#/components/responses/Shared"}}}},
 "/codes2":{"get":{"operationId":"codes2","responses":{"200":{"description":"ok","content":{"application/json":{"schema":{"type":"object","properties":{"a":{"type":"string"}}}}}},"400":{"$ref":"#/components/responses/Str"},"404":{"$ref":"#/components/responses/Str"},"409":{"$ref":"#/components/responses/Str"}}}},
 "/bin2":{"get":{"operationId":"bin2","responses":{"200":{"description":"ok","headers":{"X-Foo":{"schema":{"type":"string"}}},"content":{"application/octet-stream":{"schema":{"$ref":"#/components/schemas/Blob"}},"image/png":{"schema":{"$ref":"#/components/schemas/Blob"}},"audio/ogg":{"schema":{"$ref":"#/components/schemas/Blob"}}}}}}},
 "/zcodes":{"get":{"operationId":"zcodes","responses":{"200":{"description":"ok"},"404":{"$ref":"#/components/responses/Shared"},"500":{"$ref":"#/components/responses/Shared"},"409":{"$ref":"#/components/responses/Shared"}}}}},
"webhooks":{"zeta":{"post":{"operationId":"hookZ","requestBody":{"content":{"application/json":{"schema":{"$ref":"#/components/schemas/Pet"}}}},"responses":{"200":{"description":"ok"}}}},
 "alpha":{"post":{"operationId":"hookA","requestBody":{"content":{"application/json":{"schema":{"$ref":"#/components/schemas/Err"}}}},"responses":{"200":{"description":"ok"}}}},
 "mid":{"post":{"operationId":"hookM","requestBody":{"content":{"application/json":{"schema":{"type":"string"}}}},"responses":{"200":{"description":"ok"}}}}},
"components":{"responses":{"Str":{"description":"s","content":{"application/json":{"schema":{"type":"string"}}}},"Shared":{"description":"s","content":{"application/json":{"schema":{"$ref":"#/components/schemas/Err"}}}}},"securitySchemes":{"Zeta":{"type":"apiKey","in":"query","name":"z"},"Beta":{"type":"apiKey","in":"header","name":"X-Beta"},"Mid":{"type":"http","scheme":"bearer"},"O":{"type":"oauth2","flows":{"clientCredentials":{"tokenUrl":"https://x/t","scopes":{"read":"r","write":"w","admin":"a","audit":"u","x1":"1","x2":"2"}},"password":{"tokenUrl":"https://x/p","scopes":{"read":"r","x2":"2"}}}},"K":{"type":"apiKey","in":"header","name":"X-K"}},
 "schemas":{
  "Err":{"type":"object","properties":{"m":{"type":"string"}},"x-ogen-name":"Failure","x-zzz":1,"x-aaa":2},
  "Pet":{"oneOf":[{"$ref":"#/components/schemas/Cat"},{"$ref":"#/components/schemas/Dog"},{"$ref":"#/components/schemas/Eel"}],"discriminator":{"propertyName":"kind","mapping":{"zcat":"#/components/schemas/Cat","adog":"#/components/schemas/Dog","meel":"#/components/schemas/Eel","cat2":"#/components/schemas/Cat"}}},
  "Cat":{"type":"object","required":["kind"],"properties":{"kind":{"type":"string"},"c":{"type":"integer"}}},
  "Dog":{"type":"object","required":["kind"],"properties":{"kind":{"type":"string"},"d":{"type":"string"}}},
  "Eel":{"type":"object","required":["kind"],"properties":{"kind":{"type":"string"},"e":{"type":"boolean"},"zone":{"$ref":"#/components/schemas/Zone"}}},
  "Pat":{"type":"object","patternProperties":{"^z":{"type":"string"},"^a":{"type":"string"}}},
  "Blob":{"type":"string","format":"binary"},
  "Zone":{"type":"object","maxProperties":3,"minProperties":1,"required":["id","tag"],"properties":{"note":{"type":"string"},"id":{"type":"integer"},"opt2":{"type":"boolean"},"tag":{"type":"string","nullable":true}}},
  "Merged":{"allOf":[{"type":"object","properties":{"z":{"type":"string"},"a":{"type":"integer"}},"required":["z"]},{"type":"object","properties":{"m":{"type":"boolean"},"b":{"$ref":"#/components/schemas/Pat"}},"required":["m"]},{"$ref":"#/components/schemas/Cat"}]}}}}`

// RefsSpec: every kind of component, each referenced from where it can be used (and the components
// referring on to each other), so that a fault placed in a component is met through a reference.
const RefsSpec = `{"openapi":"3.1.0","info":{"title":"t","version":"1"},
"paths":{
 "/a/{id}":{"parameters":[{"$ref":"#/components/parameters/ID"}],
  "post":{"operationId":"a","security":[{"K":[]}],"parameters":[{"$ref":"#/components/parameters/Q"}],"requestBody":{"$ref":"#/components/requestBodies/B"},
   "responses":{"200":{"$ref":"#/components/responses/R"},"default":{"$ref":"#/components/responses/E"}}}},
 "/b":{"$ref":"#/components/pathItems/PI"},
 "/c":{"get":{"operationId":"c","parameters":[{"name":"q","in":"query","schema":{"$ref":"#/components/schemas/S"},"examples":{"e1":{"$ref":"#/components/examples/Ex"}}}],
   "responses":{"200":{"description":"ok","headers":{"X-H":{"$ref":"#/components/headers/H"}},"content":{"application/json":{"schema":{"$ref":"#/components/schemas/S"},"examples":{"e2":{"$ref":"#/components/examples/Ex"},"e3":{"$ref":"#/components/examples/Ex2"}}}}}}}}},
"webhooks":{"w":{"$ref":"#/components/pathItems/PI2"}},
"components":{
 "schemas":{"S":{"type":"object","required":["a"],"properties":{"a":{"type":"string","minLength":1},"t":{"$ref":"#/components/schemas/T"}}},"T":{"type":"integer","minimum":0},"Err":{"type":"object","properties":{"m":{"type":"string"}}}},
 "parameters":{"ID":{"name":"id","in":"path","required":true,"schema":{"$ref":"#/components/schemas/T"}},"Q":{"name":"q","in":"query","schema":{"$ref":"#/components/schemas/T"},"example":1}},
 "headers":{"H":{"required":true,"schema":{"$ref":"#/components/schemas/T"},"description":"hdr"}},
 "examples":{"Ex":{"summary":"ex","value":{"a":"x"}},"Ex2":{"value":{"a":"y","t":1}}},
 "requestBodies":{"B":{"required":true,"content":{"application/json":{"schema":{"$ref":"#/components/schemas/S"},"examples":{"e":{"$ref":"#/components/examples/Ex"}}},"application/x-www-form-urlencoded":{"schema":{"$ref":"#/components/schemas/S"}}}}},
 "responses":{"R":{"description":"r","headers":{"X-H":{"$ref":"#/components/headers/H"}},"content":{"application/json":{"schema":{"$ref":"#/components/schemas/S"},"examples":{"e":{"$ref":"#/components/examples/Ex2"}}}}},
  "E":{"description":"e","content":{"application/json":{"schema":{"$ref":"#/components/schemas/Err"}}}}},
 "securitySchemes":{"K":{"$ref":"#/components/securitySchemes/K2"},"K2":{"type":"apiKey","in":"header","name":"X-K"}},
 "pathItems":{"PI":{"get":{"operationId":"b","responses":{"200":{"$ref":"#/components/responses/R"}}}},"PI2":{"post":{"operationId":"hook","requestBody":{"$ref":"#/components/requestBodies/B"},"responses":{"200":{"description":"ok"}}}}}}}`

// RecursiveDefaultsSpec: every operation answers `default` with a structurally identical recursive
// schema under a different name (the generator compares default responses structurally to fold
// them into one shared error type).
const RecursiveDefaultsSpec = `{"openapi":"3.0.3","info":{"title":"t","version":"1"},"paths":{
"/a":{"get":{"operationId":"a","responses":{"200":{"description":"ok"},"default":{"description":"e","content":{"application/json":{"schema":{"$ref":"#/components/schemas/NodeA"}}}}}}},
"/b":{"get":{"operationId":"b","responses":{"200":{"description":"ok"},"default":{"description":"e","content":{"application/json":{"schema":{"$ref":"#/components/schemas/NodeB"}}}}}}},
"/c":{"get":{"operationId":"c","responses":{"200":{"description":"ok"},"default":{"description":"e","content":{"application/json":{"schema":{"type":"object","properties":{"next":{"$ref":"#/components/schemas/NodeA"},"v":{"type":"string"}}}}}}}}}},
"components":{"schemas":{
"NodeA":{"type":"object","properties":{"next":{"$ref":"#/components/schemas/NodeA"},"v":{"type":"string"}}},
"NodeB":{"type":"object","properties":{"next":{"$ref":"#/components/schemas/NodeB"},"v":{"type":"string"}}}}}}`

// RecursiveOddities: recursive schemas in positions where a hand-written walk has to stop by itself:
// allOf members that both give the same property a reference to the enclosing schema, and a
// parameter whose schema is a oneOf containing a reference to itself.
var RecursiveOddities = []string{`{"openapi":"3.0.3","info":{"title":"t","version":"1"},"paths":{"/a":{"post":{"operationId":"a","requestBody":{"content":{"application/json":{"schema":{"$ref":"#/components/schemas/P"}}}},"responses":{"200":{"description":"ok"}}}}},
"components":{"schemas":{"P":{"allOf":[{"type":"object","properties":{"x":{"$ref":"#/components/schemas/P"}}},{"type":"object","properties":{"x":{"$ref":"#/components/schemas/P"}}}]}}}}`, `{"openapi":"3.0.3","info":{"title":"t","version":"1"},"paths":{"/a":{"get":{"operationId":"a","parameters":[{"name":"q","in":"query","schema":{"$ref":"#/components/schemas/Q"}}],"responses":{"200":{"description":"ok"}}}}},
"components":{"schemas":{"Q":{"oneOf":[{"$ref":"#/components/schemas/Q"},{"type":"string"}]}}}}`}

// CyclesSpec: reference cycles of every shape (mutual, 3-cycle, through sums, arrays, maps).
const CyclesSpec = `{"openapi":"3.0.3","info":{"title":"t","version":"1"},"paths":{
 "/folder":{"post":{"operationId":"folder","requestBody":{"required":true,"content":{"application/json":{"schema":{"$ref":"#/components/schemas/Folder"}}}},"responses":{"200":{"description":"ok","content":{"application/json":{"schema":{"$ref":"#/components/schemas/Owner"}}}}}}},
 "/abc":{"post":{"operationId":"abc","requestBody":{"required":true,"content":{"application/json":{"schema":{"$ref":"#/components/schemas/B"}}}},"responses":{"200":{"description":"ok","content":{"application/json":{"schema":{"$ref":"#/components/schemas/A"}}}},"default":{"description":"e","content":{"application/json":{"schema":{"$ref":"#/components/schemas/C"}}}}}}},
 "/sum":{"post":{"operationId":"sum","requestBody":{"required":true,"content":{"application/json":{"schema":{"$ref":"#/components/schemas/Sum"}}}},"responses":{"200":{"description":"ok","content":{"application/json":{"schema":{"$ref":"#/components/schemas/M"}}}}}}},
 "/list":{"get":{"operationId":"list","responses":{"200":{"description":"ok","content":{"application/json":{"schema":{"type":"array","items":{"$ref":"#/components/schemas/Node"}}}}}}}}},
"components":{"schemas":{
 "Folder":{"type":"object","properties":{"owner":{"$ref":"#/components/schemas/Owner"},"name":{"type":"string","minLength":1}}},
 "Owner":{"type":"object","properties":{"folders":{"type":"array","items":{"$ref":"#/components/schemas/Folder"}}}},
 "A":{"type":"object","properties":{"b":{"$ref":"#/components/schemas/B"},"c":{"$ref":"#/components/schemas/C"}}},
 "B":{"type":"object","properties":{"c":{"$ref":"#/components/schemas/C"},"a":{"$ref":"#/components/schemas/A"}}},
 "C":{"type":"object","properties":{"a":{"$ref":"#/components/schemas/A"},"n":{"type":"integer","minimum":0}}},
 "Sum":{"oneOf":[{"$ref":"#/components/schemas/Leaf"},{"$ref":"#/components/schemas/Node"}]},
 "Leaf":{"type":"object","required":["v"],"properties":{"v":{"type":"string","pattern":"^a"}}},
 "Node":{"type":"object","required":["kids"],"properties":{"kids":{"type":"array","items":{"$ref":"#/components/schemas/Sum"}},"next":{"$ref":"#/components/schemas/Node"},"alt":{"$ref":"#/components/schemas/Sum"}}},
 "M":{"type":"object","additionalProperties":{"$ref":"#/components/schemas/M2"}},
 "M2":{"type":"object","properties":{"m":{"$ref":"#/components/schemas/M"},"s":{"type":"string","maxLength":3},"self":{"$ref":"#/components/schemas/M2"}}}}}}`

// Oddities: documents that are valid and whose processing cost or code path is unusual: a wide
// acyclic reference graph (every schema refers twice to the next: the number of paths doubles per
// level, so every walk over the type graph has to remember what it has seen), enum values that start
// with U+FFFD or other characters without an identifier form, custom security schemes used by
// several operations, a nullable enum listing null; a 40-level allOf chain whose members are twice the
// same reference (the cycle guard must not walk a schema once per way of reaching it).
var Oddities = []string{`{"openapi": "3.0.3", "info": {"title": "t", "version": "1"}, "paths": {"/a": {"post": {"operationId": "a", "requestBody": {"content": {"application/json": {"schema": {"$ref": "#/components/schemas/A00"}}}}, "responses": {"200": {"description": "ok"}}}}}, "components": {"schemas": {"A00": {"type": "object", "properties": {"v": {"type": "string"}, "x": {"$ref": "#/components/schemas/A01"}, "y": {"$ref": "#/components/schemas/A01"}}}, "A01": {"type": "object", "properties": {"v": {"type": "string"}, "x": {"$ref": "#/components/schemas/A02"}, "y": {"$ref": "#/components/schemas/A02"}}}, "A02": {"type": "object", "properties": {"v": {"type": "string"}, "x": {"$ref": "#/components/schemas/A03"}, "y": {"$ref": "#/components/schemas/A03"}}}, "A03": {"type": "object", "properties": {"v": {"type": "string"}, "x": {"$ref": "#/components/schemas/A04"}, "y": {"$ref": "#/components/schemas/A04"}}}, "A04": {"type": "object", "properties": {"v": {"type": "string"}, "x": {"$ref": "#/components/schemas/A05"}, "y": {"$ref": "#/components/schemas/A05"}}}, "A05": {"type": "object", "properties": {"v": {"type": "string"}, "x": {"$ref": "#/components/schemas/A06"}, "y": {"$ref": "#/components/schemas/A06"}}}, "A06": {"type": "object", "properties": {"v": {"type": "string"}, "x": {"$ref": "#/components/schemas/A07"}, "y": {"$ref": "#/components/schemas/A07"}}}, "A07": {"type": "object", "properties": {"v": {"type": "string"}, "x": {"$ref": "#/components/schemas/A08"}, "y": {"$ref": "#/components/schemas/A08"}}}, "A08": {"type": "object", "properties": {"v": {"type": "string"}, "x": {"$ref": "#/components/schemas/A09"}, "y": {"$ref": "#/components/schemas/A09"}}}, "A09": {"type": "object", "properties": {"v": {"type": "string"}, "x": {"$ref": "#/components/schemas/A10"}, "y": {"$ref": "#/components/schemas/A10"}}}, "A10": {"type": "object", "properties": {"v": {"type": "string"}, "x": {"$ref": "#/components/schemas/A11"}, "y": {"$ref": "#/components/schemas/A11"}}}, "A11": {"type": "object", "properties": {"v": {"type": "string"}, "x": {"$ref": "#/components/schemas/A12"}, "y": {"$ref": "#/components/schemas/A12"}}}, "A12": {"type": "object", "properties": {"v": {"type": "string"}, "x": {"$ref": "#/components/schemas/A13"}, "y": {"$ref": "#/components/schemas/A13"}}}, "A13": {"type": "object", "properties": {"v": {"type": "string"}, "x": {"$ref": "#/components/schemas/A14"}, "y": {"$ref": "#/components/schemas/A14"}}}, "A14": {"type": "object", "properties": {"v": {"type": "string"}, "x": {"$ref": "#/components/schemas/A15"}, "y": {"$ref": "#/components/schemas/A15"}}}, "A15": {"type": "object", "properties": {"v": {"type": "string"}, "x": {"$ref": "#/components/schemas/A16"}, "y": {"$ref": "#/components/schemas/A16"}}}, "A16": {"type": "object", "properties": {"v": {"type": "string"}, "x": {"$ref": "#/components/schemas/A17"}, "y": {"$ref": "#/components/schemas/A17"}}}, "A17": {"type": "object", "properties": {"v": {"type": "string"}, "x": {"$ref": "#/components/schemas/A18"}, "y": {"$ref": "#/components/schemas/A18"}}}, "A18": {"type": "object", "properties": {"v": {"type": "string"}, "x": {"$ref": "#/components/schemas/A19"}, "y": {"$ref": "#/components/schemas/A19"}}}, "A19": {"type": "object", "properties": {"v": {"type": "string"}, "x": {"$ref": "#/components/schemas/A20"}, "y": {"$ref": "#/components/schemas/A20"}}}, "A20": {"type": "object", "properties": {"v": {"type": "string"}, "x": {"$ref": "#/components/schemas/A21"}, "y": {"$ref": "#/components/schemas/A21"}}}, "A21": {"type": "object", "properties": {"v": {"type": "string"}, "x": {"$ref": "#/components/schemas/A22"}, "y": {"$ref": "#/components/schemas/A22"}}}, "A22": {"type": "object", "properties": {"v": {"type": "string"}, "x": {"$ref": "#/components/schemas/A23"}, "y": {"$ref": "#/components/schemas/A23"}}}, "A23": {"type": "object", "properties": {"v": {"type": "string"}, "x": {"$ref": "#/components/schemas/A24"}, "y": {"$ref": "#/components/schemas/A24"}}}, "A24": {"type": "object", "properties": {"v": {"type": "string"}, "x": {"$ref": "#/components/schemas/A25"}, "y": {"$ref": "#/components/schemas/A25"}}}, "A25": {"type": "object", "properties": {"v": {"type": "string"}, "x": {"$ref": "#/components/schemas/A26"}, "y": {"$ref": "#/components/schemas/A26"}}}, "A26": {"type": "object", "properties": {"v": {"type": "string"}, "x": {"$ref": "#/components/schemas/A27"}, "y": {"$ref": "#/components/schemas/A27"}}}, "A27": {"type": "object", "properties": {"v": {"type": "string"}, "x": {"$ref": "#/components/schemas/A28"}, "y": {"$ref": "#/components/schemas/A28"}}}, "A28": {"type": "object", "properties": {"v": {"type": "string"}, "x": {"$ref": "#/components/schemas/A29"}, "y": {"$ref": "#/components/schemas/A29"}}}, "A29": {"type": "object", "properties": {"v": {"type": "string"}, "x": {"$ref": "#/components/schemas/A30"}, "y": {"$ref": "#/components/schemas/A30"}}}, "A30": {"type": "object", "properties": {"v": {"type": "string"}, "x": {"$ref": "#/components/schemas/A31"}, "y": {"$ref": "#/components/schemas/A31"}}}, "A31": {"type": "object", "properties": {"v": {"type": "string"}, "x": {"$ref": "#/components/schemas/A32"}, "y": {"$ref": "#/components/schemas/A32"}}}, "A32": {"type": "object", "properties": {"v": {"type": "string"}, "x": {"$ref": "#/components/schemas/A33"}, "y": {"$ref": "#/components/schemas/A33"}}}, "A33": {"type": "object", "properties": {"v": {"type": "string"}, "x": {"$ref": "#/components/schemas/A34"}, "y": {"$ref": "#/components/schemas/A34"}}}, "A34": {"type": "object", "properties": {"v": {"type": "string"}, "x": {"$ref": "#/components/schemas/A35"}, "y": {"$ref": "#/components/schemas/A35"}}}, "A35": {"type": "object", "properties": {"v": {"type": "string"}, "x": {"$ref": "#/components/schemas/A36"}, "y": {"$ref": "#/components/schemas/A36"}}}, "A36": {"type": "object", "properties": {"v": {"type": "string"}, "x": {"$ref": "#/components/schemas/A37"}, "y": {"$ref": "#/components/schemas/A37"}}}, "A37": {"type": "object", "properties": {"v": {"type": "string"}, "x": {"$ref": "#/components/schemas/A38"}, "y": {"$ref": "#/components/schemas/A38"}}}, "A38": {"type": "object", "properties": {"v": {"type": "string"}, "x": {"$ref": "#/components/schemas/A39"}, "y": {"$ref": "#/components/schemas/A39"}}}, "A39": {"type": "object", "properties": {"v": {"type": "string"}}}}}}`, `{"openapi": "3.0.3", "info": {"title": "t", "version": "1"}, "paths": {"/a": {"get": {"operationId": "a", "security": [{"CO": ["read"]}], "parameters": [{"name": "e", "in": "query", "schema": {"$ref": "#/components/schemas/E"}}], "responses": {"200": {"description": "ok", "content": {"application/json": {"schema": {"$ref": "#/components/schemas/N"}}}}}}}, "/b": {"get": {"operationId": "b", "security": [{"CO": ["write"]}, {"CK": []}], "responses": {"200": {"description": "ok", "content": {"application/json": {"schema": {"$ref": "#/components/schemas/E2"}}}}}}}}, "components": {"securitySchemes": {"CO": {"type": "oauth2", "x-ogen-custom-security": true, "flows": {"clientCredentials": {"tokenUrl": "https://x/t", "scopes": {"read": "r", "write": "w"}}}}, "CK": {"type": "apiKey", "in": "header", "name": "X-K", "x-ogen-custom-security": true}}, "schemas": {"E": {"type": "string", "enum": ["�a", "b", "-1", "1"]}, "E2": {"type": "string", "enum": ["�", "é", "", "a b", "A_B", "a-b"]}, "N": {"type": "string", "nullable": true, "enum": [null, "a", "b"]}}}}`, `{"openapi": "3.0.3", "info": {"title": "t", "version": "1"}, "paths": {"/a": {"post": {"operationId": "a", "requestBody": {"content": {"application/json": {"schema": {"$ref": "#/components/schemas/S00"}}}}, "responses": {"200": {"description": "ok"}}}}}, "components": {"schemas": {"S00": {"allOf": [{"$ref": "#/components/schemas/S01"}, {"$ref": "#/components/schemas/S01"}]}, "S01": {"allOf": [{"$ref": "#/components/schemas/S02"}, {"$ref": "#/components/schemas/S02"}]}, "S02": {"allOf": [{"$ref": "#/components/schemas/S03"}, {"$ref": "#/components/schemas/S03"}]}, "S03": {"allOf": [{"$ref": "#/components/schemas/S04"}, {"$ref": "#/components/schemas/S04"}]}, "S04": {"allOf": [{"$ref": "#/components/schemas/S05"}, {"$ref": "#/components/schemas/S05"}]}, "S05": {"allOf": [{"$ref": "#/components/schemas/S06"}, {"$ref": "#/components/schemas/S06"}]}, "S06": {"allOf": [{"$ref": "#/components/schemas/S07"}, {"$ref": "#/components/schemas/S07"}]}, "S07": {"allOf": [{"$ref": "#/components/schemas/S08"}, {"$ref": "#/components/schemas/S08"}]}, "S08": {"allOf": [{"$ref": "#/components/schemas/S09"}, {"$ref": "#/components/schemas/S09"}]}, "S09": {"allOf": [{"$ref": "#/components/schemas/S10"}, {"$ref": "#/components/schemas/S10"}]}, "S10": {"allOf": [{"$ref": "#/components/schemas/S11"}, {"$ref": "#/components/schemas/S11"}]}, "S11": {"allOf": [{"$ref": "#/components/schemas/S12"}, {"$ref": "#/components/schemas/S12"}]}, "S12": {"allOf": [{"$ref": "#/components/schemas/S13"}, {"$ref": "#/components/schemas/S13"}]}, "S13": {"allOf": [{"$ref": "#/components/schemas/S14"}, {"$ref": "#/components/schemas/S14"}]}, "S14": {"allOf": [{"$ref": "#/components/schemas/S15"}, {"$ref": "#/components/schemas/S15"}]}, "S15": {"allOf": [{"$ref": "#/components/schemas/S16"}, {"$ref": "#/components/schemas/S16"}]}, "S16": {"allOf": [{"$ref": "#/components/schemas/S17"}, {"$ref": "#/components/schemas/S17"}]}, "S17": {"allOf": [{"$ref": "#/components/schemas/S18"}, {"$ref": "#/components/schemas/S18"}]}, "S18": {"allOf": [{"$ref": "#/components/schemas/S19"}, {"$ref": "#/components/schemas/S19"}]}, "S19": {"allOf": [{"$ref": "#/components/schemas/S20"}, {"$ref": "#/components/schemas/S20"}]}, "S20": {"allOf": [{"$ref": "#/components/schemas/S21"}, {"$ref": "#/components/schemas/S21"}]}, "S21": {"allOf": [{"$ref": "#/components/schemas/S22"}, {"$ref": "#/components/schemas/S22"}]}, "S22": {"allOf": [{"$ref": "#/components/schemas/S23"}, {"$ref": "#/components/schemas/S23"}]}, "S23": {"allOf": [{"$ref": "#/components/schemas/S24"}, {"$ref": "#/components/schemas/S24"}]}, "S24": {"allOf": [{"$ref": "#/components/schemas/S25"}, {"$ref": "#/components/schemas/S25"}]}, "S25": {"allOf": [{"$ref": "#/components/schemas/S26"}, {"$ref": "#/components/schemas/S26"}]}, "S26": {"allOf": [{"$ref": "#/components/schemas/S27"}, {"$ref": "#/components/schemas/S27"}]}, "S27": {"allOf": [{"$ref": "#/components/schemas/S28"}, {"$ref": "#/components/schemas/S28"}]}, "S28": {"allOf": [{"$ref": "#/components/schemas/S29"}, {"$ref": "#/components/schemas/S29"}]}, "S29": {"allOf": [{"$ref": "#/components/schemas/S30"}, {"$ref": "#/components/schemas/S30"}]}, "S30": {"allOf": [{"$ref": "#/components/schemas/S31"}, {"$ref": "#/components/schemas/S31"}]}, "S31": {"allOf": [{"$ref": "#/components/schemas/S32"}, {"$ref": "#/components/schemas/S32"}]}, "S32": {"allOf": [{"$ref": "#/components/schemas/S33"}, {"$ref": "#/components/schemas/S33"}]}, "S33": {"allOf": [{"$ref": "#/components/schemas/S34"}, {"$ref": "#/components/schemas/S34"}]}, "S34": {"allOf": [{"$ref": "#/components/schemas/S35"}, {"$ref": "#/components/schemas/S35"}]}, "S35": {"allOf": [{"$ref": "#/components/schemas/S36"}, {"$ref": "#/components/schemas/S36"}]}, "S36": {"allOf": [{"$ref": "#/components/schemas/S37"}, {"$ref": "#/components/schemas/S37"}]}, "S37": {"allOf": [{"$ref": "#/components/schemas/S38"}, {"$ref": "#/components/schemas/S38"}]}, "S38": {"allOf": [{"$ref": "#/components/schemas/S39"}, {"$ref": "#/components/schemas/S39"}]}, "S39": {"allOf": [{"$ref": "#/components/schemas/S40"}, {"$ref": "#/components/schemas/S40"}]}, "S40": {"type": "object", "properties": {"a": {"type": "string"}}}}}}`}

// RepeatsSpec: the same inline response, header set, parameter, request body and schema written out in
// several operations, with naming extensions, defaults, enums and examples inside.  A spelling with
// anchors and aliases shares one node between the repetitions, an expanded spelling does not: whatever
// compares or caches by node identity or position (the reduction of equal default responses to one
// convenient error type, type caches) must not tell the two apart.
const RepeatsSpec = `{"openapi": "3.0.3", "info": {"title": "t", "version": "1"}, "paths": {"/a": {"get": {"operationId": "op0", "parameters": [{"name": "limit", "in": "query", "schema": {"type": "integer", "minimum": 1, "maximum": 100, "default": 10}}], "responses": {"200": {"description": "ok", "headers": {"X-Total": {"schema": {"type": "integer"}}}, "content": {"application/json": {"schema": {"type": "object", "properties": {"id": {"type": "string", "default": "x"}, "tags": {"type": "array", "items": {"type": "string", "enum": ["a", "b"]}}}, "x-ogen-properties": {"id": {"name": "Ident"}}}}}}, "default": {"description": "err", "headers": {"X-Req": {"schema": {"type": "string"}}}, "content": {"application/json": {"schema": {"type": "object", "required": ["code"], "properties": {"code": {"type": "integer", "format": "int32"}, "message": {"type": "string", "x-ogen-name": "Msg"}, "details": {"type": "array", "items": {"type": "object", "properties": {"k": {"type": "string"}}, "x-ogen-properties": {"k": {"name": "Key"}}}}}, "x-ogen-properties": {"code": {"name": "ErrCode"}}}, "examples": {"e": {"value": {"code": 1, "message": "m"}}}}}}}}}, "/b": {"get": {"operationId": "op1", "parameters": [{"name": "limit", "in": "query", "schema": {"type": "integer", "minimum": 1, "maximum": 100, "default": 10}}], "responses": {"200": {"description": "ok", "headers": {"X-Total": {"schema": {"type": "integer"}}}, "content": {"application/json": {"schema": {"type": "object", "properties": {"id": {"type": "string", "default": "x"}, "tags": {"type": "array", "items": {"type": "string", "enum": ["a", "b"]}}}, "x-ogen-properties": {"id": {"name": "Ident"}}}}}}, "default": {"description": "err", "headers": {"X-Req": {"schema": {"type": "string"}}}, "content": {"application/json": {"schema": {"type": "object", "required": ["code"], "properties": {"code": {"type": "integer", "format": "int32"}, "message": {"type": "string", "x-ogen-name": "Msg"}, "details": {"type": "array", "items": {"type": "object", "properties": {"k": {"type": "string"}}, "x-ogen-properties": {"k": {"name": "Key"}}}}}, "x-ogen-properties": {"code": {"name": "ErrCode"}}}, "examples": {"e": {"value": {"code": 1, "message": "m"}}}}}}}}}, "/c": {"post": {"operationId": "op2", "parameters": [{"name": "limit", "in": "query", "schema": {"type": "integer", "minimum": 1, "maximum": 100, "default": 10}}], "responses": {"200": {"description": "ok", "headers": {"X-Total": {"schema": {"type": "integer"}}}, "content": {"application/json": {"schema": {"type": "object", "properties": {"id": {"type": "string", "default": "x"}, "tags": {"type": "array", "items": {"type": "string", "enum": ["a", "b"]}}}, "x-ogen-properties": {"id": {"name": "Ident"}}}}}}, "default": {"description": "err", "headers": {"X-Req": {"schema": {"type": "string"}}}, "content": {"application/json": {"schema": {"type": "object", "required": ["code"], "properties": {"code": {"type": "integer", "format": "int32"}, "message": {"type": "string", "x-ogen-name": "Msg"}, "details": {"type": "array", "items": {"type": "object", "properties": {"k": {"type": "string"}}, "x-ogen-properties": {"k": {"name": "Key"}}}}}, "x-ogen-properties": {"code": {"name": "ErrCode"}}}, "examples": {"e": {"value": {"code": 1, "message": "m"}}}}}}}, "requestBody": {"required": true, "content": {"application/json": {"schema": {"type": "object", "required": ["n"], "properties": {"n": {"type": "string", "minLength": 1}, "o": {"oneOf": [{"type": "string"}, {"type": "integer"}]}}}}}}}}, "/d": {"put": {"operationId": "op3", "parameters": [{"name": "limit", "in": "query", "schema": {"type": "integer", "minimum": 1, "maximum": 100, "default": 10}}], "responses": {"200": {"description": "ok", "headers": {"X-Total": {"schema": {"type": "integer"}}}, "content": {"application/json": {"schema": {"type": "object", "properties": {"id": {"type": "string", "default": "x"}, "tags": {"type": "array", "items": {"type": "string", "enum": ["a", "b"]}}}, "x-ogen-properties": {"id": {"name": "Ident"}}}}}}, "default": {"description": "err", "headers": {"X-Req": {"schema": {"type": "string"}}}, "content": {"application/json": {"schema": {"type": "object", "required": ["code"], "properties": {"code": {"type": "integer", "format": "int32"}, "message": {"type": "string", "x-ogen-name": "Msg"}, "details": {"type": "array", "items": {"type": "object", "properties": {"k": {"type": "string"}}, "x-ogen-properties": {"k": {"name": "Key"}}}}}, "x-ogen-properties": {"code": {"name": "ErrCode"}}}, "examples": {"e": {"value": {"code": 1, "message": "m"}}}}}}}, "requestBody": {"required": true, "content": {"application/json": {"schema": {"type": "object", "required": ["n"], "properties": {"n": {"type": "string", "minLength": 1}, "o": {"oneOf": [{"type": "string"}, {"type": "integer"}]}}}}}}}}}}`

// NestedCompositionsSpec: allOf / oneOf / anyOf written inside a member of another one, after and
// before plain inline members, and inside array items and map values of a component.  Base document
// for mutations that close a reference cycle from deep inside a component.
const NestedCompositionsSpec = `{"openapi": "3.0.3", "info": {"title": "t", "version": "1"}, "paths": {"/a": {"post": {"operationId": "a", "requestBody": {"content": {"application/json": {"schema": {"$ref": "#/components/schemas/Pet"}}}}, "responses": {"200": {"description": "ok", "content": {"application/json": {"schema": {"$ref": "#/components/schemas/Sum"}}}}, "default": {"description": "e", "content": {"application/json": {"schema": {"$ref": "#/components/schemas/Any"}}}}}}}, "/b": {"get": {"operationId": "b", "responses": {"200": {"description": "ok", "content": {"application/json": {"schema": {"$ref": "#/components/schemas/Deep"}}}}}}}}, "components": {"schemas": {"Base": {"type": "object", "properties": {"id": {"type": "integer"}}}, "Other": {"type": "object", "properties": {"o": {"type": "string"}}}, "Pet": {"allOf": [{"type": "object", "properties": {"a": {"type": "string"}}}, {"allOf": [{"$ref": "#/components/schemas/Base"}, {"type": "object", "properties": {"b": {"type": "boolean"}}}]}, {"$ref": "#/components/schemas/Other"}]}, "Sum": {"oneOf": [{"type": "string"}, {"oneOf": [{"$ref": "#/components/schemas/Base"}, {"type": "integer"}]}]}, "Any": {"anyOf": [{"type": "boolean"}, {"anyOf": [{"type": "string"}, {"$ref": "#/components/schemas/Other"}]}]}, "Deep": {"type": "object", "properties": {"list": {"type": "array", "items": {"allOf": [{"type": "object", "properties": {"x": {"type": "string"}}}, {"$ref": "#/components/schemas/Base"}]}}, "map": {"type": "object", "additionalProperties": {"oneOf": [{"type": "string"}, {"$ref": "#/components/schemas/Other"}]}}}}}}}`

// PathItemsSpec: parameters declared on path items - a path parameter first, then a header and a
// query parameter - in items with several operations that declare no parameters of their own, one
// that overrides and one that adds; the same item component is used by two paths and by a webhook
// (where the path parameter means nothing and is dropped), a second webhook declares such parameters
// in place.  Whatever list of parameters the operations of an item share must not be edited for one
// of them.  Two parameters take their schema from components (an array, an object): a mutation that
// closes a cycle inside such a component reaches the parameter code.
const PathItemsSpec = `{"openapi":"3.1.0","info":{"title":"t","version":"1"},
"paths":{
 "/a/{id}":{"$ref":"#/components/pathItems/Item"},
 "/b/{id}":{"$ref":"#/components/pathItems/Item"},
 "/c/{id}/{sub}":{"parameters":[{"name":"id","in":"path","required":true,"schema":{"type":"string"}},{"name":"sub","in":"path","required":true,"schema":{"type":"integer"}},{"name":"X-Trace-Id","in":"header","schema":{"type":"string"}},{"name":"q","in":"query","schema":{"type":"array","items":{"type":"string"}}}],
   "get":{"operationId":"cGet","responses":{"200":{"description":"ok"}}},
   "put":{"operationId":"cPut","responses":{"200":{"description":"ok"}}},
   "delete":{"operationId":"cDelete","responses":{"200":{"description":"ok"}}},
   "post":{"operationId":"cPost","parameters":[{"name":"q","in":"query","required":true,"schema":{"type":"integer"}}],"responses":{"200":{"description":"ok"}}},
   "patch":{"operationId":"cPatch","parameters":[{"name":"extra","in":"cookie","schema":{"type":"string"}}],"responses":{"200":{"description":"ok"}}}}},
"webhooks":{
 "shared":{"$ref":"#/components/pathItems/Item"},
 "inplace":{"parameters":[{"name":"petId","in":"path","required":true,"schema":{"type":"string"}},{"name":"X-Trace-Id","in":"header","schema":{"type":"string"}},{"name":"X-Other","in":"header","schema":{"type":"integer"}}],
   "post":{"operationId":"whPost","requestBody":{"content":{"application/json":{"schema":{"type":"object","properties":{"a":{"type":"string"}}}}}},"responses":{"200":{"description":"ok"}}},
   "put":{"operationId":"whPut","responses":{"200":{"description":"ok"}}},
   "delete":{"operationId":"whDelete","responses":{"204":{"description":"ok"}}}}},
"components":{"schemas":{"Tags":{"type":"array","items":{"type":"string","maxLength":8}},"Filter":{"type":"object","properties":{"name":{"type":"string"},"n":{"type":"integer"}}}},
 "pathItems":{"Item":{"parameters":[{"name":"id","in":"path","required":true,"schema":{"type":"string"}},{"name":"X-Trace-Id","in":"header","schema":{"type":"string"}},{"name":"limit","in":"query","schema":{"type":"integer","default":10}},{"name":"tags","in":"query","schema":{"$ref":"#/components/schemas/Tags"}},{"name":"filter","in":"query","style":"deepObject","explode":true,"schema":{"$ref":"#/components/schemas/Filter"}}],
   "get":{"responses":{"200":{"description":"ok"}}},
   "put":{"responses":{"200":{"description":"ok"}}},
   "delete":{"responses":{"204":{"description":"ok"}}},
   "post":{"parameters":[{"name":"limit","in":"query","schema":{"type":"string"}}],"responses":{"200":{"description":"ok"}}}}}}}`

// DiamondDefaults: two operations whose default responses have equal schemas under different names,
// each a chain of n objects that refer twice to the next one (2^n paths, n components).  Whatever
// compares or walks them has to remember what it has done.
func DiamondDefaults(n int) string {
	var sb strings.Builder
	sb.WriteString(`{"openapi":"3.0.3","info":{"title":"t","version":"1"},"paths":{`)
	for i, p := range []string{"A", "B"} {
		if i > 0 {
			sb.WriteString(",")
		}
		fmt.Fprintf(&sb, `"/%s":{"get":{"operationId":"op%s","responses":{"200":{"description":"ok"},"default":{"description":"error","content":{"application/json":{"schema":{"$ref":"#/components/schemas/%s00"}}}}}}}`, strings.ToLower(p), p, p)
	}
	sb.WriteString(`},"components":{"schemas":{`)
	first := true
	for _, p := range []string{"A", "B"} {
		for i := 0; i < n; i++ {
			if !first {
				sb.WriteString(",")
			}
			first = false
			if i == n-1 {
				fmt.Fprintf(&sb, `"%s%02d":{"type":"object","required":["code"],"properties":{"code":{"type":"integer"},"message":{"type":"string"}}}`, p, i)
			} else {
				fmt.Fprintf(&sb, `"%s%02d":{"type":"object","properties":{"l":{"$ref":"#/components/schemas/%s%02d"},"r":{"$ref":"#/components/schemas/%s%02d"},"v":{"type":"string"}}}`, p, i, p, i+1, p, i+1)
			}
		}
	}
	sb.WriteString(`}}}`)
	return sb.String()
}
