// Package docmodel is an independent document model with its own serializer (no YAML library on
// the output side): one tree can be spelled as JSON (compact / indented) or YAML (block / flow,
// quoting styles, comments, indentation, document marker, anchors and aliases for repeated
// subtrees). The emitter records the text span of every node, which C11 uses to judge reported
// positions. Shared by C17 (spelling independence) and C11 (single-fault mutants).
package docmodel

import (
	"encoding/json"
	"fmt"
	"regexp"
	"strings"

	"github.com/go-faster/yaml"
)

type Node struct {
	Kind  byte // 'm' mapping, 's' sequence, 'v' scalar
	Keys  []string
	Vals  []*Node
	Tag   string // scalars: str, int, float, bool, null
	Value string

	// filled by Emit: 1-based line/column of the first and last character of the value, and of the key
	SL, SC, EL, EC int
	KL, KC         int
}

// FromYAML builds the model from a document parsed by go-faster/yaml (input side only).
func FromYAML(n *yaml.Node) *Node {
	switch n.Kind {
	case yaml.DocumentNode:
		return FromYAML(n.Content[0])
	case yaml.AliasNode:
		return FromYAML(n.Alias)
	case yaml.MappingNode:
		out := &Node{Kind: 'm'}
		for i := 0; i+1 < len(n.Content); i += 2 {
			out.Keys = append(out.Keys, n.Content[i].Value)
			out.Vals = append(out.Vals, FromYAML(n.Content[i+1]))
		}
		return out
	case yaml.SequenceNode:
		out := &Node{Kind: 's'}
		for _, c := range n.Content {
			out.Vals = append(out.Vals, FromYAML(c))
		}
		return out
	}
	t := strings.TrimPrefix(n.ShortTag(), "!!")
	return &Node{Kind: 'v', Tag: t, Value: n.Value}
}

func Parse(data []byte) (*Node, error) {
	var root yaml.Node
	if err := yaml.Unmarshal(data, &root); err != nil {
		return nil, err
	}
	if len(root.Content) == 0 {
		return nil, fmt.Errorf("empty document")
	}
	return FromYAML(&root), nil
}

// FromAny builds the model from encoding/json style values (map[string]any with sorted keys, []any, scalars).
func FromAny(v any) *Node {
	switch x := v.(type) {
	case map[string]any:
		n := &Node{Kind: 'm'}
		keys := make([]string, 0, len(x))
		for k := range x {
			keys = append(keys, k)
		}
		sortStrings(keys)
		for _, k := range keys {
			n.Keys = append(n.Keys, k)
			n.Vals = append(n.Vals, FromAny(x[k]))
		}
		return n
	case []any:
		n := &Node{Kind: 's'}
		for _, e := range x {
			n.Vals = append(n.Vals, FromAny(e))
		}
		return n
	case []string:
		n := &Node{Kind: 's'}
		for _, e := range x {
			n.Vals = append(n.Vals, &Node{Kind: 'v', Tag: "str", Value: e})
		}
		return n
	case string:
		return &Node{Kind: 'v', Tag: "str", Value: x}
	case bool:
		return &Node{Kind: 'v', Tag: "bool", Value: fmt.Sprint(x)}
	case nil:
		return &Node{Kind: 'v', Tag: "null", Value: "null"}
	case int:
		return &Node{Kind: 'v', Tag: "int", Value: fmt.Sprint(x)}
	case float64:
		b, _ := json.Marshal(x)
		t := "float"
		if !strings.ContainsAny(string(b), ".eE") {
			t = "int"
		}
		return &Node{Kind: 'v', Tag: t, Value: string(b)}
	case json.Number:
		t := "float"
		if !strings.ContainsAny(string(x), ".eE") {
			t = "int"
		}
		return &Node{Kind: 'v', Tag: t, Value: string(x)}
	}
	b, _ := json.Marshal(v)
	var back any
	_ = json.Unmarshal(b, &back)
	return FromAny(back)
}

func sortStrings(s []string) {
	for i := 1; i < len(s); i++ {
		for j := i; j > 0 && s[j] < s[j-1]; j-- {
			s[j], s[j-1] = s[j-1], s[j]
		}
	}
}

func (n *Node) Clone() *Node {
	c := *n
	c.Keys = append([]string{}, n.Keys...)
	c.Vals = make([]*Node, len(n.Vals))
	for i, v := range n.Vals {
		c.Vals[i] = v.Clone()
	}
	return &c
}

func (n *Node) Count() int {
	c := 1
	for _, v := range n.Vals {
		c += v.Count()
	}
	return c
}

// Site addresses one child slot of the tree.
type Site struct {
	Parent *Node
	Idx    int
	Path   string // JSON-pointer-like path of the child
}

func Sites(n *Node, path string, out *[]Site) {
	for i, v := range n.Vals {
		p := path
		if n.Kind == 'm' {
			p += "/" + strings.ReplaceAll(strings.ReplaceAll(n.Keys[i], "~", "~0"), "/", "~1")
		} else {
			p += fmt.Sprintf("/%d", i)
		}
		*out = append(*out, Site{n, i, p})
		Sites(v, p, out)
	}
}

// ---------- spelling ----------

var plainSafe = regexp.MustCompile(`^[A-Za-z_][A-Za-z0-9_./-]*$`)

// words whose type depends on the YAML version: always quoted in the main runs
var yaml11words = map[string]bool{"y": true, "n": true, "yes": true, "no": true, "on": true, "off": true, "true": true, "false": true, "null": true, "nan": true, "inf": true, "~": true}

type Style struct {
	Format   string // json, jsonind, block, flow
	Quote    string // plain, single, double
	Comments bool
	Indent   int
	KeyQuote bool
	Marker   bool
	Anchors  bool // repeated composite subtrees as &anchor / *alias (block style)
	// PlainYAML11: spell YAML-1.1-only words (y, yes, on, ...) plain as well (known-finding sub-run)
	PlainYAML11 bool
	// PlainNumKeys: mapping keys that look like numbers, booleans, null or dates (200, 1e3, true,
	// 2020-01-01) are written plain, as OpenAPI documents usually spell response codes; the key node
	// then carries a non-string tag while its text is the member name
	PlainNumKeys bool
	// BlockScalars: strings containing line breaks are written as literal block scalars (| |- |+),
	// single lines ending in a line break also as folded ones (>) when Folded is set
	BlockScalars bool
	Folded       bool
	// ScalarAnchors (with Anchors): repeated string values are anchored and aliased as well
	ScalarAnchors bool
	// SmallAnchors (with Anchors): one-member subtrees ({type: string}) are anchored and aliased too,
	// so that nearly every schema position of a document is reached through an alias somewhere
	SmallAnchors bool
}

var numLikeKey = regexp.MustCompile(`^([0-9][0-9A-Za-z_.+-]*|true|false|null|True|NULL)$`)

func (st Style) String() string {
	return fmt.Sprintf("%s/quote=%s/comments=%v/indent=%d/keyquote=%v/marker=%v/anchors=%v/plainnumkeys=%v", st.Format, st.Quote, st.Comments, st.Indent, st.KeyQuote, st.Marker, st.Anchors, st.PlainNumKeys) + fmt.Sprintf("/blockscalars=%v/folded=%v/scalaranchors=%v/smallanchors=%v", st.BlockScalars, st.Folded, st.ScalarAnchors, st.SmallAnchors)
}

func (st Style) IsJSON() bool { return st.Format == "json" || st.Format == "jsonind" }

func jsonStr(s string) string { b, _ := json.Marshal(s); return string(b) }

func (st Style) str(s string, isKey bool) string {
	q := st.Quote
	if isKey && !st.KeyQuote {
		q = "plain"
	}
	if isKey && st.KeyQuote {
		q = "double"
	}
	if isKey && st.PlainNumKeys && !st.IsJSON() && numLikeKey.MatchString(s) {
		return s
	}
	if q == "plain" && plainSafe.MatchString(s) {
		lw := strings.ToLower(s)
		if !yaml11words[lw] || (st.PlainYAML11 && lw != "true" && lw != "false" && lw != "null" && lw != "nan" && lw != "inf" && lw != "~") {
			return s
		}
	}
	if q == "single" && !strings.ContainsAny(s, "\n\r\t\\\x00") && strings.ToValidUTF8(s, "") == s {
		ok := true
		for _, r := range s {
			if r < 0x20 || r == 0x7f || (r >= 0x80 && r < 0xa0) || r == 0x2028 || r == 0x2029 || r == 0xfeff {
				ok = false
			}
		}
		if ok {
			return "'" + strings.ReplaceAll(s, "'", "''") + "'"
		}
	}
	return jsonStr(s)
}

// blockScalar returns the header and the content lines of a literal (or folded) block scalar for s,
// or ok=false when s cannot be written that way without an indentation indicator.
func (st Style) blockScalar(s string) (header string, lines []string, ok bool) {
	if !st.BlockScalars || !strings.Contains(s, "\n") {
		return "", nil, false
	}
	for _, r := range s {
		if r != '\n' && (r < 0x20 || r == 0x7f || (r >= 0x80 && r < 0xa0) || r == 0x2028 || r == 0x2029 || r == 0xfeff) {
			return "", nil, false
		}
	}
	body := strings.TrimRight(s, "\n")
	trail := len(s) - len(body)
	if body == "" {
		return "", nil, false
	}
	lines = strings.Split(body, "\n")
	for _, l := range lines {
		if l != "" && (l[0] == ' ' || l[0] == '\t' || l[len(l)-1] == ' ' || l[len(l)-1] == '\t') {
			return "", nil, false
		}
	}
	if lines[0] == "" {
		return "", nil, false
	}
	ind := "|"
	if st.Folded && len(lines) == 1 {
		ind = ">"
	}
	switch {
	case trail == 0:
		header = ind + "-"
	case trail == 1:
		header = ind
	default:
		header = ind + "+"
		for i := 1; i < trail; i++ {
			lines = append(lines, "")
		}
	}
	return header, lines, true
}

func (st Style) scalar(n *Node) string {
	switch n.Tag {
	case "str":
		return st.str(n.Value, false)
	case "null":
		return "null"
	case "bool":
		return strings.ToLower(n.Value)
	default:
		return n.Value
	}
}

type writer struct {
	sb        strings.Builder
	line, col int
}

func (w *writer) write(s string) {
	w.sb.WriteString(s)
	for _, r := range s {
		if r == '\n' {
			w.line++
			w.col = 1
		} else {
			w.col++
		}
	}
}

func (w *writer) start(n *Node) { n.SL, n.SC = w.line, w.col }
func (w *writer) end(n *Node) {
	n.EL, n.EC = w.line, w.col-1
	if n.EC < 1 {
		n.EC = 1
	}
}

func (st Style) emitJSON(n *Node, w *writer, ind string, pretty bool) {
	nl, sp := "", ""
	if pretty {
		nl, sp = "\n", " "
	}
	w.start(n)
	defer w.end(n)
	switch n.Kind {
	case 'm':
		if len(n.Keys) == 0 {
			w.write("{}")
			return
		}
		w.write("{" + nl)
		for i, k := range n.Keys {
			if pretty {
				w.write(ind + "  ")
			}
			n.Vals[i].KL, n.Vals[i].KC = w.line, w.col
			w.write(jsonStr(k) + ":" + sp)
			st.emitJSON(n.Vals[i], w, ind+"  ", pretty)
			if i+1 < len(n.Keys) {
				w.write(",")
			}
			w.write(nl)
		}
		if pretty {
			w.write(ind)
		}
		w.write("}")
	case 's':
		if len(n.Vals) == 0 {
			w.write("[]")
			return
		}
		w.write("[" + nl)
		for i, v := range n.Vals {
			if pretty {
				w.write(ind + "  ")
			}
			st.emitJSON(v, w, ind+"  ", pretty)
			if i+1 < len(n.Vals) {
				w.write(",")
			}
			w.write(nl)
		}
		if pretty {
			w.write(ind)
		}
		w.write("]")
	default:
		if n.Tag == "str" {
			w.write(jsonStr(n.Value))
		} else {
			w.write(st.scalar(n))
		}
	}
}

func (st Style) emitFlow(n *Node, w *writer) {
	w.start(n)
	defer w.end(n)
	switch n.Kind {
	case 'm':
		w.write("{")
		for i, k := range n.Keys {
			if i > 0 {
				w.write(", ")
			}
			n.Vals[i].KL, n.Vals[i].KC = w.line, w.col
			w.write(st.str(k, true) + ": ")
			st.emitFlow(n.Vals[i], w)
		}
		w.write("}")
	case 's':
		w.write("[")
		for i, v := range n.Vals {
			if i > 0 {
				w.write(", ")
			}
			st.emitFlow(v, w)
		}
		w.write("]")
	default:
		s := st.scalar(n)
		if n.Tag == "str" && !strings.HasPrefix(s, "\"") && !strings.HasPrefix(s, "'") && strings.ContainsAny(s, ",[]{}") {
			s = jsonStr(n.Value)
		}
		w.write(s)
	}
}

type anchors struct {
	min   int // least number of members of a subtree that is anchored
	count map[string]int
	name  map[string]string
	next  int
}

func canon(n *Node, sb *strings.Builder) {
	switch n.Kind {
	case 'm':
		sb.WriteString("{")
		for i, k := range n.Keys {
			sb.WriteString(jsonStr(k) + ":")
			canon(n.Vals[i], sb)
			sb.WriteString(",")
		}
		sb.WriteString("}")
	case 's':
		sb.WriteString("[")
		for _, v := range n.Vals {
			canon(v, sb)
			sb.WriteString(",")
		}
		sb.WriteString("]")
	default:
		sb.WriteString(n.Tag + ":" + jsonStr(n.Value))
	}
}

func countSubtrees(n *Node, a *anchors) {
	if n.Kind == 'v' && n.Tag == "str" && len(n.Value) >= 1 && len(n.Value) < 40 && !strings.ContainsAny(n.Value, "\n\r") {
		a.count["scalar:"+n.Value]++
	}
	if n.Kind != 'v' && len(n.Vals) >= a.min {
		var sb strings.Builder
		canon(n, &sb)
		a.count[sb.String()]++
	}
	for _, v := range n.Vals {
		countSubtrees(v, a)
	}
}

func (st Style) emitBlock(n *Node, w *writer, ind string, inline bool, a *anchors) {
	pad := strings.Repeat(" ", st.Indent)
	// anchors / aliases for repeated composite subtrees
	if a != nil && n.Kind != 'v' && len(n.Vals) >= a.min {
		var sb strings.Builder
		canon(n, &sb)
		key := sb.String()
		if a.count[key] >= 2 {
			if name, seen := a.name[key]; seen {
				w.write(" ")
				w.start(n)
				w.write("*" + name)
				w.end(n)
				w.write("\n")
				return
			}
			a.next++
			a.name[key] = fmt.Sprintf("a%d", a.next)
			w.write(" &" + a.name[key])
		}
	}
	switch n.Kind {
	case 'm':
		if len(n.Keys) == 0 {
			w.write(" ")
			w.start(n)
			w.write("{}")
			w.end(n)
			w.write("\n")
			return
		}
		if inline {
			w.write("\n")
		}
		first := true
		for i, k := range n.Keys {
			if st.Comments && i%3 == 1 {
				w.write("\n" + ind + "# comment about " + strings.ReplaceAll(k, "\n", " ") + "\n")
			}
			w.write(ind)
			if first {
				w.start(n)
				first = false
			}
			v := n.Vals[i]
			v.KL, v.KC = w.line, w.col
			w.write(st.str(k, true) + ":")
			if hdr, lines, ok := st.blockScalar(v.Value); ok && v.Kind == 'v' && v.Tag == "str" {
				w.write(" ")
				w.start(v)
				w.write(hdr + "\n")
				for _, l := range lines {
					if l == "" {
						w.write("\n")
					} else {
						w.write(ind + pad + l + "\n")
					}
				}
				v.EL, v.EC = w.line-1, 1<<20
			} else if txt, ok := st.anchoredScalar(v, a); ok {
				w.write(" ")
				w.start(v)
				w.write(txt)
				w.end(v)
				w.write("\n")
			} else if v.Kind == 'v' {
				w.write(" ")
				w.start(v)
				w.write(st.scalar(v))
				w.end(v)
				if st.Comments && i%4 == 0 {
					w.write(" # trailing")
				}
				w.write("\n")
			} else {
				st.emitBlock(v, w, ind+pad, true, a)
			}
		}
		n.EL, n.EC = w.line-1, 1<<20
	case 's':
		if len(n.Vals) == 0 {
			w.write(" ")
			w.start(n)
			w.write("[]")
			w.end(n)
			w.write("\n")
			return
		}
		if inline {
			w.write("\n")
		}
		first := true
		for _, v := range n.Vals {
			w.write(ind)
			if first {
				w.start(n)
				first = false
			}
			if hdr, lines, ok := st.blockScalar(v.Value); ok && v.Kind == 'v' && v.Tag == "str" {
				w.write("- ")
				w.start(v)
				w.write(hdr + "\n")
				for _, l := range lines {
					if l == "" {
						w.write("\n")
					} else {
						w.write(ind + "  " + l + "\n")
					}
				}
				v.EL, v.EC = w.line-1, 1<<20
			} else if txt, ok := st.anchoredScalar(v, a); ok {
				w.write("- ")
				w.start(v)
				w.write(txt)
				w.end(v)
				w.write("\n")
			} else if v.Kind == 'v' {
				w.write("- ")
				w.start(v)
				w.write(st.scalar(v))
				w.end(v)
				w.write("\n")
			} else {
				w.write("-")
				st.emitBlock(v, w, ind+pad, true, a)
			}
		}
		n.EL, n.EC = w.line-1, 1<<20
	default:
		w.write(ind)
		w.start(n)
		w.write(st.scalar(n))
		w.end(n)
		w.write("\n")
	}
}

// anchoredScalar spells a repeated string scalar as &sN value on its first occurrence and as *sN later.
func (st Style) anchoredScalar(v *Node, a *anchors) (string, bool) {
	if a == nil || !st.ScalarAnchors || v.Kind != 'v' || v.Tag != "str" {
		return "", false
	}
	key := "scalar:" + v.Value
	if a.count[key] < 2 {
		return "", false
	}
	if name, seen := a.name[key]; seen {
		return "*" + name, true
	}
	a.next++
	a.name[key] = fmt.Sprintf("s%d", a.next)
	return "&" + a.name[key] + " " + st.scalar(v), true
}

// Emit spells the tree and records node spans (in the tree itself).
func (st Style) Emit(n *Node) string {
	w := &writer{line: 1, col: 1}
	if st.Marker && !st.IsJSON() {
		w.write("---\n")
	}
	switch st.Format {
	case "json":
		st.emitJSON(n, w, "", false)
	case "jsonind":
		st.emitJSON(n, w, "", true)
		w.write("\n")
	case "flow":
		st.emitFlow(n, w)
		w.write("\n")
	default:
		var a *anchors
		if st.Anchors {
			a = &anchors{min: 2, count: map[string]int{}, name: map[string]string{}}
			if st.SmallAnchors {
				a.min = 1
			}
			countSubtrees(n, a)
		}
		if st.Indent == 0 {
			st.Indent = 2
		}
		st.emitBlock(n, w, "", false, a)
	}
	return w.sb.String()
}

// AllStyles is the complete product of spelling toggles (58 with anchors variants).
func AllStyles() []Style {
	var styles []Style
	for _, f := range []string{"json", "jsonind"} {
		styles = append(styles, Style{Format: f})
	}
	for _, f := range []string{"block", "flow"} {
		for _, q := range []string{"plain", "single", "double"} {
			for _, kq := range []bool{false, true} {
				if f == "flow" {
					styles = append(styles, Style{Format: f, Quote: q, KeyQuote: kq})
					continue
				}
				for _, c := range []bool{false, true} {
					for _, ind := range []int{2, 4} {
						for _, m := range []bool{false, true} {
							styles = append(styles, Style{Format: f, Quote: q, Comments: c, Indent: ind, KeyQuote: kq, Marker: m})
						}
					}
				}
			}
		}
	}
	// repeated string values anchored and aliased
	styles = append(styles, Style{Format: "block", Quote: "plain", Indent: 2, Anchors: true, ScalarAnchors: true}, Style{Format: "block", Quote: "double", Indent: 4, Anchors: true, ScalarAnchors: true, KeyQuote: true})
	// one-member subtrees anchored and aliased
	styles = append(styles, Style{Format: "block", Quote: "plain", Indent: 2, Anchors: true, SmallAnchors: true}, Style{Format: "block", Quote: "single", Indent: 4, Anchors: true, SmallAnchors: true, ScalarAnchors: true, Comments: true})
	// strings with line breaks as block scalars
	styles = append(styles, Style{Format: "block", Quote: "plain", Indent: 2, BlockScalars: true}, Style{Format: "block", Quote: "double", Indent: 4, BlockScalars: true, Folded: true, KeyQuote: true},
		Style{Format: "block", Quote: "single", Indent: 2, BlockScalars: true, Folded: true, Comments: true, Marker: true})
	// numeric-looking keys written plain
	styles = append(styles, Style{Format: "block", Quote: "plain", Indent: 2, PlainNumKeys: true}, Style{Format: "block", Quote: "double", Indent: 4, Comments: true, PlainNumKeys: true},
		Style{Format: "flow", Quote: "plain", PlainNumKeys: true}, Style{Format: "block", Quote: "single", Indent: 2, Anchors: true, PlainNumKeys: true})
	// anchors/aliases for repeated subtrees
	for _, q := range []string{"plain", "double"} {
		for _, ind := range []int{2, 4} {
			styles = append(styles, Style{Format: "block", Quote: q, Indent: ind, Anchors: true}, Style{Format: "block", Quote: q, Indent: ind, Anchors: true, Comments: true, Marker: true, KeyQuote: true})
		}
	}
	return styles
}

// FewStyles: one representative per axis (for the invalid half).
func FewStyles() []Style {
	return []Style{
		{Format: "json"}, {Format: "jsonind"},
		{Format: "block", Quote: "plain", Indent: 2}, {Format: "block", Quote: "double", Indent: 4, Comments: true, KeyQuote: true, Marker: true},
		{Format: "block", Quote: "single", Indent: 2, Comments: true}, {Format: "flow", Quote: "plain"}, {Format: "flow", Quote: "double", KeyQuote: true},
		{Format: "block", Quote: "plain", Indent: 2, Anchors: true}, {Format: "block", Quote: "plain", Indent: 2, PlainNumKeys: true},
		{Format: "block", Quote: "plain", Indent: 2, BlockScalars: true, Folded: true},
	}
}

// ---------- single-fault mutations ----------

type Mutation struct {
	Name string
	// Apply mutates the child slot; returns false if not applicable there.
	Apply func(s Site) bool
	// InPlace: the mutated node still exists at the same place (position attribution is unambiguous)
	InPlace bool
}

func repl(n *Node) func(Site) bool {
	return func(s Site) bool { s.Parent.Vals[s.Idx] = n.Clone(); return true }
}

func Mutations(thorough bool) []Mutation {
	ms := []Mutation{
		{"retype-int", repl(&Node{Kind: 'v', Tag: "int", Value: "5"}), true},
		{"retype-string", repl(&Node{Kind: 'v', Tag: "str", Value: "zzz"}), true},
		{"retype-bool", repl(&Node{Kind: 'v', Tag: "bool", Value: "true"}), true},
		{"null", repl(&Node{Kind: 'v', Tag: "null", Value: "null"}), true},
		{"empty-map", repl(&Node{Kind: 'm'}), true},
		{"empty-seq", repl(&Node{Kind: 's'}), true},
		{"empty-string", repl(&Node{Kind: 'v', Tag: "str", Value: ""}), true},
		{"delete", func(s Site) bool {
			if s.Parent.Kind == 'm' {
				s.Parent.Keys = append(s.Parent.Keys[:s.Idx:s.Idx], s.Parent.Keys[s.Idx+1:]...)
			}
			s.Parent.Vals = append(s.Parent.Vals[:s.Idx:s.Idx], s.Parent.Vals[s.Idx+1:]...)
			return true
		}, false},
		{"negative-number", repl(&Node{Kind: 'v', Tag: "int", Value: "-1"}), true},
		{"huge-number", repl(&Node{Kind: 'v', Tag: "int", Value: "18446744073709551616"}), true},
		{"float-1e400", repl(&Node{Kind: 'v', Tag: "float", Value: "1e400"}), true},
		{"fraction", repl(&Node{Kind: 'v', Tag: "float", Value: "1.5"}), true},
		{"dangling-ref", repl(&Node{Kind: 'm', Keys: []string{"$ref"}, Vals: []*Node{{Kind: 'v', Tag: "str", Value: "#/components/schemas/DoesNotExist"}}}), true},
		{"self-ref", func(s Site) bool {
			s.Parent.Vals[s.Idx] = &Node{Kind: 'm', Keys: []string{"$ref"}, Vals: []*Node{{Kind: 'v', Tag: "str", Value: "#" + s.Path}}}
			return true
		}, true},
		{"ref-to-parent", func(s Site) bool {
			i := strings.LastIndex(s.Path, "/")
			if i <= 0 {
				return false
			}
			s.Parent.Vals[s.Idx] = &Node{Kind: 'm', Keys: []string{"$ref"}, Vals: []*Node{{Kind: 'v', Tag: "str", Value: "#" + s.Path[:i]}}}
			return true
		}, true},
		{"ref-to-enclosing-component", func(s Site) bool {
			// a cycle back to the component the node lives in, from however deep inside it
			seg := strings.Split(s.Path, "/")
			if len(seg) < 5 || seg[1] != "components" {
				return false
			}
			s.Parent.Vals[s.Idx] = &Node{Kind: 'm', Keys: []string{"$ref"}, Vals: []*Node{{Kind: 'v', Tag: "str", Value: "#" + strings.Join(seg[:4], "/")}}}
			return true
		}, true},
		{"duplicate-sibling-key", func(s Site) bool {
			if s.Parent.Kind != 'm' {
				return false
			}
			s.Parent.Keys = append(s.Parent.Keys, s.Parent.Keys[s.Idx])
			s.Parent.Vals = append(s.Parent.Vals, s.Parent.Vals[s.Idx].Clone())
			return true
		}, false},
		{"deep-nesting-1000", func(s Site) bool {
			n := &Node{Kind: 'v', Tag: "str", Value: "x"}
			for i := 0; i < 1000; i++ {
				n = &Node{Kind: 's', Vals: []*Node{n}}
			}
			s.Parent.Vals[s.Idx] = n
			return true
		}, true},
	}
	return ms
}

// PathKeyMutations break percent-escapes in path keys ("/a" -> "/a%", ...).
func PathKeyMutations(doc *Node) []*Node {
	var out []*Node
	for i, k := range doc.Keys {
		if k != "paths" {
			continue
		}
		for j := range doc.Vals[i].Keys {
			for _, suffix := range []string{"%", "%z", "%61%", "%2", "%%", "%zz%61"} {
				d := doc.Clone()
				d.Vals[i].Keys[j] = d.Vals[i].Keys[j] + suffix
				out = append(out, d)
			}
		}
	}
	return out
}
