// Package vf is the common verdict / evidence / known-findings layer (DESIGN.md E6).
package vf

import (
	"encoding/json"
	"flag"
	"fmt"
	"os"
	"path/filepath"
	"regexp"
	"sort"
	"strconv"
	"strings"
	"sync"
	"time"
)

// Run is one invocation of one check.
type Run struct {
	ID     string
	Tier   string
	Seed   int
	Level  string
	Replay string // path of a replay artefact, "" for a normal run
	Home   string // /verif
	Out    string // where evidence/ and replays/ are written (VERIF_OUT, default Home)
	Repo   string // /repo (or $VERIF_REPO)

	start    time.Time
	deadline time.Time

	mu         sync.Mutex
	evals      int64
	nontrivial map[string]struct{}
	ntOverflow int64
	samples    []any
	classes    map[string]*class
	order      []string
	extra      map[string]any
	assume     []string
	notExh     []string
	known      []Finding
	knownHit   map[int]int
}

type class struct {
	Attrs  map[string]string
	Detail any
	Count  int64
	size   int
	known  int // index into known, -1 if none
}

// Finding is one entry of /verif/known_findings.json.
type Finding struct {
	Property string            `json:"property"`
	Name     string            `json:"name"`
	What     string            `json:"what"`
	Match    map[string]string `json:"match"`
}

type findingsFile struct {
	Findings []Finding `json:"findings"`
	Fixed    []string  `json:"fixed"`
}

// Start parses the command line (--tier, --replay) and loads the known findings.
func Start(id, level string) *Run {
	r := &Run{ID: id, Level: level, start: time.Now(),
		nontrivial: map[string]struct{}{}, classes: map[string]*class{}, extra: map[string]any{}, knownHit: map[int]int{}}
	fs := flag.NewFlagSet(id, flag.ExitOnError)
	fs.StringVar(&r.Tier, "tier", "", "quick|thorough")
	fs.StringVar(&r.Replay, "replay", "", "replay artefact")
	_ = fs.Parse(os.Args[1:])
	if r.Tier == "" {
		r.Tier = os.Getenv("VERIF_TIER")
	}
	if r.Tier != "thorough" {
		r.Tier = "quick"
	}
	r.Seed, _ = strconv.Atoi(os.Getenv("VERIF_SEED"))
	r.Home = os.Getenv("VERIF_HOME")
	if r.Home == "" {
		r.Home = "/verif"
	}
	// VERIF_OUT redirects evidence and replay artefacts (used when a check is pointed at another tree
	// with VERIF_REPO, so that the committed evidence of /repo is not overwritten).
	r.Out = os.Getenv("VERIF_OUT")
	if r.Out == "" {
		r.Out = r.Home
	}
	r.Repo = os.Getenv("VERIF_REPO")
	if r.Repo == "" {
		r.Repo = "/repo"
	}
	if r.Replay == "" {
		_ = os.RemoveAll(filepath.Join(r.Out, "replays", id))
	}
	var ff findingsFile
	if b, err := os.ReadFile(filepath.Join(r.Home, "known_findings.json")); err == nil {
		if err := json.Unmarshal(b, &ff); err != nil {
			fmt.Fprintf(os.Stderr, "known_findings.json: %v\n", err)
			os.Exit(2)
		}
	}
	for _, f := range ff.Findings {
		if f.Property == id {
			r.known = append(r.known, f)
		}
	}
	return r
}

func (r *Run) Thorough() bool { return r.Tier == "thorough" }

// SetDeadline sets an internal wall-clock budget; Expired() then tells enumerators to stop
// (the run is reported exhaustive:false and still exits 0 — a deadline is never an oracle).
func (r *Run) SetDeadline(d time.Duration) { r.deadline = r.start.Add(d) }
func (r *Run) Expired() bool {
	return !r.deadline.IsZero() && time.Now().After(r.deadline)
}

// NotExhaustive records why the stated space was not completely enumerated.
func (r *Run) NotExhaustive(why string) {
	r.mu.Lock()
	r.notExh = append(r.notExh, why)
	r.mu.Unlock()
}

func (r *Run) Eval(n int64) {
	r.mu.Lock()
	r.evals += n
	r.mu.Unlock()
}

// Nontrivial counts a distinct non-trivial case (by key). Beyond 4M distinct keys the set
// is not kept and callers should use NontrivialN with their own distinctness argument.
func (r *Run) Nontrivial(key string) {
	r.mu.Lock()
	r.nontrivial[key] = struct{}{}
	r.mu.Unlock()
}

// NontrivialN adds n cases that the caller guarantees to be distinct and non-trivial
// (e.g. distinct strings produced by an odometer).
func (r *Run) NontrivialN(n int64) {
	r.mu.Lock()
	r.ntOverflow += n
	r.mu.Unlock()
}

func (r *Run) Sample(v any) {
	r.mu.Lock()
	if len(r.samples) < 12 {
		r.samples = append(r.samples, v)
	}
	r.mu.Unlock()
}

func (r *Run) Set(k string, v any) {
	r.mu.Lock()
	r.extra[k] = v
	r.mu.Unlock()
}

func (r *Run) Add(k string, n int64) {
	r.mu.Lock()
	cur, _ := r.extra[k].(int64)
	r.extra[k] = cur + n
	r.mu.Unlock()
}

func (r *Run) Assume(s ...string) { r.assume = append(r.assume, s...) }

// Violation reports one failing case. attrs identify the case for known-finding matching and
// must contain "class" (violations are grouped by class + the known finding they match; the
// smallest case of each group, by size, is kept as the replay artefact).
func (r *Run) Violation(attrs map[string]string, size int, detail any) {
	r.ViolationN(attrs, size, detail, 1)
}

// ViolationN reports n failing cases that share attrs (a group pre-aggregated by a driver).
func (r *Run) ViolationN(attrs map[string]string, size int, detail any, n int64) {
	r.mu.Lock()
	defer r.mu.Unlock()
	k := -1
	for i, f := range r.known {
		if matches(f.Match, attrs) {
			k = i
			break
		}
	}
	if f := os.Getenv("VERIF_DUMP_VIOLATIONS"); f != "" && k < 0 {
		// debugging aid: every unlisted failing case, one JSON line each
		if fh, err := os.OpenFile(f, os.O_APPEND|os.O_CREATE|os.O_WRONLY, 0o644); err == nil {
			b, _ := json.Marshal(map[string]any{"attrs": attrs, "detail": detail})
			if len(b) > 1500 {
				b = append(b[:1500], []byte("...")...)
			}
			fh.Write(append(b, '\n'))
			fh.Close()
		}
	}
	key := attrs["class"]
	if k >= 0 {
		key = "known:" + r.known[k].Name
		r.knownHit[k] += int(n)
	}
	c := r.classes[key]
	if c == nil {
		c = &class{known: k, size: 1 << 30}
		r.classes[key] = c
		r.order = append(r.order, key)
	}
	c.Count += n
	if size < c.size || (size == c.size && fmt.Sprint(attrs) < fmt.Sprint(c.Attrs)) {
		c.size = size
		c.Attrs = attrs
		c.Detail = detail
	}
}

var (
	listMu    sync.Mutex
	listCache = map[string]map[string]bool{}
)

func inList(file, v string) bool {
	listMu.Lock()
	defer listMu.Unlock()
	set, ok := listCache[file]
	if !ok {
		set = map[string]bool{}
		home := os.Getenv("VERIF_HOME")
		if home == "" {
			home = "/verif"
		}
		var items []string
		if b, err := os.ReadFile(filepath.Join(home, file)); err == nil && json.Unmarshal(b, &items) == nil {
			for _, it := range items {
				set[it] = true
			}
		} else {
			fmt.Fprintf(os.Stderr, "known finding list %s cannot be read\n", file)
			os.Exit(2)
		}
		listCache[file] = set
	}
	return set[v]
}

func matches(m, attrs map[string]string) bool {
	for k, want := range m {
		got, ok := attrs[k]
		if !ok {
			return false
		}
		if strings.HasPrefix(want, "list:") {
			// the attribute must be a member of the JSON string array in the named file under /verif
			// (a committed enumeration of the specific failing cases of one finding)
			if !inList(want[5:], got) {
				return false
			}
		} else if strings.HasPrefix(want, "re:") {
			re, err := regexp.Compile("^(?:" + want[3:] + ")$")
			if err != nil || !re.MatchString(got) {
				return false
			}
		} else if got != want {
			return false
		}
	}
	return true
}

// ReplayCase loads the "case" member of a replay artefact into v.
func (r *Run) ReplayCase(v any) {
	b, err := os.ReadFile(r.Replay)
	if err != nil {
		fmt.Fprintln(os.Stderr, err)
		os.Exit(2)
	}
	var f struct {
		Case json.RawMessage `json:"case"`
	}
	if err := json.Unmarshal(b, &f); err != nil {
		fmt.Fprintln(os.Stderr, err)
		os.Exit(2)
	}
	if err := json.Unmarshal(f.Case, v); err != nil {
		fmt.Fprintln(os.Stderr, err)
		os.Exit(2)
	}
}

// Finish writes the evidence file and the replay artefacts, prints the verdict lines and exits.
func (r *Run) Finish(rule string) {
	wall := time.Since(r.start).Seconds()
	viol := 0
	sort.Strings(r.order)
	var lines []string
	_ = os.MkdirAll(filepath.Join(r.Out, "replays", r.ID), 0o755)
	for _, key := range r.order {
		c := r.classes[key]
		if c.known >= 0 {
			f := r.known[c.known]
			lines = append(lines, fmt.Sprintf("KNOWN-FINDING: property=%s %s: %s (cases=%d)", r.ID, f.Name, f.What, c.Count))
			continue
		}
		viol++
		name := sanitize(key) + ".json"
		p := filepath.Join(r.Out, "replays", r.ID, name)
		if r.Replay != "" {
			lines = append(lines, fmt.Sprintf("VIOLATION property=%s replay=%s", r.ID, r.Replay))
			continue
		}
		art := map[string]any{"property": r.ID, "class": key, "attrs": c.Attrs, "cases_in_class": c.Count, "case": c.Detail, "tier": r.Tier}
		b, _ := json.MarshalIndent(art, "", " ")
		_ = os.WriteFile(p, b, 0o644)
		lines = append(lines, fmt.Sprintf("VIOLATION property=%s replay=%s", r.ID, p))
	}
	if r.Replay == "" {
		nt := int64(len(r.nontrivial)) + r.ntOverflow
		cov := map[string]any{
			"evaluations":         r.evals,
			"distinct_nontrivial": nt,
			"rule":                rule,
			"samples":             r.samples,
			"exhaustive":          len(r.notExh) == 0,
		}
		if len(r.notExh) > 0 {
			cov["not_exhaustive_because"] = r.notExh
		}
		for k, v := range r.extra {
			cov[k] = v
		}
		kf := []string{}
		for i, n := range r.knownHit {
			kf = append(kf, fmt.Sprintf("%s (cases=%d)", r.known[i].Name, n))
		}
		sort.Strings(kf)
		cov["known_findings_reproduced"] = kf
		ev := map[string]any{
			"property_id": r.ID, "tier": r.Tier, "seed": r.Seed, "level": r.Level,
			"coverage": cov, "assumptions": r.assume, "wall_s": wall, "violations": viol,
		}
		b, _ := json.MarshalIndent(ev, "", " ")
		_ = os.MkdirAll(filepath.Join(r.Out, "evidence"), 0o755)
		if err := os.WriteFile(filepath.Join(r.Out, "evidence", r.ID+".json"), append(b, '\n'), 0o644); err != nil {
			fmt.Fprintln(os.Stderr, err)
			os.Exit(2)
		}
		fmt.Printf("%s %s: evaluations=%d distinct_nontrivial=%d exhaustive=%v wall=%.1fs\n", r.ID, r.Tier, r.evals, nt, len(r.notExh) == 0, wall)
	}
	for _, l := range lines {
		fmt.Println(l)
	}
	if viol > 0 {
		os.Exit(1)
	}
	if r.Replay != "" {
		fmt.Printf("%s replay: no violation reproduced\n", r.ID)
	}
	os.Exit(0)
}

func sanitize(s string) string {
	var b strings.Builder
	for _, c := range s {
		switch {
		case c >= 'a' && c <= 'z', c >= 'A' && c <= 'Z', c >= '0' && c <= '9', c == '-', c == '_', c == '.':
			b.WriteRune(c)
		default:
			b.WriteByte('_')
		}
	}
	if b.Len() > 80 {
		return b.String()[:80]
	}
	return b.String()
}

// Fatal is a harness error (never a verdict): exit 2.
func Fatal(format string, a ...any) {
	fmt.Fprintf(os.Stderr, "HARNESS-ERROR: "+format+"\n", a...)
	os.Exit(2)
}
