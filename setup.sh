#!/bin/bash
# Offline setup after a fresh restore: warm the build cache by building every check harness.
set -u
cd "$(dirname "$0")"
export GOFLAGS=-mod=mod GOPROXY=off GOSUMDB=off GOTOOLCHAIN=local
cp -f /repo/go.sum go.sum
mkdir -p bin evidence replays
rc=0
for d in cmd/*/; do
  n=$(basename "$d")
  ./run.sh "$(echo "$n" | tr 'a-z' 'A-Z')" --build-only || rc=1
done
exit $rc
